#!/venv/bin/python
"""Keeps the behaviour-preserving refactorings written by independent sub-agents under /verif/refactored/<id>/ and
records what every registered check says about each (scratch copy of /repo's modules + the patch).  A VIOLATION on
any of them is a false alarm; exit 2 means the check could not decide the refactored shape.

usage: keep_refs.py <ref_out dir> <ref_res dir> [id offset] [base commit] [round]     |     keep_refs.py --recheck"""
import json, os, re, shutil, subprocess, sys, tempfile
VERIF = '/verif'
MODS = ['t2data', 't2listing', 't2thermo', 'IAPWS97', 't2incons', 'mulgrids', 't2grids', 'geometry', 'fixed_format_file']
CLAIMED = [c['property_id'] for c in json.load(open(os.path.join(VERIF, 'MANIFEST.json')))['checks']]


def sh(cmd, cwd=None):
    p = subprocess.run(cmd, shell=True, cwd=cwd, stdout=subprocess.PIPE, stderr=subprocess.STDOUT, text=True)
    return p.returncode, p.stdout


def run_checks(dst, base_commit):
    d = tempfile.mkdtemp(prefix='keep_refs_')
    try:
        used = 'HEAD'
        for m in MODS: shutil.copy('/repo/%s.py' % m, d)
        rc, out = sh('patch -s -p1 -i %s' % os.path.join(dst, 'patch.diff'), cwd=d)
        if rc != 0 and base_commit:
            used = base_commit
            for f in os.listdir(d): os.remove(os.path.join(d, f))
            for m in MODS:
                rc2, src = sh('git -C /repo show %s:%s.py' % (base_commit, m))
                open(os.path.join(d, m + '.py'), 'w').write(src)
            rc, out = sh('patch -s -p1 -i %s' % os.path.join(dst, 'patch.diff'), cwd=d)
        if rc != 0: return None, None
        res = {}
        for pid in CLAIMED:
            rc, out = sh('/venv/bin/python -m pytough_sa check %s --root %s --no-write' % (pid, d), cwd=VERIF)
            if rc == 1: res[pid] = {'exit': 1, 'violated': sorted(set(re.findall(r'violated: \[(\w+)\] (.*)', out)))}
            elif rc == 2: res[pid] = {'exit': 2, 'undecided': sorted(set(re.findall(r'^ANALYSIS-ERROR property=\w+ \[(\w+)\]', out, re.M)))}
        return res, used
    finally:
        shutil.rmtree(d, ignore_errors=True)


def summary():
    base = os.path.join(VERIF, 'refactored')
    rows = []
    for rid in sorted(os.listdir(base)):
        mp = os.path.join(base, rid, 'meta.json')
        if os.path.exists(mp):
            m = json.load(open(mp))
            rows.append({'id': rid, 'false_alarm': m['false_alarm'], 'undecided': m['undecided'], 'checks': m['checks']})
    json.dump(rows, open(os.path.join(base, 'SUMMARY.json'), 'w'), indent=1)
    print('%d refactorings, %d with a VIOLATION (false alarm), %d with an undecided check' % (
        len(rows), sum(1 for r in rows if r['false_alarm']), sum(1 for r in rows if r['undecided'])))


def evaluate(dst, meta):
    res, used = run_checks(dst, meta.get('base_commit'))
    if res is None:
        meta['note'] = 'patch applies neither to the current tree nor to its base commit'; meta['checks'] = {}; meta['false_alarm'] = None; meta['undecided'] = None
    else:
        # a known genuine defect of the base commit is not a statement about the refactoring
        if used != 'HEAD':
            for pid, v in list(res.items()):
                if v['exit'] == 1 and all('refine_layers :: the surface layer name it ends up with' in k for r, k in v['violated']): del res[pid]
        meta['checked_on'] = used
        meta['checks'] = res
        meta['false_alarm'] = any(v['exit'] == 1 for v in res.values())
        meta['undecided'] = sorted(p for p, v in res.items() if v['exit'] == 2)
    json.dump(meta, open(os.path.join(dst, 'meta.json'), 'w'), indent=1)
    print(os.path.basename(dst), 'FALSE-ALARM' if meta['false_alarm'] else 'silent', meta.get('undecided'), meta.get('checked_on'))


def main():
    if sys.argv[1] == '--recheck':
        base = os.path.join(VERIF, 'refactored')
        jobs = [(os.path.join(base, rid), json.load(open(os.path.join(base, rid, 'meta.json')))) for rid in sorted(os.listdir(base))
                if os.path.exists(os.path.join(base, rid, 'meta.json'))]
        import multiprocessing
        with multiprocessing.Pool(12) as pool:
            pool.starmap(evaluate, jobs)
        return summary()
    outdir, resdir = sys.argv[1], sys.argv[2]
    # later rounds: number the kept ids after those of the earlier rounds (R1..R3 -> R4..R6) and record their base commit
    offset = int(sys.argv[3]) if len(sys.argv) > 3 else 0
    base_commit = sys.argv[4] if len(sys.argv) > 4 else '4c3df06'
    rnd = int(sys.argv[5]) if len(sys.argv) > 5 else 1
    for pid in sorted(os.listdir(outdir)):
        for rk in sorted(os.listdir(os.path.join(outdir, pid))):
            src = os.path.join(outdir, pid, rk)
            if not os.path.isfile(os.path.join(src, 'patch.diff')): continue
            rp = os.path.join(resdir, '%s_%s.json' % (pid, rk))
            rid = '%s_R%d' % (pid, int(rk[1:]) + offset)
            r = json.load(open(rp)) if os.path.exists(rp) else {}
            if not r.get('confirmed'):
                print(rid, 'dropped (equivalence not confirmed)'); continue
            dst = os.path.join(VERIF, 'refactored', rid)
            os.makedirs(dst, exist_ok=True)
            for name in ('patch.diff', 'equiv.py', 'notes.md'):
                if os.path.exists(os.path.join(src, name)): shutil.copy(os.path.join(src, name), dst)
            notes = open(os.path.join(dst, 'notes.md')).read() if os.path.exists(os.path.join(dst, 'notes.md')) else ''
            meta = {'id': rid, 'kind': 'behaviour-preserving refactoring of code implementing ' + pid,
                    'source': 'written by an independent sub-agent given only the text of the property and a scratch git worktree',
                    'base_commit': base_commit, 'round': rnd, 'what': notes.strip()[:1500],
                    'confirmed': {'equiv_digests_equal': r.get('equiv_same_output'), 'digest': r.get('digests'), 'tests_same_as_clean_tree': r.get('tests_same'),
                                  'tests_summary': r.get('tests_summary')},
                    'what_was_run': ['tools/ref_eval.py (fresh worktree at the base commit: equiv.py on the clean tree, git apply, equiv.py again, pinned tests)',
                                     'tools/keep_refs.py (scratch copy of the current modules + patch; every registered check with --root)']}
            if os.environ.get('KEEP_REFS_NOEVAL'):
                # (files and confirmation record only; the checks are run afterwards, in parallel, by --recheck)
                mp_ = os.path.join(dst, 'meta.json')
                if not os.path.exists(mp_) or not json.load(open(mp_)).get('checks'):
                    meta.update(checks={}, false_alarm=None, undecided=None)
                    json.dump(meta, open(mp_, 'w'), indent=1)
            else: evaluate(dst, meta)
    summary()


if __name__ == '__main__':
    main()
