#!/venv/bin/python
"""Rewrites the rule inventory table of DESIGN.md (section 11.2) from the evidence files of the last quick run."""
import json, os, re
V = os.path.dirname(os.path.dirname(os.path.abspath(__file__)))
ids = [c['property_id'] for c in json.load(open(os.path.join(V, 'MANIFEST.json')))['checks']]
rows = ['| id | rules (obligations on the current tree) |', '|----|------|']
for pid in ids:
    ev = json.load(open(os.path.join(V, 'evidence', pid + '.json')))
    rules = ev['coverage']['rules']
    skip = ('SELFTEST', 'SEEDED', 'REFACTORED', 'PROBE', 'CORE')
    rows.append('| %s | %s |' % (pid, ', '.join('%s %d' % (r, v['obligations']) for r, v in sorted(rules.items()) if r not in skip)))
p = os.path.join(V, 'DESIGN.md')
s = open(p).read()
m = re.search(r'\| id \| rules \(obligations on the current tree\) \|\n(\|.*\n)+', s)
assert m, 'inventory table not found'
s = s[:m.start()] + '\n'.join(rows) + '\n' + s[m.end():]
open(p, 'w').write(s)
print('\n'.join(rows))
