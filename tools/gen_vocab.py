#!/venv/bin/python
"""Regenerates /verif/vocab.json (see pytough_sa/vocab.py) from the current /repo tree.
Run it after changing rules, on a tree where every check passes."""
import contextlib, io, json, os, sys
sys.path.insert(0, os.path.dirname(os.path.dirname(os.path.abspath(__file__))))
from pytough_sa import vocab
from pytough_sa.core import Program
from pytough_sa.report import Run
import importlib

out = {}
for f in sorted(os.listdir(os.path.join(os.path.dirname(vocab.__file__), 'rules'))):
    if not (f.startswith('c') and f[1:3].isdigit() and f.endswith('.py')): continue
    pid = f[:3].upper()
    mod = importlib.import_module('pytough_sa.rules.' + f[:-3])
    prog = Program()
    run = Run(pid, 'quick', prog)
    with contextlib.redirect_stdout(io.StringIO()):
        mod.check(run)
    bad = [o for o in run.obs if o.status != 'discharged']
    out[pid] = vocab.baseline(run)
    counts = {}
    for o in run.obs:
        if o.key != 'rule-aborted': counts.setdefault(o.rule, set()).add(o.key)
    out.setdefault('_counts', {})[pid] = dict((r, len(k)) for r, k in sorted(counts.items()))
    print(pid, 'rules', len(out[pid]), 'functions', sum(len(v) for v in out[pid].values()),
          'names', sum(len(n) for v in out[pid].values() for n in v.values()), '(non-discharged obligations: %d)' % len(bad))
import ast, warnings
from pytough_sa.core import MODULES, REPO
nb = {}
for m in MODULES:
    with warnings.catch_warnings():
        warnings.simplefilter('ignore')
        t = ast.parse(open(os.path.join(REPO, m + '.py'), encoding='utf-8', errors='replace').read())
    names = set()
    for f in ast.walk(t):
        if isinstance(f, ast.FunctionDef):
            for g in ast.walk(f):
                if isinstance(g, ast.FunctionDef) and g is not f: names.add('%s.%s' % (f.name, g.name))
    nb[m] = sorted(names)
out['_nested_baseline'] = nb
out['_analyser_digest'] = vocab.analyser_digest()
json.dump(out, open(vocab.PATH, 'w'), indent=0, sort_keys=True)
