#!/venv/bin/python
"""Confirms a behaviour-preserving refactoring written by a sub-agent and runs every check against it.

usage: ref_eval.py <dir with patch.diff + equiv.py>
In a scratch git worktree of /repo under /tmp (removed afterwards): equiv.py digest on the clean tree, patch applies,
library imports, equiv.py digest with the patch (must be equal), pinned tests pass as on the clean tree, then every
registered check with --root: any exit 1 is a FALSE ALARM, exit 2 is 'undecided'."""
import json, os, re, shutil, subprocess, sys, tempfile
VERIF = os.path.dirname(os.path.dirname(os.path.abspath(__file__)))
CLAIMED = [c['property_id'] for c in json.load(open(os.path.join(VERIF, 'MANIFEST.json')))['checks']]


def sh(cmd, cwd=None, env=None, timeout=1800):
    e = dict(os.environ)
    if env: e.update(env)
    p = subprocess.run(cmd, shell=True, cwd=cwd, env=e, stdout=subprocess.PIPE, stderr=subprocess.STDOUT, text=True, timeout=timeout)
    return p.returncode, p.stdout


def passed(wt):
    rc, out = sh('/venv/bin/python -m pytest -q -p no:cacheprovider --timeout=900 --continue-on-collection-errors -rp 2>&1', cwd=wt, env={'PYTHONPATH': wt})
    return set(m.group(1) for m in re.finditer(r'^PASSED (\S+)', out, re.M)), (out.strip().splitlines() or [''])[-1]


def main():
    cand = os.path.abspath(sys.argv[1])
    res = {'candidate': cand}
    wt = tempfile.mkdtemp(prefix='ref_eval_wt_'); os.rmdir(wt)
    sh('git -C /repo worktree add -q --detach %s %s' % (wt, os.environ.get('REF_EVAL_BASE', 'HEAD')))
    try:
        env = {'PYTHONPATH': wt}
        rc0, out0 = sh('/venv/bin/python %s' % os.path.join(cand, 'equiv.py'), cwd=wt, env=env, timeout=1500)
        base_pass, base_sum = passed(wt)
        rc, out = sh('git -C %s apply %s' % (wt, os.path.join(cand, 'patch.diff')))
        res['patch_applies'] = rc == 0
        if rc != 0:
            res['error'] = out[-300:]; print(json.dumps(res, indent=1)); return 1
        rc1, out1 = sh('/venv/bin/python %s' % os.path.join(cand, 'equiv.py'), cwd=wt, env=env, timeout=1500)
        res['equiv_rc'] = [rc0, rc1]
        # the harnesses print a sha1 digest of everything they observed (plus, some of them, timing / progress lines)
        dig = lambda o: re.findall(r'\b[0-9a-f]{40}\b', o)
        res['equiv_same_output'] = (rc0 == 0 and rc1 == 0 and (out0 == out1 or (dig(out0) and dig(out0) == dig(out1))))
        res['digests'] = dig(out1)[-2:]
        res['equiv_tail'] = (out1.strip().splitlines() or [''])[-1][:200]
        p, s = passed(wt)
        res['tests_summary'] = s
        res['tests_same'] = (p == base_pass)
        res['confirmed'] = bool(res['equiv_same_output'] and res['tests_same'])
        out_checks = {}
        for pid in CLAIMED:
            rc, out = sh('/venv/bin/python -m pytough_sa check %s --root %s --no-write' % (pid, wt), cwd=VERIF)
            if rc == 1: out_checks[pid] = {'exit': 1, 'violated': sorted(set(re.findall(r'violated: \[(\w+)\] (.*)', out)))}
            elif rc == 2: out_checks[pid] = {'exit': 2, 'undecided': sorted(set(re.findall(r'^ANALYSIS-ERROR property=\w+ \[(\w+)\] ([^:]*)', out, re.M)))[:6]}
        res['checks'] = out_checks
        res['false_alarm'] = any(v['exit'] == 1 for v in out_checks.values())
    finally:
        sh('git -C /repo worktree remove --force %s' % wt); sh('git -C /repo worktree prune'); shutil.rmtree(wt, ignore_errors=True)
    print(json.dumps(res, indent=1))


if __name__ == '__main__':
    sys.exit(main())
