#!/venv/bin/python
"""False-alarm probe with behaviour-preserving rewrites other than renames.  For every function a property's rules
consult, one scratch copy per rewrite kind with that rewrite applied throughout the function:
   swapif   `if c: A else: B`          -> `if not (c): B else: A`        (only plain if/else, no elif chain)
   flipcmp  `a < b` / `a <= b` / ...   -> `b > a` / `b >= a` / ...      (single comparisons of side-effect-free operands)
   tmpret   `return E`                 -> `_rv = E; return _rv`
   augexp   `n += k` (k a number)      -> `n = n + k`
The property's check is run on each; a VIOLATION on any of them is a false alarm.

usage: refactor_probe.py [Cxx ...] [--kinds swapif,flipcmp,...]"""
import ast, contextlib, copy, io, json, os, shutil, sys, tempfile
VERIF = os.path.dirname(os.path.dirname(os.path.abspath(__file__)))
sys.path.insert(0, VERIF); sys.path.insert(0, os.path.join(VERIF, 'tools'))
import transform
from pytough_sa.core import Program, MODULES, AnalysisError
from pytough_sa import vocab
REPO = '/repo'
FLIP = {ast.Lt: ast.Gt, ast.Gt: ast.Lt, ast.LtE: ast.GtE, ast.GtE: ast.LtE}


def _pure(e):
    return not any(isinstance(x, (ast.Call, ast.Await, ast.Yield, ast.NamedExpr)) for x in ast.walk(e))


class SwapIf(ast.NodeTransformer):
    n = 0
    def visit_If(self, node):
        self.generic_visit(node)
        if node.orelse and not (len(node.orelse) == 1 and isinstance(node.orelse[0], ast.If)):
            SwapIf.n += 1
            return ast.If(test=ast.UnaryOp(op=ast.Not(), operand=node.test), body=node.orelse, orelse=node.body)
        return node
    def visit_FunctionDef(self, node):
        return node if getattr(self, '_inner', False) and False else self._fn(node)
    def _fn(self, node):
        node.body = [self.visit(s) for s in node.body]; return node


class FlipCmp(ast.NodeTransformer):
    n = 0
    def visit_Compare(self, node):
        self.generic_visit(node)
        if len(node.ops) == 1 and type(node.ops[0]) in FLIP and _pure(node.left) and _pure(node.comparators[0]):
            FlipCmp.n += 1
            return ast.Compare(left=node.comparators[0], ops=[FLIP[type(node.ops[0])]()], comparators=[node.left])
        return node


class TmpRet(ast.NodeTransformer):
    n = 0
    def _block(self, stmts):
        out = []
        for s in stmts:
            s = self.visit(s)
            if isinstance(s, ast.Return) and s.value is not None and not isinstance(s.value, (ast.Name, ast.Constant)):
                TmpRet.n += 1
                out.append(ast.Assign(targets=[ast.Name(id='_rv', ctx=ast.Store())], value=s.value, lineno=s.lineno))
                out.append(ast.Return(value=ast.Name(id='_rv', ctx=ast.Load())))
            else: out.append(s)
        return out
    def generic_visit(self, node):
        for f in ('body', 'orelse', 'finalbody'):
            b = getattr(node, f, None)
            if isinstance(b, list) and b and isinstance(b[0], ast.stmt): setattr(node, f, self._block(b))
        for h in getattr(node, 'handlers', []): h.body = self._block(h.body)
        return node
    def visit_Lambda(self, n): return n


class AugExp(ast.NodeTransformer):
    n = 0
    def visit_AugAssign(self, node):
        if isinstance(node.target, ast.Name) and isinstance(node.value, ast.Constant) and isinstance(node.value.value, (int, float)) \
           and isinstance(node.op, (ast.Add, ast.Sub)):
            AugExp.n += 1
            return ast.Assign(targets=[ast.Name(id=node.target.id, ctx=ast.Store())],
                              value=ast.BinOp(left=ast.Name(id=node.target.id, ctx=ast.Load()), op=node.op, right=node.value), lineno=node.lineno)
        return node


class TmpExpr(ast.NodeTransformer):
    """`T = L op R`  ->  `_t<k> = L; T = _t<k> op R`   (left operand evaluated first either way)"""
    n = 0
    def _block(self, stmts):
        out = []
        for s in stmts:
            s = self.visit(s)
            if isinstance(s, ast.Assign) and isinstance(s.value, ast.BinOp) and not isinstance(s.value.left, (ast.Name, ast.Constant)):
                TmpExpr.n += 1
                t = '_t%d' % TmpExpr.n
                out.append(ast.Assign(targets=[ast.Name(id=t, ctx=ast.Store())], value=s.value.left, lineno=s.lineno))
                s.value = ast.BinOp(left=ast.Name(id=t, ctx=ast.Load()), op=s.value.op, right=s.value.right)
            out.append(s)
        return out
    def generic_visit(self, node):
        for f in ('body', 'orelse', 'finalbody'):
            b = getattr(node, f, None)
            if isinstance(b, list) and b and isinstance(b[0], ast.stmt): setattr(node, f, self._block(b))
        for h in getattr(node, 'handlers', []): h.body = self._block(h.body)
        return node
    def visit_Lambda(self, n): return n


class AddPass(ast.NodeTransformer):
    """a `pass` at the start of every block and a docstring-like string statement at the end of every loop body"""
    n = 0
    def generic_visit(self, node):
        super().generic_visit(node)
        for f in ('body', 'orelse'):
            b = getattr(node, f, None)
            if isinstance(b, list) and b and isinstance(b[0], ast.stmt) and not isinstance(node, ast.Module):
                AddPass.n += 1
                start = 1 if (f == 'body' and isinstance(node, ast.FunctionDef) and isinstance(b[0], ast.Expr) and isinstance(b[0].value, ast.Constant)) else 0
                b.insert(start, ast.Pass())
        return node


KINDS = {'swapif': SwapIf, 'flipcmp': FlipCmp, 'tmpret': TmpRet, 'augexp': AugExp, 'tmpexpr': TmpExpr, 'addpass': AddPass}


def run_one(job):
    pid, mod, fname, lineno, kind = job
    src = open(os.path.join(REPO, mod + '.py'), encoding='utf-8', errors='replace').read()
    tree = transform.parse(src)
    T = KINDS[kind]; T.n = 0
    for node in ast.walk(tree):
        if isinstance(node, ast.FunctionDef) and node.name == fname and node.lineno == lineno:
            t = T()
            if kind in ('tmpret', 'tmpexpr', 'addpass'): t.generic_visit(node)
            else: node.body = [t.visit(s) for s in node.body]
    if T.n == 0: return (job, None, [], [])
    ast.fix_missing_locations(tree)
    d = tempfile.mkdtemp(prefix='refactor_probe_')
    try:
        for m in MODULES: shutil.copy(os.path.join(REPO, m + '.py'), d)
        open(os.path.join(d, mod + '.py'), 'w').write(ast.unparse(tree) + '\n')
        compile(open(os.path.join(d, mod + '.py')).read(), mod, 'exec')
        from pytough_sa.__main__ import run_check
        buf = io.StringIO()
        with contextlib.redirect_stdout(buf):
            code = run_check(pid, 'quick', root=d, write=False)
        out = buf.getvalue()
        viol = sorted(set(l.strip()[:170] for l in out.splitlines() if 'violated: [' in l))
        unk = sorted(set(l.split(']')[0].split('[')[-1] for l in out.splitlines() if l.startswith('ANALYSIS-ERROR')))
        return (job, code, viol, unk)
    finally:
        shutil.rmtree(d, ignore_errors=True)


def main():
    args = sys.argv[1:]
    kinds = list(KINDS)
    if '--kinds' in args:
        kinds = args[args.index('--kinds') + 1].split(','); del args[args.index('--kinds'):args.index('--kinds') + 2]
    table = vocab.load()
    pids = args or sorted(k for k in table if not k.startswith('_'))
    prog = Program()
    todo = []
    for pid in pids:
        quals = set()
        for rule, fs in table.get(pid, {}).items(): quals.update(fs)
        for q in sorted(quals):
            try: fi = prog.func(q)
            except AnalysisError: continue
            for k in kinds: todo.append((pid, fi.module.name, fi.node.name, fi.node.lineno, k))
    import multiprocessing as mp
    with mp.Pool(16) as pool:
        res = [r for r in pool.map(run_one, todo, chunksize=4) if r[1] is not None]
    bad = [r for r in res if r[1] == 1]
    und = [r for r in res if r[1] == 2]
    for job, code, viol, unk in bad: print('FALSE-ALARM', job, viol[:2])
    per = {}
    for job, code, viol, unk in und:
        for u in unk: per[(job[0], u, job[4])] = per.get((job[0], u, job[4]), 0) + 1
    print('variants %d, silent %d, undecided (exit 2) %d, false alarms (exit 1) %d' % (len(res), len(res) - len(bad) - len(und), len(und), len(bad)))
    for k, n in sorted(per.items()): print('  undecided', k[0], k[1], k[2], n)
    json.dump({'variants': len(res), 'undecided': len(und), 'false_alarms': [[list(r[0]), r[2]] for r in bad],
               'undecided_by_rule': dict(('%s/%s/%s' % k, n) for k, n in per.items())}, open(os.path.join(VERIF, 'evidence', 'refactor_probe.json'), 'w'), indent=1)
    return 1 if bad else 0


if __name__ == '__main__':
    sys.exit(main())
