#!/venv/bin/python
"""Regenerates /verif/MANIFEST.json from the per-property metadata below.
A property is claimed only if pytough_sa/rules/<id>.py exists."""
import json, os, subprocess, sys

VERIF = os.path.dirname(os.path.dirname(os.path.abspath(__file__)))

LEVELS = {
 'C01': ("Static writer/reader agreement for every t2data record: dispatch tables, keywords, terminators and record "
         "sequence of each section, field<->attribute maps, chunk sizes, fix/unfix pairing, twin format tables, "
         "presence predicates, binary record sequence. Each is a necessary condition of the round trip for ALL inputs "
         "and configurations (decided once from the code); digit-exact equality and the byte-for-byte fixpoint are not decided.",
         "3 (C01)"),
 'C02': ("Static proof of the structural clause 'no field ever occupies columns other than its own': LAY (444 fields "
         "of the four tables: positive widths, contiguous columns, preprocess_specification computes exactly those, by exact "
         "constant propagation), FIT (string-length domain: the string appended per field has len == width on every path "
         "or the path raises). Holds for every value, not a sample. Not decided: the parsed value equals the written one.",
         "3 (C02)"),
 'C03': ("Static writer/reader agreement for the MULgraph file: section keywords/dispatch, record sequence and "
         "terminators, field<->attribute maps, unit scaling pairing (x unit_scale on read, / on write), name justification, "
         "by-name header fields are real instance attributes (not properties), inverse code tables. Two-decimal equality not decided.",
         "3 (C03)"),
 'C04': ("Static agreement of the geometry's announced block/connection enumeration with the grid builder's loops "
         "(same predicate, same order, same orientation) and dimension/affine-type correctness of every volume, area, "
         "distance and centre formula (invariance under unit rescaling and origin translation). Dimension-preserving "
         "numeric slips are not decided.", "3 (C04)"),
 'C06': ("Static termination/frame clause: every consumer of the 'no more tables' (None) result tests it; history() "
         "saves the cursor and restores it on every path to a normal return; both reversed-connection lookup paths negate. "
         "Series equality with stepping is not decided.", "3 (C06)"),
 'C07': ("Static history-independence by construction: all navigation funnels through set_index (absolute seek + full "
         "re-read), nothing set_index reads-before-writing is written by navigation-reachable code, next/prev bounds and "
         "nearest selection shape, per-simulator method binding complete. Stale rows inside tables are not decided.",
         "3 (C07)"),
 'C08': ("Static container discipline of t2grid/t2data/t2incon: dict/list/back-reference views are only mutated "
         "together on every path, renames re-key without sequential in-place del/insert (safe for swaps and cycles), name "
         "writes coupled to re-keying. Holds for all edit histories because it is a per-function invariant-preservation "
         "argument. Pre-condition violations by the caller are not decided.", "3 (C08)"),
 'C09': ("Static: any function reversing a connection's blocks reverses every orientation-coupled field (distance, "
         "nad1/nad2, dircos sign); rename/reorder write no physics field (frame); MINC/embed volume arithmetic partitions the "
         "normalised fraction vector and chains continua. MINC proximity numerics not decided.", "3 (C09)"),
 'C10': ("Static container discipline of mulgrid: 5 dict/list pairs, node.column / column.connection / neighbour "
         "back-references, surface<->num_layers coupling, composite edits refresh derived name indices on every exit, "
         "renames re-key connections and are cycle-safe. Geometric validity (CCW, area) after arbitrary edits not decided.",
         "3 (C10)"),
 'C11': ("Static proof that every literal subdivision table (refine transition entries, decompose cases, split, "
         "triangulate fan) is a topological tiling of its parent polygon with conforming refined edges (oriented edge-chain "
         "cancellation), which implies area conservation for ALL coordinates; exhaustive dispatch of transition_type over its "
         "22-case input space; children inherit surface; layer refinement partitions thickness. Convexity for a concrete "
         "geometry not decided.", "3 (C11)"),
 'C12': ("Static soundness half: every column/block a search returns is dominated by a passed containment test on that "
         "same object; the crossing rule of in_polygon is symmetric half-open; block-existence predicate consistent. "
         "Completeness of search aids and track lengths not decided.", "3 (C12)"),
 'C13': ("Static writer/reader agreement for t2incon files: record sequence and terminators, field<->attribute maps "
         "incl. fix/unfix and permeability triple, 4-per-line chunking, incon1 layout prefix of incon1_toughreact, timing "
         "format selected by the same predicate on both sides. 13-decimal equality not decided.", "3 (C13)"),
 'C14': ("Static table/structure checks of IAPWS-97: the 10 power tables are valid complete addition chains, every "
         "exponent a formula indexes is produced by its chain, the two derivative sums per region come from one monomial "
         "set, classifier guards imply equation validity guards, sat/tsat intervals closed with the right constants and "
         "transposed coefficient use. All numerical clauses are not decided.", "3 (C14)"),
 'C15': ("Static: named power variables of the IFC-67 routines equal the monomials they are built from; bounds logic "
         "of cowat/supst/sat/tsat/region mutually consistent and consistent with IAPWS97 constants; steam fraction clamped "
         "to [0,1] on every path. Numerical agreement between formulations not decided.", "3 (C15)"),
 'C16': ("Static exception-escape analysis: no exception can escape fortran_float/fortran_int for any str argument "
         "(exact try/except semantics incl. exceptions raised inside handlers); listing cells and t2incon values are read "
         "through the Fortran readers at every call site. The value returned per rendering style is not decided.", "3 (C16)"),
 'C17': ("Static: per naming convention the name-part lengths, concatenation layout and extraction slices agree; every "
         "generated name passes a length guard whose other branch raises NamingConventionError; surface-layer name avoided. "
         "Injectivity of the base-26 numeration and fix/unfix idempotence not decided.", "3 (C17)"),
 'C19': ("Static: mappings are total (assignment on every path of a loop over the whole target list); the 3x3 "
         "atmosphere case matrix of t2incon.transfer_from is exhaustive; nothing reachable from the source is stored without "
         "a copy; above-surface correction uses the exact block-existence predicate. Nearest-ness and generator totals not decided.",
         "3 (C19)"),
 'C20': ("Static post-state obligations of convert_to_TOUGH2/AUTOUGH2 on every path; generators selected for deletion "
         "reach removal from both containers; the EOS name found in the simulator string reaches the result (no dead "
         "store); export appends exactly once per block/generator under the right predicate. MOP digit semantics not decided.",
         "3 (C20)"),
}

TECH = {
 'C01': 'AST writer/reader sibling comparison on a canonicalised AST: dispatch-table folding, record-sequence trees, field-map symbolic binding, chunk arithmetic, must-pass-through terminators; writer purity (alias of attribute dictionaries), shared-mutable-default and stale-flag (read-before-complete) lints; exhaustive interpretation of the main-file guard; path-sensitive name-fix dominance; strip-vs-justify wrapper check; mutable-default lint; reader/writer agreement of the generator-table type test; quantifier of the echo read-back',
 'C02': 'constant propagation over format tables + string-length abstract domain (==W, >=W, >W, <=W) with structured path analysis; class-level shared-container and memo-key lints; origin analysis of the fitted string (unedited % conversion)',
 'C03': 'AST writer/reader sibling comparison + unit/justification wrapper pairing (branch-aware alias resolution) + property-vs-attribute check + truthiness-of-optional-number contradiction rule; must-pass-through of setter effects on the header-read path; tautology detection of the justification test; quantifier of the geometry-level default-surface flag',
 'C04': 'twin-loop normal-form comparison with an index algebra for the layer enumeration + dimension/affine type inference over geometry kernels; rebuild-order rule derived from store/load sets of the two index builders; layer-top typestate; dependent index rebuilt under the same guards as its source; surface compared only with layer bottoms',
 'C06': 'return-value None analysis of next_table consumers; save/restore must-pass-through; effect (write-set) analysis; finite-model interpretation of skip_to_table_TOUGHplus over table layouts; sibling agreement on repeated rows',
 'C07': 'who-may-write + read-before-write effect analysis over the resolved call graph; guard-shape checks',
 'C08': 'typed container-pair effect analysis (membership changes paired on all paths), re-key shape lint',
 'C09': 'orientation-coupled field typestate; frame (write-set) analysis; dimension + partition check of MINC',
 'C10': 'typed container-pair/back-reference effect analysis; must-pass-through refresh; surface/layer-count coupling and recount-after-rebuild rules; iterate-while-mutating lint; repair-pass must-pass-through; node-ownership check at add_column sites; bulk neighbour update pairing; key-normalisation agreement between writers and readers of the connection dictionary',
 'C11': 'oriented edge-chain tiling proof over folded literal tables; exhaustive constant propagation of transition_type and of the decompose start-node dispatch; affine index analysis of the angle list; rebuilt-set cover rules; exhaustive interpretation of the cyclic index helpers and of how refine() consumes the dispatch result',
 'C12': 'dominance analysis of returned objects by containment tests; comparison-shape check; memo-invalidation analysis (position-derived caches vs. writers of positions); tolerance formula comparison; solution-component role check of the line/edge intersection system; wave admission must not depend on the query point',
 'C13': 'AST writer/reader sibling comparison; layout prefix; chunk arithmetic; path-sensitive name-fix dominance; flavour read-before-set',
 'C14': 'addition-chain validation of folded tables; index-use coverage; comprehension shape comparison; interval logic on guards; outward-rounded interval abstract interpretation of sat/tsat (division / sqrt safety, sign change by the intermediate value theorem); end-point constant folding',
 'C15': 'monomial abstract interpretation of straight-line products; interval logic on literal guards; clamp dominance; taint analysis of the root-finder callback argument; memo-key lint; interval evaluation of the root-finder start value against the evaluation limits of sat()',
 'C16': 'exception-escape (may-raise) analysis with exact try/except semantics; who-may-call lint; may-raise summaries of sibling readers and of int() applied to a possibly non-finite float',
 'C17': 'constant folding of convention tables + slice arithmetic; dominating length-guard analysis; avoided-name dataflow between add_layers and its callers; uniqstring-last ordering; name-space (searched dictionary = filled dictionary) check',
 'C19': 'definite-assignment totality; case-matrix exhaustiveness; taint (alias) analysis requiring copy; receiver-role consistency; crossed-argument detection at call sites; memo-invalidation analysis; mutable-default lint; generator source-column role check; guard analysis of the surface shift in translate()',
 'C20': 'must-pass-through post-state; def-use flow to removal sites; dead-store detection; append-once path count; finite-model interpretation of the generator conversion; iteration-order evaluation of the EOS table; first-section insertion rule',
}

NOTES = {
 'default': "Trusted base: CPython's ast parser; the analyser's models of Python primitives listed in the evidence file "
            "(printf widths, float()/int() may-raise sets, str methods); frozen idiom and assumption tables printed in evidence. "
            "Decides the named structural clauses only - a necessary condition of the property, not the whole behaviour.",
}

NA = {
 'C05': "Column boundaries, key positions and row layout of every listing table are inferred at run time from the bytes "
        "of the first result set; no sound static abstraction of 'any listing a supported simulator can print' is in reach. "
        "The thin structural facts (binding complete, cells parsed by fortran_float) are checked under C07/C16.",
 'C18': "rectgeo's correctness is a relation between two algorithms over concrete geometric data (headings, sorted "
        "spacings, surfaces inferred from volumes); no writer/reader or twin-loop structure exists to compare and no clause "
        "is visible in the shape of the code beyond dimension correctness, which does not separate right from wrong.",
}

ALL = ['C%02d' % i for i in range(1, 21)]


def fix_commits():
    try:
        out = subprocess.check_output(['git', '-C', '/repo', 'log', '--format=%H %s'], text=True)
    except Exception:
        return []
    return [l.split()[0] for l in out.splitlines() if ' fix:' in l]


def main():
    checks, na = [], []
    for pid in ALL:
        if pid in NA:
            na.append({'property_id': pid, 'reason': NA[pid]}); continue
        if not os.path.exists(os.path.join(VERIF, 'pytough_sa', 'rules', pid.lower() + '.py')):
            na.append({'property_id': pid, 'reason': 'check not built yet (planned, DESIGN.md section 3); not claimed until it runs'})
            continue
        text, ref = LEVELS[pid]
        checks.append({
            'property_id': pid,
            'quick_cmd': '/venv/bin/python -m pytough_sa check %s --tier quick' % pid,
            'thorough_cmd': '/venv/bin/python -m pytough_sa check %s --tier thorough' % pid,
            'evidence_file': '/verif/evidence/%s.json' % pid,
            'replay_cmd_template': '/venv/bin/python -m pytough_sa explain {path}',
            'engine': 'pytough_sa',
            'level_claimed': {'category': 'other', 'text': text, 'design_ref': 'DESIGN.md section ' + ref},
            'level_note': NOTES['default'],
            'technique': 'static analysis (stdlib ast): ' + TECH[pid],
        })
    man = {
        'version': 1,
        'setup_cmd': 'true',
        'hooks': {'guard': 'PYTOUGH_VERIF', 'enable': 'none needed: checks read /repo source only; no instrumentation was added',
                  'baseline_off_cmd': 'cd /repo && /venv/bin/python -m pytest -ra -q -p no:cacheprovider --timeout=900 --continue-on-collection-errors',
                  'source_commits': fix_commits(), 'add_only': True},
        'engines': [{'name': 'pytough_sa', 'path': '/verif/pytough_sa',
                     'serves_properties': [c['property_id'] for c in checks],
                     'kind_free_text': 'repository-specific static analyser on the stdlib ast module: program model with '
                     'receiver typing, constant folder, structured path engine (must-pass, dominance, definite assignment), '
                     'abstract domains (record layouts, string length, dimension/affine, exception sets, record-sequence trees)'}],
        'checks': checks,
        'not_applicable': na,
        'notes': 'All checks parse /repo/*.py on every run and never import or execute repo code. Exit 0 pass, 1 VIOLATION, '
                 '2 ANALYSIS-ERROR (fail closed: anchor missing / idiom not recognised). Genuine defects found and repaired '
                 'are listed as fixed entries in known_findings.json; hooks.source_commits lists those fix: commits (no '
                 'instrumentation hooks exist).',
    }
    with open(os.path.join(VERIF, 'MANIFEST.json'), 'w') as f:
        json.dump(man, f, indent=1)
    print('claimed', [c['property_id'] for c in checks])
    print('not applicable', [n['property_id'] for n in na])


if __name__ == '__main__':
    main()
