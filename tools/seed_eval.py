#!/venv/bin/python
"""Confirms a candidate seeded change and runs the checks against it.

usage: seed_eval.py <candidate dir with patch.diff + demo.py> [--keep-as <id>]

Steps (all in a scratch git worktree of /repo under /tmp, removed afterwards):
  1. demo passes on the unmodified tree
  2. patch applies; library imports; demo FAILS with the patch
  3. pinned tests: same 37 pass with the patch
  4. every registered check is run against the patched tree (--root), recording which report a VIOLATION
"""
import json, os, re, shutil, subprocess, sys, tempfile

VERIF = os.path.dirname(os.path.dirname(os.path.abspath(__file__)))
BASE = json.load(open('/root/.vp/BASELINE.json'))
STABLE = set(BASE['stable_pass'])
CLAIMED = [c['property_id'] for c in json.load(open(os.path.join(VERIF, 'MANIFEST.json')))['checks']]


def sh(cmd, cwd=None, env=None, timeout=1800):
    e = dict(os.environ)
    if env: e.update(env)
    p = subprocess.run(cmd, shell=True, cwd=cwd, env=e, stdout=subprocess.PIPE, stderr=subprocess.STDOUT, text=True, timeout=timeout)
    return p.returncode, p.stdout


def passed_tests(wt):
    rc, out = sh('/venv/bin/python -m pytest -q -p no:cacheprovider --timeout=900 --continue-on-collection-errors -rp 2>&1', cwd=wt,
                 env={'PYTHONPATH': wt})
    names = set()
    for l in out.splitlines():
        m = re.match(r'^PASSED (\S+)', l)
        if m:
            f, _, rest = m.group(1).partition('::')
            names.add('%s.%s' % (f.replace('/', '.').replace('.py', ''), rest))
    return names, out.strip().splitlines()[-1] if out.strip() else ''


def main():
    cand = os.path.abspath(sys.argv[1])
    patch, demo = os.path.join(cand, 'patch.diff'), os.path.join(cand, 'demo.py')
    res = {'candidate': cand}
    wt = tempfile.mkdtemp(prefix='seed_eval_wt_')
    os.rmdir(wt)
    rc, out = sh('git -C /repo worktree add -q %s HEAD' % wt)
    try:
        env = {'PYTHONPATH': wt}
        rc, out = sh('/venv/bin/python %s' % demo, cwd=wt, env=env, timeout=900)
        res['demo_clean_rc'] = rc
        base_names, base_summary = passed_tests(wt)
        res['clean_tests_summary'] = base_summary
        rc, out = sh('git -C %s apply %s' % (wt, patch))
        res['patch_applies'] = (rc == 0)
        if rc != 0:
            res['error'] = out[-300:]
            print(json.dumps(res, indent=1)); return 1
        rc, out = sh('/venv/bin/python -c "import t2data, t2listing, t2thermo, IAPWS97, t2incons, mulgrids, t2grids, geometry, fixed_format_file"', cwd=wt, env=env)
        res['imports'] = (rc == 0)
        rc, out = sh('/venv/bin/python %s' % demo, cwd=wt, env=env, timeout=900)
        res['demo_patched_rc'] = rc
        res['demo_patched_tail'] = out.strip().splitlines()[-2:] if out.strip() else []
        names, summary = passed_tests(wt)
        res['tests_summary'] = summary
        # the same tests pass as on the clean tree (which contain the 37 pinned ones)
        res['tests_same_37'] = (names == base_names and STABLE <= names)
        if names != base_names:
            res['tests_diff'] = {'lost': sorted(base_names - names), 'gained': sorted(names - base_names)}
        hits = {}
        for pid in CLAIMED:
            rc, out = sh('/venv/bin/python -m pytough_sa check %s --root %s --no-write' % (pid, wt), cwd=VERIF)
            rules = sorted(set(re.findall(r'violated: \[(\w+)\] (.*)', out)))
            if rc == 1:
                hits[pid] = [{'rule': r, 'key': k} for r, k in rules]
            elif rc == 2:
                hits.setdefault('_analysis_error', []).append(pid)
        res['checks'] = hits
        res['caught'] = bool([k for k in hits if not k.startswith('_')])
        res['confirmed'] = bool(res['demo_clean_rc'] == 0 and res['demo_patched_rc'] != 0 and res['imports'] and res['tests_same_37'])
    finally:
        sh('git -C /repo worktree remove --force %s' % wt)
        sh('git -C /repo worktree prune')
        shutil.rmtree(wt, ignore_errors=True)
    print(json.dumps(res, indent=1))
    return 0


if __name__ == '__main__':
    sys.exit(main())
