#!/venv/bin/python
"""Behaviour-preserving whole-tree transforms, used to test the checkers for false alarms.

usage: transform.py <mode> <srcdir> <dstdir>
  unparse        every module re-emitted by ast.unparse (layout, comments, line numbers change)
  rename-locals  every purely local variable (not a parameter, not global/nonlocal, not captured by a
                 nested scope) gets the suffix _rn
"""
import ast, os, sys, symtable, warnings

MODS = ['t2data', 't2listing', 't2thermo', 'IAPWS97', 't2incons', 'mulgrids', 't2grids', 'geometry', 'fixed_format_file']


def parse(src):
    with warnings.catch_warnings():
        warnings.simplefilter('ignore')
        return ast.parse(src)


def table_for(top, node):
    """symtable of a function, located by name and line"""
    stack = [top]
    while stack:
        t = stack.pop()
        for c in t.get_children():
            if c.get_type() == 'function' and c.get_name() == node.name and c.get_lineno() == node.lineno:
                return c
            stack.append(c)
    return None


def renameable(tab):
    out = set()
    for s in tab.get_symbols():
        n = s.get_name()
        if not s.is_local() or s.is_parameter() or s.is_global() or s.is_nonlocal() or s.is_imported(): continue
        if s.is_namespace(): continue           # nested def / class
        if n.startswith('__'): continue
        captured = False
        stack = list(tab.get_children())
        while stack:
            c = stack.pop()
            try:
                cs = c.lookup(n)
                if cs.is_free() or cs.is_local() or cs.is_global(): captured = True
            except KeyError: pass
            stack.extend(c.get_children())
        if not captured: out.add(n)
    return out


class Renamer(ast.NodeTransformer):
    def __init__(self, names): self.names = names
    def visit_Name(self, n):
        if n.id in self.names: n.id = n.id + '_rn'
        return n
    def visit_FunctionDef(self, n): return n     # nested scopes untouched (their names were excluded)
    def visit_Lambda(self, n): return n
    def visit_ClassDef(self, n): return n
    # Python 3.12 symtable: list/set/dict comprehensions are inlined into the function's table, so their
    # names are renamed like any other local; generator expressions keep a child table (captured names excluded)
    def visit_GeneratorExp(self, n):
        n.generators[0].iter = self.visit(n.generators[0].iter)
        return n
    def visit_ExceptHandler(self, n):
        if n.name in self.names: n.name = n.name + '_rn'
        self.generic_visit(n); return n


def rename_locals(src, fname):
    tree = parse(src)
    with warnings.catch_warnings():
        warnings.simplefilter('ignore')
        top = symtable.symtable(src, fname, 'exec')
    count = 0
    for node in ast.walk(tree):
        if isinstance(node, ast.FunctionDef):
            tab = table_for(top, node)
            if tab is None: continue
            uses_locals = any(isinstance(x, ast.Call) and isinstance(x.func, ast.Name) and x.func.id in ('locals', 'vars', 'eval', 'exec')
                              for x in ast.walk(node))
            if uses_locals: continue
            names = renameable(tab)
            if not names: continue
            r = Renamer(names)
            node.body = [r.visit(st) for st in node.body]
            count += len(names)
    return ast.unparse(tree) + '\n', count


def main():
    mode, src, dst = sys.argv[1:4]
    os.makedirs(dst, exist_ok=True)
    for m in MODS:
        s = open(os.path.join(src, m + '.py'), encoding='utf-8', errors='replace').read()
        if mode == 'unparse': out = ast.unparse(parse(s)) + '\n'
        elif mode == 'rename-locals':
            out, n = rename_locals(s, m + '.py')
            print('%s: %d locals renamed' % (m, n))
        else: raise SystemExit('unknown mode')
        open(os.path.join(dst, m + '.py'), 'w').write(out)


if __name__ == '__main__':
    main()
