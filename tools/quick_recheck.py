import os, sys, shutil, subprocess, tempfile, glob, json
from concurrent.futures import ThreadPoolExecutor
VERIF='/verif'
extra={'C13':['C17'],'C10':['C04','C11'],'C19':['C04','C10'],'C12':['C10'],'C11':['C10'],'C14':['C15'],'C15':['C14'],'C03':['C10'],'C04':['C10']}
kind=sys.argv[1]   # refactored | seeded
def one(d):
    sid=os.path.basename(d); p=sid[:3]
    t=tempfile.mkdtemp(prefix='qr_')
    try:
        for f in os.listdir('/repo'):
            if f.endswith('.py'): shutil.copy(os.path.join('/repo',f),t)
        r=subprocess.run(['patch','-s','-p1','-i',os.path.join(d,'patch.diff')],cwd=t,stdout=subprocess.PIPE,stderr=subprocess.STDOUT)
        if r.returncode: return sid,'PATCHFAIL',{}
        res={}
        for c in [p]+extra.get(p,[]):
            if c in ('C05','C18'): continue
            q=subprocess.run(['/venv/bin/python','-m','pytough_sa','check',c,'--root',t,'--no-write'],cwd=VERIF,stdout=subprocess.PIPE,stderr=subprocess.STDOUT,text=True)
            res[c]=q.returncode
        return sid,'ok',res
    finally: shutil.rmtree(t,ignore_errors=True)
dirs=sorted(x for x in glob.glob(os.path.join(VERIF,kind,'C*_*')) if os.path.exists(os.path.join(x,'patch.diff')))
with ThreadPoolExecutor(16) as ex:
    for sid,st,res in ex.map(one,dirs):
        print(sid,st,' '.join('%s=%d'%kv for kv in sorted(res.items())),flush=True)
