#!/bin/bash
# regenerate derived files and verify the clean tree before committing /verif
set -e
cd /verif
/venv/bin/python tools/gen_vocab.py > /dev/null
rc=0
for p in 01 02 03 04 06 07 08 09 10 11 12 13 14 15 16 17 19 20; do
  /venv/bin/python -m pytough_sa check C$p > /tmp/precommit_C$p.out 2>&1 || { echo "C$p exit $?"; rc=1; }
done
/venv/bin/python tools/gen_manifest.py > /dev/null
/venv/bin/python -m pytough_sa selftest | tail -1
[ $rc = 0 ] && echo "clean tree: all 18 checks exit 0"
exit $rc
