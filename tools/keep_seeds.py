#!/venv/bin/python
"""Copies confirmed seeded changes into /verif/seeded/<id>/ and records, by applying each patch to /repo itself
(git -C /repo apply), running the registered quick commands, and undoing it (git -C /repo checkout -- .), which checks report it."""
import json, os, re, shutil, subprocess, sys
VERIF = '/verif'
man = json.load(open(os.path.join(VERIF, 'MANIFEST.json')))
CMDS = dict((c['property_id'], c['quick_cmd']) for c in man['checks'])

def sh(cmd, cwd=None):
    p = subprocess.run(cmd, shell=True, cwd=cwd, stdout=subprocess.PIPE, stderr=subprocess.STDOUT, text=True)
    return p.returncode, p.stdout

def run_checks(dst):
    assert sh('git -C /repo status --porcelain')[1].strip() == '', 'repo not clean'
    rc, out = sh('git -C /repo apply %s' % os.path.join(dst, 'patch.diff'))
    if rc != 0: return None
    hits = {}
    try:
        # the 18 registered quick commands, side by side, against /repo as patched
        from concurrent.futures import ThreadPoolExecutor
        with ThreadPoolExecutor(16) as ex:
            res = list(ex.map(lambda pc: (pc[0],) + sh(pc[1] + ' --no-write', cwd=VERIF), sorted(CMDS.items())))
        for p, rc, out in res:
            if rc == 1:
                hits[p] = sorted(set(re.findall(r'violated: \[(\w+)\]', out)))
            elif rc == 2:
                hits.setdefault('_analysis_error', []).append(p)
    finally:
        sh('git -C /repo checkout -- .')
    return hits


def _fast_one(sid):
    """scratch copy of the modules + patch, every check with --root (parallel; /repo itself is not touched)"""
    import tempfile
    dst = os.path.join(VERIF, 'seeded', sid)
    d = tempfile.mkdtemp(prefix='keep_seeds_')
    try:
        for f in os.listdir('/repo'):
            if f.endswith('.py'): shutil.copy(os.path.join('/repo', f), d)
        rc, out = sh('patch -s -p1 -i %s' % os.path.join(dst, 'patch.diff'), cwd=d)
        if rc != 0: return sid, None
        hits = {}
        for p in CMDS:
            rc, out = sh('/venv/bin/python -m pytough_sa check %s --root %s --no-write' % (p, d), cwd=VERIF)
            if rc == 1: hits[p] = sorted(set(re.findall(r'violated: \[(\w+)\]', out)))
            elif rc == 2: hits.setdefault('_analysis_error', []).append(p)
        return sid, hits
    finally:
        shutil.rmtree(d, ignore_errors=True)


def recheck_fast():
    """like --recheck, but on scratch copies and 16 at a time (for routine use; the recorded run of each change is the in-place one)"""
    import multiprocessing as mp
    base = os.path.join(VERIF, 'seeded')
    sids = [s_ for s_ in sorted(os.listdir(base)) if os.path.exists(os.path.join(base, s_, 'meta.json'))]
    with mp.Pool(16) as pool:
        res = pool.map(_fast_one, sids)
    for sid, hits in res:
        mp_ = os.path.join(base, sid, 'meta.json')
        meta = json.load(open(mp_))
        if hits is None:
            if not meta.get('note'): meta['note'] = 'patch no longer applies to the current tree'
            meta['caught'] = None
        else:
            meta['reported_by'] = dict((k, v) for k, v in hits.items() if not k.startswith('_'))
            meta['analysis_errors'] = hits.get('_analysis_error', [])
            meta['caught'] = bool(meta['reported_by'])
        json.dump(meta, open(mp_, 'w'), indent=1)
        if not meta['caught']: print(sid, 'n/a' if meta['caught'] is None else 'missed', meta.get('analysis_errors'))
    summary()
    print('%d changes: %d reported, %d missed, %d not applicable' % (len(res), sum(1 for s_, h in res if h and [k for k in h if not k.startswith('_')]),
          sum(1 for s_, h in res if h is not None and not [k for k in h if not k.startswith('_')]), sum(1 for s_, h in res if h is None)))


def recheck():
    """re-run the registered checks against every kept change (after the checks were strengthened)"""
    base = os.path.join(VERIF, 'seeded')
    for sid in sorted(os.listdir(base)):
        dst = os.path.join(base, sid)
        mp = os.path.join(dst, 'meta.json')
        if not os.path.exists(mp): continue
        meta = json.load(open(mp))
        hits = run_checks(dst)
        if hits is None:
            meta['note'] = 'patch no longer applies to the current tree'; meta['caught'] = None
        else:
            meta['reported_by'] = dict((k, v) for k, v in hits.items() if not k.startswith('_'))
            meta['analysis_errors'] = hits.get('_analysis_error', [])
            meta['caught'] = bool(meta['reported_by'])
        json.dump(meta, open(mp, 'w'), indent=1)
        print(sid, 'CAUGHT' if meta['caught'] else ('n/a' if meta['caught'] is None else 'missed'), meta.get('reported_by'))
    summary()


def summary():
    base = os.path.join(VERIF, 'seeded')
    rows = []
    for sid in sorted(os.listdir(base)):
        mp = os.path.join(base, sid, 'meta.json')
        if not os.path.exists(mp): continue
        m = json.load(open(mp))
        rows.append({'id': sid, 'round': m.get('round', 1), 'result': 'CAUGHT' if m['caught'] else 'missed', 'reported_by': m.get('reported_by'),
                     'first_pass': m.get('first_pass')})
    json.dump(rows, open(os.path.join(base, 'SUMMARY.json'), 'w'), indent=1)


def main():
    if sys.argv[1] == '--recheck': return recheck()
    if sys.argv[1] == '--recheck-fast': return recheck_fast()
    resdir, outdir = sys.argv[1], sys.argv[2]
    rnd = int(sys.argv[3]) if len(sys.argv) > 3 else 1
    letter = {1: {'A': 'A', 'B': 'B'}, 2: {'A': 'C', 'B': 'D'}, 3: {'A': 'E', 'B': 'F'}, 4: {'A': 'G', 'B': 'H'}, 5: {'A': 'I', 'B': 'J'}, 6: {'A': 'K', 'B': 'L'}, 7: {'A': 'M', 'B': 'N'}}[rnd]
    rows = []
    for f in sorted(os.listdir(resdir)):
        if not f.endswith('.json'): continue
        r = json.load(open(os.path.join(resdir, f)))
        pid, ab = f[:-5].split('_')
        sid = '%s_%s' % (pid, letter[ab])
        if not r.get('confirmed'):
            rows.append((sid, 'dropped (not confirmed on the current tree)', '')); continue
        dst = os.path.join(VERIF, 'seeded', sid)
        os.makedirs(dst, exist_ok=True)
        for name in ('patch.diff', 'demo.py', 'notes.md'):
            src = os.path.join(outdir, pid, ab, name)
            if os.path.exists(src): shutil.copy(src, os.path.join(dst, name))
        hits = run_checks(dst) or {}
        notes = open(os.path.join(dst, 'notes.md')).read() if os.path.exists(os.path.join(dst, 'notes.md')) else ''
        meta = {
            'id': sid, 'breaks_property': pid, 'round': rnd,
            'first_pass': {'caught': r.get('caught'), 'checks': dict((k, [h['rule'] for h in v]) for k, v in r.get('checks', {}).items() if not k.startswith('_')),
                           'analysis_errors': r.get('checks', {}).get('_analysis_error', [])},
            'source': 'written by an independent sub-agent given only the text of the property and a scratch git worktree',
            'needs_to_manifest': notes.strip(),
            'confirmed': {
                'demo_on_unmodified_tree_exit': r['demo_clean_rc'], 'demo_with_patch_exit': r['demo_patched_rc'],
                'pinned_tests_with_patch': r['tests_summary'], 'same_37_pass': r['tests_same_37'], 'imports': r['imports']},
            'what_was_run': [
                'tools/seed_eval.py <candidate>  (fresh git worktree of /repo under /tmp: demo without patch, git apply, import, demo with patch, '
                'pinned test command with PYTHONPATH=<worktree>, every registered check with --root <worktree>; worktree removed)',
                'tools/keep_seeds.py  (git -C /repo apply patch.diff; every MANIFEST quick_cmd with --no-write; git -C /repo checkout -- .)'],
            'reported_by': dict((k, v) for k, v in hits.items() if not k.startswith('_')),
            'analysis_errors': hits.get('_analysis_error', []),
            'caught': bool([k for k in hits if not k.startswith('_')]),
        }
        json.dump(meta, open(os.path.join(dst, 'meta.json'), 'w'), indent=1)
        rows.append((sid, 'CAUGHT' if meta['caught'] else 'missed', meta['reported_by']))
    for r in rows: print(*r)
    summary()

if __name__ == '__main__':
    main()
