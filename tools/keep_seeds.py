#!/venv/bin/python
"""Copies confirmed seeded changes into /verif/seeded/<id>/ and records, by applying each patch to /repo itself
(git -C /repo apply), running the registered quick commands, and undoing it (git -C /repo checkout -- .), which checks report it."""
import json, os, re, shutil, subprocess, sys
VERIF = '/verif'
man = json.load(open(os.path.join(VERIF, 'MANIFEST.json')))
CMDS = dict((c['property_id'], c['quick_cmd']) for c in man['checks'])

def sh(cmd, cwd=None):
    p = subprocess.run(cmd, shell=True, cwd=cwd, stdout=subprocess.PIPE, stderr=subprocess.STDOUT, text=True)
    return p.returncode, p.stdout

def main():
    resdir, outdir = sys.argv[1], sys.argv[2]
    rows = []
    for f in sorted(os.listdir(resdir)):
        if not f.endswith('.json'): continue
        r = json.load(open(os.path.join(resdir, f)))
        sid = f[:-5]
        if not r.get('confirmed'):
            rows.append((sid, 'dropped (not confirmed on the current tree)', '')); continue
        pid = sid.split('_')[0]
        dst = os.path.join(VERIF, 'seeded', sid)
        os.makedirs(dst, exist_ok=True)
        for name in ('patch.diff', 'demo.py', 'notes.md'):
            src = os.path.join(outdir, pid, sid.split('_')[1], name)
            if os.path.exists(src): shutil.copy(src, os.path.join(dst, name))
        # run against /repo itself
        assert sh('git -C /repo status --porcelain')[1].strip() == '', 'repo not clean'
        rc, out = sh('git -C /repo apply %s' % os.path.join(dst, 'patch.diff'))
        hits = {}
        try:
            for p, cmd in CMDS.items():
                rc, out = sh(cmd + ' --no-write', cwd=VERIF)
                if rc == 1:
                    hits[p] = sorted(set(re.findall(r'violated: \[(\w+)\]', out)))
                elif rc == 2:
                    hits.setdefault('_analysis_error', []).append(p)
        finally:
            sh('git -C /repo checkout -- .')
        notes = open(os.path.join(dst, 'notes.md')).read() if os.path.exists(os.path.join(dst, 'notes.md')) else ''
        meta = {
            'id': sid, 'breaks_property': pid,
            'source': 'written by an independent sub-agent given only the text of the property and a scratch git worktree',
            'needs_to_manifest': notes.strip(),
            'confirmed': {
                'demo_on_unmodified_tree_exit': r['demo_clean_rc'], 'demo_with_patch_exit': r['demo_patched_rc'],
                'pinned_tests_with_patch': r['tests_summary'], 'same_37_pass': r['tests_same_37'], 'imports': r['imports']},
            'what_was_run': [
                'tools/seed_eval.py <candidate>  (fresh git worktree of /repo under /tmp: demo without patch, git apply, import, demo with patch, '
                'pinned test command with PYTHONPATH=<worktree>, every registered check with --root <worktree>; worktree removed)',
                'tools/keep_seeds.py  (git -C /repo apply patch.diff; every MANIFEST quick_cmd with --no-write; git -C /repo checkout -- .)'],
            'reported_by': dict((k, v) for k, v in hits.items() if not k.startswith('_')),
            'analysis_errors': hits.get('_analysis_error', []),
            'caught': bool([k for k in hits if not k.startswith('_')]),
        }
        json.dump(meta, open(os.path.join(dst, 'meta.json'), 'w'), indent=1)
        rows.append((sid, 'CAUGHT' if meta['caught'] else 'missed', meta['reported_by']))
    for r in rows: print(*r)
    json.dump([{'id': a, 'result': b, 'reported_by': c} for a, b, c in rows], open(os.path.join(VERIF, 'seeded', 'SUMMARY.json'), 'w'), indent=1)

if __name__ == '__main__':
    main()
