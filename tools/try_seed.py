#!/venv/bin/python
"""try_seed.py <dir with patch.diff> [Cxx ...]  - run checks against a scratch copy of /repo with the patch applied"""
import os, shutil, subprocess, sys, tempfile, json
VERIF = os.path.dirname(os.path.dirname(os.path.abspath(__file__)))
d = tempfile.mkdtemp(prefix='try_seed_')
try:
    for f in os.listdir('/repo'):
        if f.endswith('.py'): shutil.copy(os.path.join('/repo', f), d)
    r = subprocess.run(['patch', '-s', '-p1', '-i', os.path.join(os.path.abspath(sys.argv[1]), 'patch.diff')], cwd=d)
    if r.returncode: print('PATCH FAILED'); sys.exit(3)
    pids = sys.argv[2:] or [c['property_id'] for c in json.load(open(os.path.join(VERIF, 'MANIFEST.json')))['checks']]
    for pid in pids:
        p = subprocess.run(['/venv/bin/python', '-m', 'pytough_sa', 'check', pid, '--root', d, '--no-write'], cwd=VERIF,
                           stdout=subprocess.PIPE, stderr=subprocess.STDOUT, text=True)
        lines = [l[:330] for l in p.stdout.splitlines() if 'violated: [' in l or l.startswith('ANALYSIS-ERROR') or l.startswith('      ')]
        print('%s exit %d' % (pid, p.returncode))
        for l in lines[:12]: print('   ', l)
finally:
    shutil.rmtree(d, ignore_errors=True)
