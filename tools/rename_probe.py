#!/venv/bin/python
"""False-alarm probe: for every function a property's rules consult and every purely local variable of it, build a scratch
copy of the repo in which just that variable is renamed (behaviour-preserving), run the property's check on it, and
report every run that prints a VIOLATION (must be none) and how many end undecided (exit 2).

usage: rename_probe.py [Cxx ...] [--jobs N]"""
import ast, contextlib, io, json, os, shutil, sys, symtable, tempfile, warnings
VERIF = os.path.dirname(os.path.dirname(os.path.abspath(__file__)))
sys.path.insert(0, VERIF)
sys.path.insert(0, os.path.join(VERIF, 'tools'))
import transform
from pytough_sa.core import Program, MODULES, AnalysisError
from pytough_sa import vocab

REPO = '/repo'


def variants_for(pid, table):
    """[(pid, module, funcname, lineno, var)]"""
    prog = Program()
    quals = set()
    for rule, fs in table.get(pid, {}).items(): quals.update(fs)
    out = []
    for q in sorted(quals):
        try: fi = prog.func(q)
        except AnalysisError: continue
        src = open(os.path.join(REPO, fi.module.name + '.py'), encoding='utf-8', errors='replace').read()
        with warnings.catch_warnings():
            warnings.simplefilter('ignore')
            top = symtable.symtable(src, fi.module.name + '.py', 'exec')
        tab = transform.table_for(top, fi.node)
        if tab is None: continue
        for v in sorted(transform.renameable(tab)):
            out.append((pid, fi.module.name, fi.node.name, fi.node.lineno, v))
    return out


def run_one(job):
    pid, mod, fname, lineno, var = job
    src = open(os.path.join(REPO, mod + '.py'), encoding='utf-8', errors='replace').read()
    tree = transform.parse(src)
    for node in ast.walk(tree):
        if isinstance(node, ast.FunctionDef) and node.name == fname and node.lineno == lineno:
            r = transform.Renamer(set([var]))
            node.body = [r.visit(st) for st in node.body]
    d = tempfile.mkdtemp(prefix='rename_probe_')
    try:
        for m in MODULES:
            shutil.copy(os.path.join(REPO, m + '.py'), d)
        # the whole module is re-emitted by ast.unparse; the checks are insensitive to layout (tested separately)
        open(os.path.join(d, mod + '.py'), 'w').write(ast.unparse(tree) + '\n')
        from pytough_sa.__main__ import run_check
        buf = io.StringIO()
        with contextlib.redirect_stdout(buf):
            code = run_check(pid, 'quick', root=d, write=False)
        out = buf.getvalue()
        viol = sorted(set(l.strip()[:160] for l in out.splitlines() if 'violated: [' in l))
        unk = sorted(set(l.split(']')[0].split('[')[-1] for l in out.splitlines() if l.startswith('ANALYSIS-ERROR')))
        return (job, code, viol, unk)
    finally:
        shutil.rmtree(d, ignore_errors=True)


def main():
    args = sys.argv[1:]
    jobs = 16
    if '--jobs' in args:
        jobs = int(args[args.index('--jobs') + 1]); del args[args.index('--jobs'):args.index('--jobs') + 2]
    table = vocab.load()
    pids = args or sorted(k for k in table if not k.startswith('_'))
    todo = []
    for pid in pids: todo += variants_for(pid, table)
    print('%d single-variable renames over %d properties' % (len(todo), len(pids)))
    import multiprocessing as mp
    with mp.Pool(jobs) as pool:
        res = pool.map(run_one, todo, chunksize=4)
    bad = [r for r in res if r[1] == 1]
    und = [r for r in res if r[1] == 2]
    for job, code, viol, unk in bad: print('FALSE-ALARM', job, viol[:2])
    per = {}
    for job, code, viol, unk in und:
        for u in unk: per[(job[0], u)] = per.get((job[0], u), 0) + 1
    print('runs %d, silent %d, undecided (exit 2) %d, false alarms (exit 1) %d' % (len(res), len(res) - len(bad) - len(und), len(und), len(bad)))
    for k, n in sorted(per.items()): print('  undecided', k[0], k[1], n)
    json.dump({'runs': len(res), 'undecided': len(und), 'false_alarms': [[list(r[0]), r[2]] for r in bad],
               'undecided_detail': [[r[0][0], r[0][2], r[0][4], r[3]] for r in und],
               'undecided_by_rule': dict(('%s/%s' % k, n) for k, n in per.items())}, open(os.path.join(VERIF, 'evidence', 'rename_probe.json'), 'w'), indent=1)
    return 1 if bad else 0


if __name__ == '__main__':
    sys.exit(main())
