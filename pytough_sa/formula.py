"""Canonical forms of arithmetic expressions, for comparing a formula in the
code with the formula a rule expects without matching text.

compare() is three-valued: 'equal', 'different' (both sides are arithmetic over
the *same* set of free names and their canonical forms differ), 'incomparable'
(different vocabulary or non-arithmetic shape -> the caller reports *unknown*,
never a violation)."""
import ast
from fractions import Fraction
from .core import norm, dotted, walk_no_nested, AnalysisError


def _num(v):
    if isinstance(v, bool): return None
    if isinstance(v, int): return Fraction(v)
    if isinstance(v, float):
        return Fraction(str(v))
    return None


def canon(n):
    """polynomial-like canonical form: ('sum', ((coef, (factor, ...)), ...))"""
    terms = _terms(n, Fraction(1))
    acc = {}
    for coef, facs in terms:
        facs = tuple(sorted(facs, key=repr))
        acc[facs] = acc.get(facs, Fraction(0)) + coef
    out = tuple(sorted(((str(c), f) for f, c in acc.items() if c != 0), key=repr))
    return ('sum', out)


def _terms(n, sign):
    """list of (coef, [atomic factors])"""
    if isinstance(n, ast.BinOp):
        if isinstance(n.op, ast.Add):
            return _terms(n.left, sign) + _terms(n.right, sign)
        if isinstance(n.op, ast.Sub):
            return _terms(n.left, sign) + _terms(n.right, -sign)
        if isinstance(n.op, ast.Mult):
            out = []
            for c1, f1 in _terms(n.left, sign):
                for c2, f2 in _terms(n.right, Fraction(1)):
                    out.append((c1 * c2, f1 + f2))
            return out
        if isinstance(n.op, ast.Div):
            den = _terms(n.right, Fraction(1))
            if len(den) == 1 and not den[0][1] and den[0][0] != 0:
                return [(c / den[0][0], f) for c, f in _terms(n.left, sign)]
            d = ('inv', canon(n.right))
            return [(c, f + [d]) for c, f in _terms(n.left, sign)]
        return [(sign, [('op', type(n.op).__name__, canon(n.left), canon(n.right))])]
    if isinstance(n, ast.UnaryOp) and isinstance(n.op, ast.USub):
        return _terms(n.operand, -sign)
    if isinstance(n, ast.UnaryOp) and isinstance(n.op, ast.UAdd):
        return _terms(n.operand, sign)
    if isinstance(n, ast.Constant):
        v = _num(n.value)
        if v is not None: return [(sign * v, [])]
        return [(sign, [('const', repr(n.value))])]
    return [(sign, [atom(n)])]


def atom(n):
    if isinstance(n, ast.Name): return ('name', n.id)
    if isinstance(n, ast.Attribute): return ('attr', atom_or_canon(n.value), n.attr)
    if isinstance(n, ast.Subscript):
        if isinstance(n.slice, ast.Slice):
            s = ('slice',) + tuple(canon(x) if x is not None else None
                                   for x in (n.slice.lower, n.slice.upper, n.slice.step))
        else:
            s = canon(n.slice)
        return ('sub', atom_or_canon(n.value), s)
    if isinstance(n, ast.Call):
        args = tuple(canon(a) for a in n.args) + tuple((k.arg, canon(k.value)) for k in n.keywords)
        fname = dotted(n.func) or norm(n.func)
        if fname in ('min', 'max') :
            args = tuple(sorted(args, key=repr))
        return ('call', fname, args)
    if isinstance(n, (ast.List, ast.Tuple)):
        return ('seq', type(n).__name__, tuple(canon(e) for e in n.elts))
    if isinstance(n, ast.Compare):
        return ('cmp', tuple(type(o).__name__ for o in n.ops), canon(n.left), tuple(canon(c) for c in n.comparators))
    if isinstance(n, ast.IfExp):
        return ('ifexp', canon(n.test), canon(n.body), canon(n.orelse))
    if isinstance(n, ast.BoolOp):
        return ('bool', type(n.op).__name__, tuple(canon(v) for v in n.values))
    if isinstance(n, ast.ListComp):
        return ('comp', norm(n))
    return ('other', norm(n))


def atom_or_canon(n):
    if isinstance(n, (ast.Name, ast.Attribute, ast.Subscript, ast.Call)): return atom(n)
    return canon(n)


def vocabulary(n):
    """names and attribute names an expression is built from (names of called functions / methods excluded:
    swapping np.sum for np.max is a different formula over the same vocabulary)"""
    out = set()
    funcs = set(id(x.func) for x in ast.walk(n) if isinstance(x, ast.Call))
    for x in ast.walk(n):
        if id(x) in funcs:
            if isinstance(x, ast.Attribute): continue
            if isinstance(x, ast.Name): continue
        if isinstance(x, ast.Name): out.add(x.id)
        elif isinstance(x, ast.Attribute): out.add('.' + x.attr)
    return out


def compare(actual, expected_src, alternatives=()):
    # both sides in the canonical form of the analysed program (comparison direction, ...)
    from .normalise import normalise
    import copy
    exp_nodes = [normalise(ast.parse(s, mode='eval')).body for s in (expected_src,) + tuple(alternatives)]
    if isinstance(actual, ast.AST):
        actual = normalise(ast.Expression(body=copy.deepcopy(actual))).body
    ca = canon(actual)
    for e in exp_nodes:
        if canon(e) == ca: return 'equal'
    va = vocabulary(actual)
    for e in exp_nodes:
        ve = vocabulary(e)
        # same vocabulary, or the code simply drops some of the expected operands
        if ve == va or (va < ve and va): return 'different'
    return 'incomparable'


def assignments_to(fnode, target):
    """Assign statements (in document order) whose single target unparses to `target`"""
    out = []
    for n in walk_no_nested(fnode):
        if isinstance(n, ast.Assign) and len(n.targets) == 1 and norm(n.targets[0]) == target:
            out.append(n)
        elif isinstance(n, ast.AugAssign) and norm(n.target) == target:
            out.append(n)
    return out


def check_formula(run, key, fi, target, expected, why, alternatives=(), which=None, node=None):
    """compare the value assigned to `target` in function fi (or of an explicit
    node) with the expected formula; three-valued."""
    if node is None:
        asg = assignments_to(fi.node, target)
        if which is not None:
            asg = [asg[which]] if -len(asg) <= which < len(asg) else []
        if not asg:
            run.unknown(key, 'no assignment to %s found' % target, where=fi.where()); return False
        vals = [(a, a.value) for a in asg]
    else:
        vals = [(node, node)]
    ok = True
    for st, v in vals:
        r = compare(v, expected, alternatives)
        if r == 'equal':
            run.ok(key, {'formula': norm(v)}, where=fi.where(st))
        elif r == 'different':
            run.violated(key, '%s: the code has `%s`, expected `%s`' % (why, norm(v), expected), where=fi.where(st))
            ok = False
        else:
            run.unknown(key, 'expression `%s` is not comparable with `%s` (different vocabulary)' % (norm(v), expected),
                        where=fi.where(st))
            ok = False
    return ok


def check_return(run, key, fi, expected, why, alternatives=()):
    rets = [n for n in walk_no_nested(fi.node) if isinstance(n, ast.Return) and n.value is not None]
    if len(rets) != 1:
        run.unknown(key, '%d value returns (1 expected)' % len(rets), where=fi.where()); return False
    return check_formula(run, key, fi, None, expected, why, alternatives, node=rets[0].value)
