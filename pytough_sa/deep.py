"""Thorough tier: the checker of one property is exercised on scratch copies of the current /repo tree.

  SELFTEST  single-instance mutants / twins written with the rules (selftest.py)
  SEEDED    every kept seeded change (written by independent sub-agents, /verif/seeded/<id>/patch.diff) that this
            property's check is recorded to report is re-applied to a scratch copy and must be reported again
  REFACTORED every kept behaviour-preserving refactoring of this property's code (written by independent sub-agents,
            /verif/refactored/<id>/patch.diff) is re-applied to a scratch copy and must not be reported
  PROBE     behaviour-preserving variants of the functions the rules consult (one local renamed; if/else swapped,
            comparisons flipped, temporaries introduced, ...) must not produce a VIOLATION

Nothing here runs repository code: the variants are produced by text / AST edits and analysed like the real tree."""
import contextlib, io, json, os, shutil, subprocess, sys, tempfile
from .core import MODULES, REPO, VERIF


def _scratch():
    d = tempfile.mkdtemp(prefix='pytough_sa_deep_')
    for m in MODULES: shutil.copy(os.path.join(REPO, m + '.py'), d)
    return d


def _seed_one(job):
    pid, sid, rules = job
    d = _scratch()
    try:
        p = subprocess.run(['patch', '-s', '-p1', '-i', os.path.join(VERIF, 'seeded', sid, 'patch.diff')], cwd=d,
                           stdout=subprocess.PIPE, stderr=subprocess.STDOUT, text=True)
        if p.returncode != 0: return (sid, 'skipped', 'patch does not apply to the current tree')
        from .__main__ import run_check
        buf = io.StringIO()
        with contextlib.redirect_stdout(buf):
            code = run_check(pid, 'quick', root=d, write=False)
        hit = sorted(set(l.split('[')[1].split(']')[0] for l in buf.getvalue().splitlines() if 'violated: [' in l))
        if code == 1: return (sid, 'ok', 'reported by %s' % hit)
        return (sid, 'MISSED', 'exit %d (was reported by %s)' % (code, rules))
    finally:
        shutil.rmtree(d, ignore_errors=True)


def seeded_replay(pid):
    base = os.path.join(VERIF, 'seeded')
    jobs = []
    if os.path.isdir(base):
        for sid in sorted(os.listdir(base)):
            mp = os.path.join(base, sid, 'meta.json')
            if not os.path.exists(mp): continue
            m = json.load(open(mp))
            if pid in (m.get('reported_by') or {}): jobs.append((pid, sid, m['reported_by'][pid]))
    if not jobs: return []
    import multiprocessing as mp_
    with mp_.Pool(min(16, len(jobs))) as pool:
        return pool.map(_seed_one, jobs)


def _ref_one(job):
    pid, rid = job
    d = _scratch()
    try:
        p = subprocess.run(['patch', '-s', '-p1', '-i', os.path.join(VERIF, 'refactored', rid, 'patch.diff')], cwd=d,
                           stdout=subprocess.PIPE, stderr=subprocess.STDOUT, text=True)
        if p.returncode != 0: return (rid, 'skipped', 'patch does not apply to the current tree')
        from .__main__ import run_check
        buf = io.StringIO()
        with contextlib.redirect_stdout(buf):
            code = run_check(pid, 'quick', root=d, write=False)
        if code == 1:
            hit = sorted(set(l.strip()[:120] for l in buf.getvalue().splitlines() if 'violated: [' in l))
            return (rid, 'FALSE-ALARM', '; '.join(hit[:2]))
        return (rid, 'ok', 'silent' if code == 0 else 'undecided (exit 2)')
    finally:
        shutil.rmtree(d, ignore_errors=True)


def refactoring_replay(pid):
    """the kept behaviour-preserving refactorings of this property's code (refactored/<pid>_R*) must not be reported"""
    base = os.path.join(VERIF, 'refactored')
    jobs = [(pid, rid) for rid in sorted(os.listdir(base))] if os.path.isdir(base) else []
    jobs = [j for j in jobs if j[1].startswith(pid + '_') and os.path.exists(os.path.join(base, j[1], 'patch.diff'))]
    if not jobs: return []
    import multiprocessing as mp_
    with mp_.Pool(min(16, len(jobs))) as pool:
        return pool.map(_ref_one, jobs)


def probes(pid):
    """(variants, alarms [(job, violated lines)], undecided count) over rename + refactor variants"""
    sys.path.insert(0, os.path.join(VERIF, 'tools'))
    import rename_probe, refactor_probe
    from . import vocab
    from .core import Program, AnalysisError
    table = vocab.load()
    if not table: return None
    rjobs = rename_probe.variants_for(pid, table)
    prog = Program()
    quals = set()
    for rule, fs in table.get(pid, {}).items(): quals.update(fs)
    fjobs = []
    for q in sorted(quals):
        try: fi = prog.func(q)
        except AnalysisError: continue
        for k in refactor_probe.KINDS: fjobs.append((pid, fi.module.name, fi.node.name, fi.node.lineno, k))
    import multiprocessing as mp_
    with mp_.Pool(16) as pool:
        r1 = pool.map(rename_probe.run_one, rjobs, chunksize=4)
        r2 = [r for r in pool.map(refactor_probe.run_one, fjobs, chunksize=4) if r[1] is not None]
    res = r1 + r2
    alarms = [(r[0], r[2]) for r in res if r[1] == 1]
    return {'renames': len(r1), 'rewrites': len(r2), 'alarms': alarms, 'undecided': len([r for r in res if r[1] == 2])}
