"""CLI:  python -m pytough_sa check <Cxx> [--tier quick|thorough]
         python -m pytough_sa explain <violation.json>
         python -m pytough_sa all [--tier ...]
         python -m pytough_sa selftest [--jobs N] [--only RULE]
"""
import importlib
import json
import os
import sys

from .core import Program, AnalysisError, MODULES
from .report import Run

CLAIMED = ['C01', 'C02', 'C03', 'C04', 'C06', 'C07', 'C08', 'C09', 'C10', 'C11',
           'C12', 'C13', 'C14', 'C15', 'C16', 'C17', 'C19', 'C20']


GENERIC = ('ARGSWAP', 'MUTDEFAULT', 'LOOPCARRY', 'NAMEIN', 'SETTERORDER')


def run_check(pid, tier, root=None, write=True):
    try:
        prog = Program(root)
    except AnalysisError as e:
        print('ANALYSIS-ERROR property=%s cannot build program model: %s' % (pid, e))
        return 2
    run = Run(pid, tier, prog)
    try:
        mod = importlib.import_module('pytough_sa.rules.%s' % pid.lower())
    except ImportError as e:
        print('ANALYSIS-ERROR property=%s no rule module: %s' % (pid, e))
        return 2
    try:
        mod.check(run)
    except AnalysisError as e:
        run.unknown('check-aborted', str(e), rule='CORE')
    except Exception as e:
        import traceback
        run.unknown('check-aborted', 'internal error: ' + traceback.format_exc()[-600:], rule='CORE')
    # generic call-site rule over the functions this property's rules consulted
    def _argswap(run):
        from .rules.argswap import argswap_rule
        run.rule('ARGSWAP', 'at every call of a repository function made from a function this property is anchored in, no two '
                 'positional arguments are crossed with respect to the callee\'s parameter names')
        quals = sorted(set(q for r, qs in prog.consulted.items() if r not in GENERIC for q in qs))
        funcs = []
        for q in quals:
            try: funcs.append(prog.func(q))
            except AnalysisError: pass
        n = argswap_rule(run, funcs)
        run.ok('call sites with a resolved callee in %d anchored functions' % len(funcs), {'call_sites': n})
    run.guarded('ARGSWAP', _argswap)
    def _mutdefault(run):
        from .rules.mutdefault import mutdefault_rule
        run.rule('MUTDEFAULT', 'in every function this property is anchored in, a parameter whose default is a mutable literal is never mutated '
                 'in place: the default is one object shared by all calls, so a mutation carries state from one call to the next')
        quals = sorted(set(q for r, qs in prog.consulted.items() if r not in GENERIC for q in qs))
        funcs = []
        for q in quals:
            try: funcs.append(prog.func(q))
            except AnalysisError: pass
        n = mutdefault_rule(run, funcs)
        run.ok('mutable defaults in %d anchored functions' % len(funcs), {'parameters': n})
    run.guarded('MUTDEFAULT', _mutdefault)
    def _loopcarry(run):
        from .rules.loopcarry import loopcarry_rule
        run.rule('LOOPCARRY', 'in every function this property is anchored in, a local that a loop body assigns only under a condition is not handed '
                 'on later in the same iteration with the value of an earlier iteration (every path of the iteration assigns it before it is used)')
        quals = sorted(set(q for r, qs in prog.consulted.items() if r not in GENERIC for q in qs))
        funcs = []
        for q in quals:
            try: funcs.append(prog.func(q))
            except AnalysisError: pass
        # ... and in every other function of the modules those functions live in (the shared record readers / writers)
        mods_ = sorted(set(f.module.name for f in funcs))
        seen_ = set(f.qual for f in funcs)
        funcs += [f for f in prog.all_functions(mods_) if f.qual not in seen_]
        n = loopcarry_rule(run, funcs)
        run.ok('loops of %d functions in %s' % (len(funcs), mods_), {'conditional carries': n})
    run.guarded('LOOPCARRY', _loopcarry)
    def _namein(run):
        from .rules.namein import namein_rule
        run.rule('NAMEIN', 'in the modules this property is anchored in, no membership test asks whether a name (text) is in a list that holds the '
                 'objects themselves (the by-name dictionary next to it is the place to look a name up)')
        quals = sorted(set(q for r, qs in prog.consulted.items() if r not in GENERIC for q in qs))
        mods_ = sorted(set(prog.func(q).module.name for q in quals))
        funcs = list(prog.all_functions(mods_))
        n = namein_rule(run, funcs)
        run.ok('membership tests against object lists in %s' % mods_, {'tests': n})
    run.guarded('NAMEIN', _namein)
    def _setterorder(run):
        from .rules.setterorder import setterorder_rule
        run.rule('SETTERORDER', 'in the classes this property is anchored in, a property setter stores its backing field before it calls the '
                 'methods that read that field to re-derive dependent state')
        quals = sorted(set(q for r, qs in prog.consulted.items() if r not in GENERIC for q in qs))
        classes = {}
        for q in quals:
            f = prog.func(q)
            if f.cls is not None: classes[(f.module.name, f.cls.name)] = f.cls
        n = setterorder_rule(run, [c for k, c in sorted(classes.items())])
        run.ok('setters with dependent-state calls in %d classes' % len(classes), {'setters': n})
    run.guarded('SETTERORDER', _setterorder)
    if tier == 'thorough' and root is None:
        # deeper tier: the checker itself is validated by single-instance mutants and behaviour-preserving twins
        from . import selftest
        st, summary = selftest.run_for_property(pid, quiet=True)
        run.selftest = summary
        run.rule_doc['SELFTEST'] = ('mutation self-test of this property\'s rules on scratch copies: every seeded single-'
                                    'instance break is reported by the named rule, every behaviour-preserving twin is silent')
        for d in summary['detail']:
            k = 'selftest :: %s (%s, %s)' % (d['id'], d['rule'] or 'twin', d['kind'])
            if d['result'] == 'ok': run.ok(k, rule='SELFTEST')
            elif d['result'] == 'skipped': run.ok(k, 'skipped: source fragment no longer present', rule='SELFTEST')
            else: run.unknown(k, 'self-test result %s' % d['result'], rule='SELFTEST')
        from . import deep
        run.rule_doc['SEEDED'] = ('every kept seeded change (written by independent sub-agents from the property text alone) that this check is '
                                  'recorded to report is re-applied to a scratch copy of the current tree and is reported again')
        for sid, result, detail in deep.seeded_replay(pid):
            k = 'seeded :: %s' % sid
            if result == 'ok': run.ok(k, detail, rule='SEEDED')
            elif result == 'skipped': run.ok(k, 'skipped: ' + detail, rule='SEEDED')
            else: run.unknown(k, detail, rule='SEEDED')
        run.rule_doc['REFACTORED'] = ('every kept behaviour-preserving refactoring of the code implementing this property (written by independent '
                                      'sub-agents, equivalence confirmed by their harness) is re-applied to a scratch copy and is not reported')
        for rid, result, detail in deep.refactoring_replay(pid):
            k = 'refactored :: %s' % rid
            if result == 'FALSE-ALARM': run.unknown(k, 'a behaviour-preserving refactoring is reported as a violation: ' + detail, rule='REFACTORED')
            else: run.ok(k, detail, rule='REFACTORED')
        run.rule_doc['PROBE'] = ('behaviour-preserving variants of the functions this check consults (one local variable renamed; if/else '
                                 'swapped, comparison flipped, temporary introduced, pass inserted, ...) never produce a VIOLATION')
        pr = deep.probes(pid)
        if pr is None: run.unknown('probe :: variants', 'vocab.json is stale (run tools/gen_vocab.py)', rule='PROBE')
        else:
            run.probe = dict((k, v) for k, v in pr.items() if k != 'alarms')
            if pr['alarms']:
                for job, viol in pr['alarms'][:5]:
                    run.unknown('probe :: %s %s %s' % (job[2], job[4], viol[:1]), 'a behaviour-preserving variant is reported as a violation (false alarm)', rule='PROBE')
            else:
                run.ok('probe :: %d renames + %d rewrites, no VIOLATION (%d undecided)' % (pr['renames'], pr['rewrites'], pr['undecided']), rule='PROBE')
    code = run.finalize(getattr(mod, 'LEVEL', 'other'), getattr(mod, 'EXPLANATION', ''), write=write)
    bad = [m for m in MODULES if m in sys.modules]
    if bad:
        print('ANALYSIS-ERROR property=%s repo modules were imported: %s' % (pid, bad))
        return 2
    return code


def main(argv):
    if len(argv) < 1:
        print(__doc__); return 2
    cmd = argv[0]
    tier = os.environ.get('VERIF_TIER', 'quick')
    args = argv[1:]
    if '--tier' in args:
        i = args.index('--tier'); tier = args[i + 1]; del args[i:i + 2]
    root = None
    if '--root' in args:
        i = args.index('--root'); root = args[i + 1]; del args[i:i + 2]
    nowrite = '--no-write' in args
    if nowrite: args.remove('--no-write')
    if tier not in ('quick', 'thorough'): tier = 'quick'
    if cmd == 'check':
        pid = args[0].upper()
        return run_check(pid, tier, root, write=not nowrite)
    if cmd == 'all':
        worst = 0
        for pid in CLAIMED:
            c = run_check(pid, tier, root, write=not nowrite)
            worst = max(worst, c) if 1 not in (worst, c) else 1
        return worst
    if cmd == 'explain':
        with open(args[0]) as f:
            v = json.load(f)
        print('property %s, rule %s: %s' % (v['property'], v['rule'], v.get('rule_statement')))
        print('construct: %s' % v['where'])
        print('instance : %s' % v['key'])
        print('finding  : %s' % v['detail'])
        print('re-running the check on the current tree:')
        return run_check(v['property'], 'quick', root, write=False)
    if cmd == 'selftest':
        from . import selftest
        return selftest.main(args)
    print(__doc__)
    return 2


if __name__ == '__main__':
    try:
        rc = main(sys.argv[1:])
    except SystemExit:
        raise
    except BaseException as e:
        import traceback
        traceback.print_exc()
        print('ANALYSIS-ERROR internal: %s' % e)
        rc = 2
    sys.stdout.flush()
    sys.exit(rc)
