"""Interval facts from comparison guards with literal / foldable bounds."""
import ast
from .core import Folder, TOP, AnalysisError, norm

INF = float('inf')


class Interval(object):
    """[lo, hi] with closedness flags; bounds are floats (or +-inf); *_src keeps the source text."""
    def __init__(self):
        self.lo, self.hi = -INF, INF
        self.lo_closed = self.hi_closed = True
        self.lo_src = self.hi_src = None

    def meet_lo(self, v, closed, src):
        if v > self.lo or (v == self.lo and not closed):
            self.lo, self.lo_closed, self.lo_src = v, closed, src

    def meet_hi(self, v, closed, src):
        if v < self.hi or (v == self.hi and not closed):
            self.hi, self.hi_closed, self.hi_src = v, closed, src

    def contains(self, other):
        lo_ok = self.lo < other.lo or (self.lo == other.lo and (self.lo_closed or not other.lo_closed))
        hi_ok = self.hi > other.hi or (self.hi == other.hi and (self.hi_closed or not other.hi_closed))
        return lo_ok and hi_ok

    def __repr__(self):
        return '%s%s, %s%s' % ('[' if self.lo_closed else '(', self.lo, self.hi, ']' if self.hi_closed else ')')

    def copy(self):
        i = Interval()
        i.__dict__.update(self.__dict__)
        return i


def fold_num(prog, modname, node):
    v = Folder(prog, modname).fold(node)
    if v is TOP or isinstance(v, bool) or not isinstance(v, (int, float)):
        return None
    return float(v)


def constraints(prog, modname, test, env=None):
    """dict var -> Interval implied by a conjunction of comparisons var <op> const
    (chained comparisons allowed).  Non-interval conjuncts are returned in `rest`."""
    env = dict((k, v.copy()) for k, v in (env or {}).items())
    rest = []

    def atom(left, op, right):
        # returns True if consumed
        for a, b, o in ((left, right, op), (right, left, _flip(op))):
            if isinstance(a, ast.Name) and o is not None:
                v = fold_num(prog, modname, b)
                if v is None: continue
                # a name that folds to a constant on the left (e.g. tcritical) is not a variable
                if fold_num(prog, modname, a) is not None: continue
                iv = env.setdefault(a.id, Interval())
                if o is ast.LtE: iv.meet_hi(v, True, norm(b))
                elif o is ast.Lt: iv.meet_hi(v, False, norm(b))
                elif o is ast.GtE: iv.meet_lo(v, True, norm(b))
                elif o is ast.Gt: iv.meet_lo(v, False, norm(b))
                else: continue
                return True
        return False

    def visit(t):
        if isinstance(t, ast.BoolOp) and isinstance(t.op, ast.And):
            for v in t.values: visit(v)
            return
        if isinstance(t, ast.Compare):
            left = t.left
            ok = True
            parts = []
            for op, right in zip(t.ops, t.comparators):
                parts.append((left, type(op), right))
                left = right
            consumed = [atom(a, o, b) for a, o, b in parts]
            if not all(consumed): rest.append(t)
            return
        rest.append(t)
    visit(test)
    return env, rest


def _flip(op):
    return {ast.Lt: ast.Gt, ast.Gt: ast.Lt, ast.LtE: ast.GtE, ast.GtE: ast.LtE}.get(op)


def negate_last(prog, modname, test, env=None):
    """interval env for the *false* outcome of a single comparison var <op> const."""
    env = dict((k, v.copy()) for k, v in (env or {}).items())
    if isinstance(test, ast.Compare) and len(test.ops) == 1 and isinstance(test.left, ast.Name) and \
       fold_num(prog, modname, test.comparators[0]) is not None and not (isinstance(test.comparators[0], ast.Name) and fold_num(prog, modname, test.left) is not None and test.left.id not in env):
        v = fold_num(prog, modname, test.comparators[0])
        if v is None: return env
        iv = env.setdefault(test.left.id, Interval())
        op = type(test.ops[0])
        src = norm(test.comparators[0])
        if op is ast.LtE: iv.meet_lo(v, False, src)
        elif op is ast.Lt: iv.meet_lo(v, True, src)
        elif op is ast.GtE: iv.meet_hi(v, False, src)
        elif op is ast.Gt: iv.meet_hi(v, True, src)
    elif isinstance(test, ast.Compare) and len(test.ops) == 1 and isinstance(test.comparators[0], ast.Name):
        # const <op> var  (the form comparisons take after normalisation N2: `t > 590.` arrives as `590. < t`)
        v = fold_num(prog, modname, test.left)
        if v is None: return env
        iv = env.setdefault(test.comparators[0].id, Interval())
        op = type(test.ops[0])
        src = norm(test.left)
        # not (c <= x)  ->  x < c ;  not (c < x) -> x <= c ;  not (c >= x) -> x > c ; not (c > x) -> x >= c
        if op is ast.LtE: iv.meet_hi(v, False, src)
        elif op is ast.Lt: iv.meet_hi(v, True, src)
        elif op is ast.GtE: iv.meet_lo(v, False, src)
        elif op is ast.Gt: iv.meet_lo(v, True, src)
    return env
