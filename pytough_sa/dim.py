"""Dimension (power of length) + affine weight abstract domain.

A value is TOP or (L, w): L = exponent of length, w = affine weight (1 for a
position / elevation, 0 for a displacement, length, area, volume or a pure
number).  Correct geometric formulas are invariant under rescaling of the length
unit and translation of the origin; both are type rules here."""
import ast
from fractions import Fraction
from .core import norm, dotted, call_name, walk_no_nested

TOP = None


class V(object):
    __slots__ = ('L', 'w', 'lit', 'seq')

    def __init__(self, L, w, lit=None, seq=None):
        self.L, self.w, self.lit, self.seq = L, w, lit, seq

    def __repr__(self):
        if self.seq is not None: return '[%s]' % ', '.join(repr(x) for x in self.seq)
        kind = {0: 'number', 1: 'length', 2: 'area', 3: 'volume'}.get(self.L, 'L^%s' % self.L)
        if self.L == 1 and self.w == 1: kind = 'position'
        elif self.w not in (0, None): kind += ' with affine weight %s' % self.w
        elif self.w is None: kind += ' (weight unknown)'
        return kind


POS, LEN, AREA, VOL, NUM = (1, 1), (1, 0), (2, 0), (3, 0), (0, 0)

ATTR = {
    'area': AREA, 'surface': POS, 'top': POS, 'bottom': POS, 'centre': POS, 'pos': POS, 'thickness': LEN,
    'volume': VOL, 'atmosphere_volume': VOL, 'atmosphere_connection': LEN, 'distance': LEN, 'dircos': NUM,
    'unit_scale': NUM, 'side_lengths': LEN, 'permeability_angle': NUM, 'num_nodes': NUM, 'num_layers': NUM,
}
CALLS = {
    'line_projection': POS, 'polygon_area': AREA, 'polygon_centroid': POS, 'block_surface': POS,
    'block_volume': VOL, 'block_centre': POS, 'len': NUM, 'float': NUM, 'int': NUM, 'cos': NUM, 'sin': NUM, 'radians': NUM,
}


class Problem(Exception):
    def __init__(self, node, msg): self.node, self.msg = node, msg


class DimEval(object):
    def __init__(self, env=None, attr=None, calls=None):
        self.env = dict(env or {})
        self.attr = dict(ATTR, **(attr or {}))
        self.calls = dict(CALLS, **(calls or {}))
        self.problems = []

    def mk(self, t, lit=None): return V(t[0], t[1], lit)

    def expr(self, e):
        try:
            return self._e(e)
        except Problem as p:
            self.problems.append((p.node, p.msg))
            return TOP

    def _e(self, e):
        if isinstance(e, ast.Constant):
            if isinstance(e.value, (int, float)) and not isinstance(e.value, bool):
                return V(0, 0, lit=Fraction(str(e.value)))
            return TOP
        if isinstance(e, ast.Name):
            return self.env.get(e.id, TOP)
        if isinstance(e, ast.Attribute):
            if e.attr in self.attr: return self.mk(self.attr[e.attr])
            return TOP
        if isinstance(e, ast.Subscript):
            v = self._e(e.value)
            if v is TOP: return TOP
            if v.seq is not None:
                if isinstance(e.slice, ast.Constant) and isinstance(e.slice.value, int) and -len(v.seq) <= e.slice.value < len(v.seq):
                    return v.seq[e.slice.value]
                return TOP
            return V(v.L, v.w)          # a component of a vector has the vector's type
        if isinstance(e, (ast.List, ast.Tuple)):
            return V(None, None, seq=[self._e(x) for x in e.elts])
        if isinstance(e, ast.UnaryOp) and isinstance(e.op, ast.USub):
            v = self._e(e.operand)
            if v is TOP or v.seq is not None: return TOP
            return V(v.L, None if v.w is None else -v.w, None if v.lit is None else -v.lit)
        if isinstance(e, ast.BinOp):
            return self._bin(e)
        if isinstance(e, ast.Call):
            return self._call(e)
        if isinstance(e, ast.IfExp):
            a, b = self._e(e.body), self._e(e.orelse)
            return self._same(a, b, e)
        if isinstance(e, ast.ListComp):
            return TOP
        return TOP

    def _same(self, a, b, node):
        if a is TOP or b is TOP: return TOP
        if a.seq is not None or b.seq is not None: return TOP
        if a.lit is not None and a.lit == 0: return b
        if b.lit is not None and b.lit == 0: return a
        if a.L != b.L: raise Problem(node, 'alternatives have different dimensions: %r vs %r' % (a, b))
        if a.w is not None and b.w is not None and a.w != b.w:
            raise Problem(node, 'alternatives differ in kind: %r vs %r' % (a, b))
        return V(a.L, a.w if a.w == b.w else None)

    def _bin(self, e):
        a, b = self._e(e.left), self._e(e.right)
        if a is TOP or b is TOP: return TOP
        if a.seq is not None or b.seq is not None:
            # vector arithmetic on literal lists: componentwise only when both are sequences of equal length
            return TOP
        op = e.op
        if isinstance(op, (ast.Add, ast.Sub)):
            for x, y in ((a, b), (b, a)):
                if x.lit is not None and x.lit == 0: return V(y.L, y.w if (isinstance(op, ast.Add) or x is b) else (None if y.w is None else -y.w))
            if a.L != b.L:
                raise Problem(e, '`%s`: %s %s %s' % (norm(e), repr(a), '+' if isinstance(op, ast.Add) else '-', repr(b)))
            if a.w is None or b.w is None: w = None
            else: w = a.w + b.w if isinstance(op, ast.Add) else a.w - b.w
            lit = None
            if a.lit is not None and b.lit is not None: lit = a.lit + b.lit if isinstance(op, ast.Add) else a.lit - b.lit
            return V(a.L, w, lit)
        if isinstance(op, ast.Mult):
            for x, y in ((a, b), (b, a)):
                if x.lit is not None:
                    return V(y.L, None if y.w is None else y.w * x.lit, None if y.lit is None else y.lit * x.lit)
            # two non-literal factors: a factor with non-zero affine weight may only meet a pure number of unknown value
            for x, y in ((a, b), (b, a)):
                if x.w not in (0, None) and y.L != 0:
                    raise Problem(e, '`%s` multiplies a %r by a %r: the result changes when the origin is moved' % (norm(e), x, y))
            w = 0 if (a.w == 0 and b.w == 0) else None
            return V(a.L + b.L, w)
        if isinstance(op, ast.Div):
            if b.lit is not None and b.lit != 0:
                return V(a.L, None if a.w is None else a.w / b.lit, None if a.lit is None else a.lit / b.lit)
            if b.w not in (0, None):
                raise Problem(e, '`%s` divides by a %r' % (norm(e), b))
            if a.w not in (0, None) and b.L != 0:
                raise Problem(e, '`%s` divides a %r by a %r: not translation invariant' % (norm(e), a, b))
            return V(a.L - b.L, 0 if a.w == 0 else None)
        if isinstance(op, ast.Pow):
            if b.lit is not None and b.lit.denominator == 1:
                if a.w not in (0, None): raise Problem(e, '`%s` takes a power of a %r' % (norm(e), a))
                return V(a.L * int(b.lit), 0)
            return TOP
        return TOP

    def _call(self, e):
        cn = call_name(e)
        if cn in ('norm',) or (cn == 'abs'):
            if not e.args: return TOP
            v = self._e(e.args[0])
            if v is TOP or v.seq is not None: return TOP
            if v.w not in (0, None):
                raise Problem(e, '`%s` takes the size of a %r: it depends on where the origin is' % (norm(e), v))
            return V(v.L, 0)
        if cn in ('min', 'max'):
            vals = []
            args = e.args
            if len(args) == 1 and isinstance(args[0], ast.ListComp):
                sub = DimEval(self.env, self.attr, self.calls)
                g = args[0].generators[0]
                if isinstance(g.target, ast.Name):
                    it = self._e(g.iter)
                    sub.env[g.target.id] = TOP
                v = sub.expr(args[0].elt)
                self.problems += sub.problems
                return v
            for a in args: vals.append(self._e(a))
            out = vals[0] if vals else TOP
            for v in vals[1:]: out = self._same(out, v, e)
            return out
        if cn in ('array', 'asarray') and e.args:
            v = self._e(e.args[0])
            if v is not TOP and v.seq is not None:
                out = None
                for x in v.seq:
                    if x is TOP: return TOP
                    out = x if out is None else self._same(out, x, e)
                return out if out is not None else TOP
            return v
        if cn == 'dot' and len(e.args) == 2:
            a, b = self._e(e.args[0]), self._e(e.args[1])
            if a is TOP or b is TOP or a.seq is not None or b.seq is not None: return TOP
            for x, y in ((a, b), (b, a)):
                if x.w not in (0, None) and y.L != 0:
                    raise Problem(e, '`%s`: dot product of a %r with a %r' % (norm(e), x, y))
            return V(a.L + b.L, 0 if a.w == 0 and b.w == 0 else None)
        if cn == 'sqrt' and e.args:
            v = self._e(e.args[0])
            if v is TOP or v.seq is not None: return TOP
            if v.L % 2: return TOP
            return V(v.L // 2, 0)
        if cn == 'sum' and e.args:
            return TOP
        if cn in self.calls: return self.mk(self.calls[cn])
        return TOP

    # -- statements -------------------------------------------------------------
    def assign(self, target, value_node):
        v = self.expr(value_node)
        if isinstance(target, ast.Name):
            self.env[target.id] = v
        elif isinstance(target, (ast.Tuple, ast.List)) and isinstance(value_node, (ast.Tuple, ast.List)) and len(target.elts) == len(value_node.elts):
            for t, x in zip(target.elts, value_node.elts): self.assign(t, x)
        elif isinstance(target, (ast.Tuple, ast.List)):
            if v is not TOP and v.seq is not None and len(v.seq) == len(target.elts):
                for t, x in zip(target.elts, v.seq):
                    if isinstance(t, ast.Name): self.env[t.id] = x
            else:
                for t in target.elts:
                    if isinstance(t, ast.Name): self.env[t.id] = TOP
        return v


def require(ev, node, v, want, what, out):
    """check a sink: v must be (L,w) == want; TOP never fails"""
    if v is TOP: return None
    if v.seq is not None:
        return None
    if v.lit is not None and v.lit == 0: return True
    L, w = want
    if v.L != L:
        out.append((node, '%s must be a %r but `%s` is a %r' % (what, V(L, w), norm(node), v))); return False
    if v.w is not None and v.w != w:
        out.append((node, '%s must be a %r but `%s` is a %r' % (what, V(L, w), norm(node), v))); return False
    return True
