"""PURE: a file writer does not modify the model it writes.

In a write_* method, (a) a dictionary that aliases an object's attribute dictionary (`x.__dict__`, `vars(x)`)
without a copy is never stored into, and (b) no attribute of an element taken from one of the model's lists
(a loop variable over self.<list> / self.grid.<list>) is assigned.  Otherwise writing a file changes what the
next section writer, or the next write, sees (a block renamed to its on-disk spelling is no longer found in the
initial conditions)."""
import ast
from ..core import walk_no_nested, call_name, norm

FRESH = ('copy', 'deepcopy', 'dict')


def _is_attrdict(v):
    if isinstance(v, ast.Attribute) and v.attr == '__dict__': return True
    if isinstance(v, ast.Call) and isinstance(v.func, ast.Name) and v.func.id == 'vars' and len(v.args) == 1: return True
    return False


def pure_rule(run, funcs, rule='PURE'):
    n = 0
    for fi in funcs:
        alias, elems = {}, {}
        for st in walk_no_nested(fi.node):
            if isinstance(st, ast.Assign) and len(st.targets) == 1 and isinstance(st.targets[0], ast.Name):
                v = st.value
                if _is_attrdict(v): alias[st.targets[0].id] = st
                elif st.targets[0].id in alias: del alias[st.targets[0].id]
            if isinstance(st, ast.For) and isinstance(st.target, ast.Name) and isinstance(st.iter, ast.Attribute) and \
               norm(st.iter).startswith('self.'):
                elems[st.target.id] = st
        bad = []
        for st in walk_no_nested(fi.node):
            tg = []
            if isinstance(st, ast.Assign): tg = st.targets
            elif isinstance(st, ast.AugAssign): tg = [st.target]
            for t in tg:
                if isinstance(t, ast.Subscript) and isinstance(t.value, ast.Name) and t.value.id in alias and \
                   st.lineno > alias[t.value.id].lineno:
                    bad.append((st, '`%s` is the attribute dictionary itself (%s), so `%s` changes the object being written'
                                % (t.value.id, norm(alias[t.value.id].value), norm(st))))
                if isinstance(t, ast.Attribute) and isinstance(t.value, ast.Name) and t.value.id in elems:
                    bad.append((st, '`%s` assigns an attribute of an element of %s while writing' % (norm(st), norm(elems[t.value.id].iter))))
            if isinstance(st, ast.Call) and isinstance(st.func, ast.Attribute) and st.func.attr in ('update', 'pop', 'setdefault', 'clear') and \
               isinstance(st.func.value, ast.Name) and st.func.value.id in alias:
                bad.append((st, '`%s` modifies the attribute dictionary of the object being written' % norm(st)))
        n += 1
        key = '%s :: writer leaves the model unchanged' % fi.short
        if bad: run.violated(key, bad[0][1], where=fi.where(bad[0][0]), rule=rule)
        else: run.ok(key, {'attribute-dictionary aliases': sorted(alias), 'element loops': len(elems)}, where=fi.where(), rule=rule)
    return n
