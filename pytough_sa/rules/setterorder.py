"""SETTERORDER: a property setter stores the new value in its backing field and then lets the object re-derive what depends on
it.  A method called BEFORE the store that reads the backing field (directly or through the methods it calls on self)
re-derives from the old value: the object ends up describing the previous setting."""
import ast
from ..core import walk_no_nested, norm, dotted


def _self_loads(cls, mname, depth=0, seen=None):
    seen = seen if seen is not None else set()
    if mname in seen or depth > 3: return set()
    seen.add(mname)
    fi = cls.methods.get(mname)
    if fi is None: return set()
    out = set(n.attr for n in ast.walk(fi.node) if isinstance(n, ast.Attribute) and isinstance(n.ctx, ast.Load) and dotted(n.value) == 'self')
    for c in ast.walk(fi.node):
        if isinstance(c, ast.Call) and isinstance(c.func, ast.Attribute) and dotted(c.func.value) == 'self' and c.func.attr in cls.methods:
            out |= _self_loads(cls, c.func.attr, depth + 1, seen)
    # a property read through its getter reads the getter's backing field
    for p, (g, s) in cls.properties.items():
        if p in out and g in cls.methods:
            out |= set(n.attr for n in ast.walk(cls.methods[g].node) if isinstance(n, ast.Attribute) and isinstance(n.ctx, ast.Load) and dotted(n.value) == 'self')
    return out


def setterorder_rule(run, classes):
    n = 0
    for cls in classes:
        for prop, (g, s) in sorted(cls.properties.items()):
            setter = cls.methods.get(s) if s else None
            if setter is None: continue
            stores = [x for x in walk_no_nested(setter.node) if isinstance(x, ast.Attribute) and isinstance(x.ctx, ast.Store) and dotted(x.value) == 'self']
            if not stores: continue
            backing = stores[0].attr
            first = min((x.lineno, x.col_offset) for x in stores if x.attr == backing)
            calls = [c for c in walk_no_nested(setter.node) if isinstance(c, ast.Call) and isinstance(c.func, ast.Attribute) and dotted(c.func.value) == 'self'
                     and c.func.attr in cls.methods]
            if not calls: continue
            n += 1
            key = '%s.%s :: `self.%s` stored before the methods that read it are called' % (cls.name, s, backing)
            early = [c for c in calls if (c.lineno, c.col_offset) < first and backing in _self_loads(cls, c.func.attr)]
            if early:
                run.violated(key, '`%s` runs before `self.%s = ...` and reads self.%s (directly or through the methods it calls): what it derives '
                             'describes the previous value of %s' % (norm(early[0]), backing, backing, prop), where=setter.where(early[0]), robust=True)
            else: run.ok(key, where=setter.where())
    return n
