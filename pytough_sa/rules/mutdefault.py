"""MUTDEFAULT: a parameter whose default is a mutable literal ({} / [] / set()) is shared by every call that omits it: a function
that mutates such a parameter in place carries state from one call to the next (and alters the caller's object when one is passed)."""
import ast
from ..core import walk_no_nested, norm

MUTATORS = ('append', 'extend', 'insert', 'pop', 'remove', 'clear', 'update', 'setdefault', 'popitem', 'add', 'discard', 'sort', 'reverse',
            '__setitem__', '__delitem__')


def mutable_default_params(fnode):
    a = fnode.args
    pos = a.posonlyargs + a.args
    out = {}
    for p, d in zip(pos[len(pos) - len(a.defaults):], a.defaults):
        if isinstance(d, (ast.Dict, ast.List, ast.Set)) or \
           (isinstance(d, ast.Call) and isinstance(d.func, ast.Name) and d.func.id in ('dict', 'list', 'set') and not d.args and not d.keywords):
            out[p.arg] = d
    for p, d in zip(a.kwonlyargs, a.kw_defaults):
        if d is not None and isinstance(d, (ast.Dict, ast.List, ast.Set)): out[p.arg] = d
    return out


def mutations(fnode, name):
    """in-place mutations of the object bound to parameter `name`, up to the first re-binding of the name (source order)"""
    rebind = [n.lineno for n in walk_no_nested(fnode) if isinstance(n, (ast.Assign, ast.For)) and
              any(isinstance(t, ast.Name) and t.id == name for tt in (n.targets if isinstance(n, ast.Assign) else [n.target])
                  for t in (tt.elts if isinstance(tt, (ast.Tuple, ast.List)) else [tt]))]
    first = min(rebind) if rebind else None
    out = []
    # plain aliases: `x = <param>` makes x the same object
    aliases = set([name])
    for n in walk_no_nested(fnode):
        if isinstance(n, ast.Assign) and len(n.targets) == 1 and isinstance(n.targets[0], ast.Name) and isinstance(n.value, ast.Name) and n.value.id == name \
           and (first is None or n.lineno < first):
            aliases.add(n.targets[0].id)
    if len(aliases) > 1:
        for al in sorted(aliases - set([name])):
            for n in walk_no_nested(fnode):
                if isinstance(n, ast.Call) and isinstance(n.func, ast.Attribute) and n.func.attr in MUTATORS and isinstance(n.func.value, ast.Name) and n.func.value.id == al:
                    out.append(n)
                if isinstance(n, ast.AugAssign) and isinstance(n.target, ast.Name) and n.target.id == al: out.append(n)
                if isinstance(n, (ast.Assign, ast.AugAssign, ast.Delete)):
                    for t in (n.targets if isinstance(n, (ast.Assign, ast.Delete)) else [n.target]):
                        if isinstance(t, ast.Subscript) and isinstance(t.value, ast.Name) and t.value.id == al: out.append(n)
    for n in walk_no_nested(fnode):
        if first is not None and getattr(n, 'lineno', 0) >= first: continue
        if isinstance(n, ast.Call) and isinstance(n.func, ast.Attribute) and n.func.attr in MUTATORS and isinstance(n.func.value, ast.Name) \
           and n.func.value.id == name:
            out.append(n)
        if isinstance(n, (ast.Assign, ast.AugAssign, ast.Delete)):
            ts = n.targets if isinstance(n, (ast.Assign, ast.Delete)) else [n.target]
            for t in ts:
                if isinstance(t, ast.Subscript) and isinstance(t.value, ast.Name) and t.value.id == name: out.append(n)
                if isinstance(n, ast.AugAssign) and isinstance(t, ast.Name) and t.id == name: out.append(n)
    return out


def mutdefault_rule(run, funcs):
    n = 0
    for fi in funcs:
        for p, d in sorted(mutable_default_params(fi.node).items()):
            n += 1
            key = '%s :: default `%s = %s` is not mutated' % (fi.short, p, norm(d))
            ms = mutations(fi.node, p)
            if ms:
                run.violated(key, '`%s` mutates the parameter `%s`, whose default `%s` is one object shared by all calls: what one call puts '
                             'there is still there in the next (and a dictionary passed by the caller is altered)' % (norm(ms[0])[:60], p, norm(d)),
                             where=fi.where(ms[0]), robust=True)
            else: run.ok(key, where=fi.where())
    return n
