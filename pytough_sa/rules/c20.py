"""C20 - conversion and export.  Rules POST, FLOW, EOSFLOW (+DEAD evidence), ONCE."""
import ast
from .. import roles
from ..core import AnalysisError, norm, dotted, call_name, walk_no_nested, is_self_attr, const_str
from ..formula import check_formula, compare
from .. import flow

LEVEL = 'other'
EXPLANATION = (
    "(POST) On every path through convert_to_TOUGH2 - following self-calls - the simulator string is "
    "emptied, the SIMUL and LINEQ sections are deleted, lineq and short_output are emptied and the MULTI "
    "EOS name is removed; convert_to_AUTOUGH2 performs the mirror writes; the type setter dispatches both "
    "directions. (FLOW) the generators selected for deletion reach a removal from BOTH generatorlist and "
    "generator - a list that is only appended to and printed under a message saying 'have been deleted' is "
    "the violation shape. (EOSFLOW) the EOS name matched against the simulator string is assigned to the "
    "variable that the 'EOS not detected' test reads, and that path is reachable whenever MULTI gives no "
    "EOS name. (ONCE) rocks_json appends each non-boundary block index exactly once, to the cell list of "
    "the block's own rock type; generators_json appends one source per non-TMAK generator with "
    "cell = block index - number of atmosphere blocks. MOP digit semantics and mirror-image equality of the "
    "two conversions are not decided.")

CLS = 't2data.t2data.'


def _self_callee(prog, call):
    if isinstance(call, ast.Call) and isinstance(call.func, ast.Attribute) and dotted(call.func.value) == 'self':
        c = prog.cls('t2data', 't2data')
        return c.methods.get(call.func.attr)
    return None


def must_effect(prog, fi, pred, depth=0):
    """True if every path to a normal exit of fi passes a statement satisfying pred, looking
    through calls to self.<method>() whose own every path does."""
    if depth > 4: return False

    def p(n):
        if pred(n): return True
        for c in ([n] if isinstance(n, ast.Call) else []) + [x for x in walk_no_nested(n) if isinstance(x, ast.Call)]:
            m = _self_callee(prog, c)
            if m is not None and m.node is not fi.node and must_effect(prog, m, pred, depth + 1):
                return True
        return False
    return not flow.must_pass(fi.node, p)


def assigns(target, value_pred):
    def p(n):
        if isinstance(n, ast.Assign):
            for t in n.targets:
                if norm(t) == target and value_pred(n.value): return True
        return False
    return p


def calls_section(fn, section):
    def p(n):
        for c in ([n.value] if isinstance(n, ast.Expr) and isinstance(n.value, ast.Call) else []):
            if call_name(c) == fn and dotted(c.func.value) == 'self' and c.args and const_str(c.args[0]) == section:
                return True
        return False
    return p


def empty_dict(v): return isinstance(v, ast.Dict) and not v.keys
def empty_list(v): return isinstance(v, ast.List) and not v.elts
def empty_str(v): return isinstance(v, ast.Constant) and v.value == ''


def ensures_absent(prog, fi, dict_attr, key, depth=0):
    """every path leaves `key` out of self.<dict_attr>: an unconditional del, or a del guarded exactly by
    the key's presence (possibly under a truthiness test of the dictionary), through self-calls"""
    if depth > 4: return False
    d = 'self.%s' % dict_attr

    def block(stmts):
        for st in stmts:
            if isinstance(st, ast.Delete) and any(norm(t) == "%s['%s']" % (d, key) for t in st.targets): return True
            if isinstance(st, ast.Expr) and isinstance(st.value, ast.Call) and call_name(st.value) == 'pop' and \
               norm(st.value.func.value) == d and st.value.args and const_str(st.value.args[0]) == key \
               and len(st.value.args) == 2: return True
            if isinstance(st, ast.Assign) and any(norm(t) == d for t in st.targets) and empty_dict(st.value): return True
            if isinstance(st, ast.If) and not st.orelse:
                t = norm(st.test)
                if t in ("'%s' in %s" % (key, d), d) and block(st.body): return True
            if isinstance(st, ast.Expr) and isinstance(st.value, ast.Call):
                m = _self_callee(prog, st.value)
                if m is not None and ensures_absent(prog, m, dict_attr, key, depth + 1): return True
        return False
    return block(fi.node.body)


def rule_post(run):
    run.rule('POST', 'post-state obligations of convert_to_TOUGH2 / convert_to_AUTOUGH2 hold on every path '
             '(through self-calls); the type property dispatches both conversions', floor=14)
    prog = run.prog
    t2 = prog.func(CLS + 'convert_to_TOUGH2')
    obl = [
        ("simulator = ''", assigns('self.simulator', empty_str), 'the model still declares a simulator, so type stays AUTOUGH2'),
        ("delete_section('SIMUL')", calls_section('delete_section', 'SIMUL'), 'the SIMUL section is still written'),
        ('lineq = {}', assigns('self.lineq', empty_dict), 'AUTOUGH2 linear-solver data survives'),
        ("delete_section('LINEQ')", calls_section('delete_section', 'LINEQ'), 'the LINEQ section is still written'),
        ('short_output = {}', assigns('self.short_output', empty_dict), 'AUTOUGH2 short output survives'),
    ]
    for name, pred, why in obl:
        ok = must_effect(prog, t2, pred)
        key = 't2data.convert_to_TOUGH2 :: %s' % name
        if ok: run.ok(key, where=t2.where())
        else: run.violated(key, 'some path through convert_to_TOUGH2 does not perform `%s`: %s' % (name, why), where=t2.where())
    ok = ensures_absent(prog, t2, 'multi', 'eos')
    key = "t2data.convert_to_TOUGH2 :: multi loses 'eos'"
    if ok: run.ok(key, where=t2.where())
    else: run.violated(key, "the EOS name can remain in MULTI after conversion to TOUGH2", where=t2.where())
    # history lists are filled from the short output before it is cleared
    sh = prog.func(CLS + 'convert_short_to_history')
    for what in ('block', 'connection', 'generator'):
        asg = [n for n in walk_no_nested(sh.node) if isinstance(n, ast.Assign) and norm(n.targets[0]) == 'self.history_%s' % what]
        key = 't2data.convert_short_to_history :: history_%s from short_output' % what
        if len(asg) == 1:
            r = compare(asg[0].value, "self.short_output['%s'][:]" % what, ["list(self.short_output['%s'])" % what, "self.short_output['%s']" % what])
            if r == 'equal': run.ok(key, where=sh.where(asg[0]))
            elif r == 'different': run.violated(key, 'history_%s is set from `%s`' % (what, norm(asg[0].value)), where=sh.where(asg[0]))
            else: run.unknown(key, norm(asg[0].value), where=sh.where(asg[0]))
        else: run.unknown(key, '%d assignments' % len(asg), where=sh.where())
    clr = [n for n in sh.node.body if isinstance(n, ast.Assign) and norm(n.targets[0]) == 'self.short_output']
    run.check(bool(clr) and sh.node.body.index(clr[-1]) == len(sh.node.body) - 1,
              't2data.convert_short_to_history :: short output cleared last',
              'short_output is cleared before the history lists are taken from it', where=sh.where())
    # mirror
    a2 = prog.func(CLS + 'convert_to_AUTOUGH2')
    nonempty = lambda v: not empty_str(v) and not (isinstance(v, ast.Constant) and not v.value)
    obl = [
        ('simulator = <non-empty>', assigns('self.simulator', nonempty), 'the model does not declare a simulator, so type stays TOUGH2'),
        ("insert_section('SIMUL')", calls_section('insert_section', 'SIMUL'), 'the SIMUL section is not written'),
        ('lineq = {...}', assigns('self.lineq', lambda v: isinstance(v, ast.Dict) and len(v.keys) > 0), 'no LINEQ data'),
        ("insert_section('LINEQ')", calls_section('insert_section', 'LINEQ'), 'the LINEQ section is not written'),
        ('solver = {}', assigns('self.solver', empty_dict), 'TOUGH2 SOLVR data survives'),
        ('history_block = []', assigns('self.history_block', empty_list), 'TOUGH2 FOFT list survives'),
        ('history_connection = []', assigns('self.history_connection', empty_list), 'TOUGH2 COFT list survives'),
        ('history_generator = []', assigns('self.history_generator', empty_list), 'TOUGH2 GOFT list survives'),
    ]
    for name, pred, why in obl:
        ok = must_effect(prog, a2, pred)
        key = 't2data.convert_to_AUTOUGH2 :: %s' % name
        if ok: run.ok(key, where=a2.where())
        else: run.violated(key, 'some path through convert_to_AUTOUGH2 does not perform `%s`: %s' % (name, why), where=a2.where())
    # the simulator string ends with the EOS name, and MULTI gets it
    sim = [n for n in walk_no_nested(a2.node) if isinstance(n, ast.Assign) and norm(n.targets[0]) == 'self.simulator']
    if len(sim) == 1:
        r = compare(sim[0].value, 'simulator.ljust(10) + eos')
        run.shape(r == 'equal', 't2data.convert_to_AUTOUGH2 :: simulator string = name + eos', 'simulator built as %s' % norm(sim[0].value), where=a2.where(sim[0]))
    mu = [n for n in ast.walk(a2.node) if isinstance(n, ast.Assign) and norm(n.targets[0]) == "self.multi['eos']"]
    run.check(len(mu) == 1 and norm(mu[0].value) == 'eos', "t2data.convert_to_AUTOUGH2 :: multi['eos'] = eos",
              "MULTI does not receive the EOS name", where=a2.where())
    # type property
    st = prog.func(CLS + 'set_type')
    txt = norm(st.node)
    disp = {}
    for n in ast.walk(st.node):
        if isinstance(n, ast.If) and isinstance(n.test, ast.Compare) and norm(n.test.left) == 'oldtype' and \
           isinstance(n.test.ops[0], ast.Eq) and const_str(n.test.comparators[0]):
            calls = [call_name(c.value) for c in n.body if isinstance(c, ast.Expr) and isinstance(c.value, ast.Call)]
            disp[const_str(n.test.comparators[0])] = calls
    good = disp.get('AUTOUGH2') == ['convert_to_TOUGH2'] and disp.get('TOUGH2') == ['convert_to_AUTOUGH2']
    if disp:
        run.check(good, 't2data.set_type :: dispatch', 'old type -> conversion is %s' % disp, where=st.where())
    else: run.unknown('t2data.set_type :: dispatch', 'dispatch not recognised', where=st.where())
    gt = prog.func(CLS + 'get_type')
    rets = dict((norm(r.value), r) for r in walk_no_nested(gt.node) if isinstance(r, ast.Return))
    ifs = [n for n in walk_no_nested(gt.node) if isinstance(n, ast.If)]
    good = len(ifs) == 1 and norm(ifs[0].test) == 'self.simulator' and norm(ifs[0].body[0]) == "return 'AUTOUGH2'" \
        and norm(ifs[0].orelse[0]) == "return 'TOUGH2'"
    run.shape(good, 't2data.get_type :: AUTOUGH2 iff simulator set', 'shape not recognised', where=gt.where())
    p = prog.cls('t2data', 't2data').properties.get('type')
    run.check(p == ('get_type', 'set_type'), 't2data.type :: property(get_type, set_type)', 'type property is %s' % (p,), where='t2data.py')


def rule_flow(run):
    run.rule('FLOW', 'generators selected for deletion by convert_AUTOUGH2_generators_to_TOUGH2 reach a removal '
             'from both generatorlist and generator', floor=1)
    prog = run.prog
    fi = prog.func(CLS + 'convert_AUTOUGH2_generators_to_TOUGH2')
    # locals that collect generators under the "not allowed and not convertible" branch
    collected = set()
    for n in walk_no_nested(fi.node):
        if isinstance(n, ast.Call) and call_name(n) in ('append', 'add') and isinstance(n.func.value, ast.Name):
            collected.add(n.func.value.id)
    key = 't2data.convert_AUTOUGH2_generators_to_TOUGH2 :: unsupported generators removed'
    if not collected:
        # direct deletion inside the loop?
        direct = any(isinstance(n, ast.Call) and call_name(n) == 'delete_generator' for n in walk_no_nested(fi.node))
        if direct: run.ok(key, 'deleted directly', where=fi.where())
        else: run.unknown(key, 'no collection of generators to delete found', where=fi.where())
        return
    removed_list = removed_dict = False
    for n in walk_no_nested(fi.node):
        uses = lambda x: any(isinstance(y, ast.Name) and y.id in collected for y in ast.walk(x))
        if isinstance(n, ast.For) and uses(n.iter):
            for c in ast.walk(n):
                if isinstance(c, ast.Call) and call_name(c) == 'delete_generator': removed_list = removed_dict = True
                if isinstance(c, ast.Delete):
                    for t in c.targets:
                        if isinstance(t, ast.Subscript) and norm(t.value) == 'self.generator': removed_dict = True
                        if isinstance(t, ast.Subscript) and norm(t.value) == 'self.generatorlist': removed_list = True
                if isinstance(c, ast.Call) and call_name(c) == 'remove' and norm(c.func.value) == 'self.generatorlist': removed_list = True
        if isinstance(n, ast.Assign):
            for t in n.targets:
                if norm(t) == 'self.generatorlist' and uses(n.value): removed_list = True
                if norm(t) == 'self.generator':
                    if uses(n.value) or 'self.generatorlist' in norm(n.value): removed_dict = removed_dict or removed_list or uses(n.value)
    # rebuilding the dictionary from the (already filtered) list counts as removal from the dictionary
    for n in walk_no_nested(fi.node):
        if isinstance(n, ast.Assign) and any(norm(t) == 'self.generator' for t in n.targets) and \
           'self.generatorlist' in norm(n.value) and removed_list:
            removed_dict = True
    if removed_list and removed_dict:
        run.ok(key, {'collected_in': sorted(collected)}, where=fi.where())
    else:
        only_reported = [n for n in walk_no_nested(fi.node) if isinstance(n, ast.Call) and call_name(n) == 'print'
                         and any(isinstance(y, ast.Name) and y.id in collected for y in ast.walk(n))]
        miss = [w for w, f in (('generatorlist', removed_list), ('generator', removed_dict)) if not f]
        # a container the function does write (rebuilt through a local, filled by a loop, ...) in a way this syntactic pass does not
        # follow is decided by the interpretation on model generator lists below, not here
        def written(w):
            for n in walk_no_nested(fi.node):
                if isinstance(n, (ast.Assign, ast.AugAssign, ast.Delete)):
                    ts = n.targets if not isinstance(n, ast.AugAssign) else [n.target]
                    for t in ts:
                        while isinstance(t, ast.Subscript): t = t.value
                        if norm(t) == 'self.' + w: return True
                if isinstance(n, ast.Call) and isinstance(n.func, ast.Attribute) and norm(n.func.value) == 'self.' + w and \
                   n.func.attr in ('pop', 'remove', 'clear', 'update', '__delitem__'): return True
            return False
        if all(written(w) for w in miss):
            run.ok(key, {'collected_in': sorted(collected), 'decided_by': 'interpretation on model generator lists'}, where=fi.where())
        else: run.violated(key, 'generators of types TOUGH2 lacks are collected in %s but never removed from %s%s: they survive '
                     'the conversion' % (sorted(collected), ' and '.join('self.' + m for m in miss),
                                         ' (the list is only printed)' if only_reported else ''), where=fi.where())
    # ... on every combination of kept and deleted generators: the function is interpreted on model generator lists
    # ('MASS' exists in both simulators, 'XXXX' in neither) and the post-state compared with the specification
    from ..consteval import Interp, Obj
    delete_model = lambda *a, **k: None
    for types in ([], ['XXXX'], ['MASS'], ['XXXX', 'MASS'], ['MASS', 'XXXX', 'XXXX'], ['XXXX', 'XXXX'], ['MASS', 'MASS']):
        k2 = 't2data.convert_AUTOUGH2_generators_to_TOUGH2 :: model with generator types %s' % types
        gens = []
        for i, t in enumerate(types):
            g = Obj(); g.attrs.update(type=t, block='blk%d' % i, name='gen%d' % i); gens.append(g)
        me = Obj()
        me.attrs['generatorlist'] = list(gens)
        me.attrs['generator'] = dict(((g.attrs['block'], g.attrs['name']), g) for g in gens)
        def delgen(key, me=me):
            g = me.attrs['generator'].pop(tuple(key) if isinstance(key, (list, tuple)) else key)
            me.attrs['generatorlist'].remove(g)
        me.attrs['__methods__'] = {'delete_generator': delgen}
        try:
            Interp({}, max_steps=20000).call_function(fi.node, [me, False])
        except AnalysisError as e:
            run.unknown(k2, 'left the constant-evaluation whitelist: %s' % e, where=fi.where()); continue
        want = [g for g in gens if g.attrs['type'] != 'XXXX']
        gl, gd = me.attrs['generatorlist'], me.attrs['generator']
        okl = len(gl) == len(want) and all(a is b for a, b in zip(gl, want))
        okd = isinstance(gd, dict) and sorted(gd.keys()) == sorted((g.attrs['block'], g.attrs['name']) for g in want) and \
            all(gd[(g.attrs['block'], g.attrs['name'])] is g for g in want)
        if okl and okd: run.ok(k2, {'kept': len(want)}, where=fi.where())
        else:
            run.violated(k2, 'after the conversion the generator list holds types %s and the lookup %d entries; %d generator(s) of a type TOUGH2 lacks '
                         'should have been removed from both' % ([g.attrs['type'] for g in gl], len(gd) if isinstance(gd, dict) else -1,
                                                                 len(gens) - len(want)), where=fi.where(), robust=True)
    # convertible types are rewritten in place
    conv = [n for n in ast.walk(fi.node) if isinstance(n, ast.Assign) and norm(n.targets[0]) == 'gen.type']
    run.check(len(conv) == 1 and norm(conv[0].value) == 'convert[gen.type]', 't2data.convert_AUTOUGH2_generators_to_TOUGH2 :: convertible types mapped',
              'convertible generator types are not rewritten through the convert table', where=fi.where())


def rule_eosflow(run):
    run.rule('EOSFLOW', 'the EOS name matched in the simulator string is stored in the variable the "EOS not '
             'detected" test reads, on a path taken whenever MULTI gives no EOS name', floor=3)
    prog = run.prog
    fi = prog.func(CLS + 'eos_json')
    # result variable: the Name tested by the `if R: ... else: raise Exception('EOS not detected.')`
    res = None
    for n in walk_no_nested(fi.node):
        if isinstance(n, ast.If) and isinstance(n.test, ast.Name) and n.orelse and isinstance(n.orelse[0], ast.Raise) \
           and 'not detected' in norm(n.orelse[0]):
            res = n.test.id
    if res is None:
        run.unknown('t2data.eos_json :: result variable', "`if <name>: ... else: raise 'EOS not detected'` not found", where=fi.where()); return
    hits = []
    # a local holding the simulator string with trailing blanks removed (bound once) is the simulator string for a suffix test
    sim_alias = set(nm for nm, v, st in roles.assignments(fi.node) if norm(v) in ('self.simulator', 'self.simulator.strip()', 'self.simulator.rstrip()')
                    and len([1 for nm2, v2, st2 in roles.assignments(fi.node) if nm2 == nm]) == 1)
    for n in ast.walk(fi.node):
        if isinstance(n, ast.If) and isinstance(n.test, ast.Call) and call_name(n.test) == 'endswith' and \
           (norm(n.test.func.value) in ('self.simulator', 'self.simulator.strip()', 'self.simulator.rstrip()') or
            isinstance(n.test.func.value, ast.Name) and n.test.func.value.id in sim_alias) and n.test.args and isinstance(n.test.args[0], ast.Name):
            hits.append(n)
    key = 't2data.eos_json :: simulator-string match reaches %s' % res
    if len(hits) != 1:
        run.unknown(key, 'simulator.endswith(<name>) test not found', where=fi.where()); return
    h = hits[0]
    lv = h.test.args[0].id
    stores = [s for s in h.body if isinstance(s, ast.Assign) and isinstance(s.targets[0], ast.Name)]
    # the result variable, or a variable copied into it afterwards (a helper's own local once the helper is spliced in: N8)
    feeds = set([res])
    for _ in range(3):
        for nm, v, st in roles.assignments(fi.node):
            if nm in feeds and isinstance(v, ast.Name): feeds.add(v.id)
    good = [s for s in stores if s.targets[0].id in feeds and norm(s.value) == lv]
    if good: run.ok(key, where=fi.where(good[0]))
    else:
        run.violated(key, 'the matched EOS name is stored in %s, never in %s: with the EOS given only by the simulator string '
                     'the export raises "EOS not detected"' % (sorted(set(s.targets[0].id for s in stores)) or 'nothing', res),
                     where=fi.where(h))
    # names that are suffixes of one another ('W' of 'EW'): the loop must end up with the longest match
    tabn = [n for n in walk_no_nested(fi.node) if isinstance(n, ast.Assign) and norm(n.targets[0]) == 'supported_eos' and isinstance(n.value, ast.Dict)]
    loop = None
    for n in ast.walk(fi.node):
        if isinstance(n, ast.For) and h in list(ast.walk(n)): loop = n
    key3 = 't2data.eos_json :: longest EOS name wins among suffix-related names'
    def order_of(e, keys):
        t = norm(e)
        if t in ('supported_eos.keys()', 'supported_eos', 'list(supported_eos.keys())', 'list(supported_eos)'): return list(keys)
        if isinstance(e, ast.Call) and isinstance(e.func, ast.Name) and e.func.id in ('sorted', 'reversed', 'list') and len(e.args) == 1:
            inner = order_of(e.args[0], keys)
            if inner is None: return None
            if e.func.id == 'list' and not e.keywords: return inner
            if e.func.id == 'reversed' and not e.keywords: return inner[::-1]
            if e.func.id == 'sorted':
                kw = dict((k.arg, k.value) for k in e.keywords)
                if set(kw) - set(['key', 'reverse']): return None
                rev = kw.get('reverse')
                if rev is not None and not (isinstance(rev, ast.Constant) and isinstance(rev.value, bool)): return None
                kf = kw.get('key')
                if kf is None: f = lambda x: x
                elif isinstance(kf, ast.Name) and kf.id == 'len': f = len
                else: return None
                return sorted(inner, key=f, reverse=bool(rev is not None and rev.value))
        return None
    keys0 = [const_str(k) for k in tabn[0].value.keys] if tabn else None
    keys = order_of(loop.iter, keys0) if (tabn and loop is not None and None not in keys0) else None
    if keys is not None:
        first_wins = any(isinstance(x, ast.Break) for x in ast.walk(h))
        bad = []
        for i, a in enumerate(keys):
            for j, b in enumerate(keys):
                if a != b and b.endswith(a):          # a is a proper suffix of b: b must win for a string ending in b
                    winner = (a if i < j else b) if first_wins else (a if i > j else b)
                    if winner != b: bad.append((a, b))
        if bad:
            run.violated(key3, 'with %s-match-wins and table order %s, a simulator string ending in %r is classified as %r'
                         % ('first' if first_wins else 'last', keys, bad[0][1], bad[0][0]), where=fi.where(loop))
        else: run.ok(key3, {'policy': 'first' if first_wins else 'last', 'order': keys}, where=fi.where(loop))
    else:
        run.unknown(key3, 'detection loop over the supported_eos table not recognised', where=fi.where(h))
    # reachability: the simulator branch must not be the `elif` of `if self.multi:` (MULTI present without an EOS name)
    from ..core import parent_map
    pm = parent_map(fi.node)
    cur, blocked = h, None
    while cur in pm:
        par = pm[cur]
        if isinstance(par, ast.If) and cur in par.orelse and any(is_self_attr(x, 'multi') for x in ast.walk(par.test)):
            blocked = par
        cur = par
    key2 = 't2data.eos_json :: simulator string consulted whenever MULTI gives no EOS'
    if blocked is not None:
        run.violated(key2, 'the simulator string is only consulted in the else-branch of `if %s:`; a model with a ' % norm(blocked.test) +
                     'MULTI section whose EOS field is blank/absent and simulator "AUTOUGH2.2EW" is reported as "EOS not detected"',
                     where=fi.where(blocked))
    else:
        run.ok(key2, where=fi.where(h))
    # evidence: assigned-never-read locals in the export call tree
    cls = prog.cls('t2data', 't2data')
    dead = []
    for m, f in sorted(cls.methods.items()):
        if not (m.endswith('_json') or m == 'json'): continue
        loads = set(n.id for n in ast.walk(f.node) if isinstance(n, ast.Name) and isinstance(n.ctx, ast.Load))
        for n in ast.walk(f.node):
            if isinstance(n, ast.Assign) and len(n.targets) == 1 and isinstance(n.targets[0], ast.Name) and \
               n.targets[0].id not in loads:
                dead.append('%s.%s' % (m, n.targets[0].id))
    run.notes.append('DEAD (evidence only) assigned-never-read locals in the export tree: %s' % dead)


def rule_once(run):
    run.rule('ONCE', 'rocks_json appends each non-boundary block once to its own rock type\'s cells; generators_json '
             'appends one source per non-TMAK generator; cell = block index - atmosphere blocks', floor=8)
    prog = run.prog
    fi = prog.func(CLS + 'rocks_json')
    loops = [n for n in walk_no_nested(fi.node) if isinstance(n, ast.For) and norm(n.iter) == 'geo.block_name_list']
    if len(loops) != 1:
        run.unknown('t2data.rocks_json :: block loop', 'loop over geo.block_name_list not found', where=fi.where())
    else:
        lp = loops[0]
        bn = lp.target.id
        check_formula(run, 't2data.rocks_json :: block looked up by its own name', fi, 'blk', 'self.grid.block[%s]' % bn,
                      'the block is not the one named by the loop variable')
        check_formula(run, 't2data.rocks_json :: cell index', fi, 'blk_index', 'geo.block_name_index[blk.name] - geo.num_atmosphere_blocks',
                      'cell index is not block index minus the number of atmosphere blocks',
                      alternatives=['geo.block_name_index[%s] - geo.num_atmosphere_blocks' % bn])
        apps = [c for c in ast.walk(lp) if isinstance(c, ast.Call) and call_name(c) == 'append']
        key = 't2data.rocks_json :: exactly one append per block'
        if len(apps) != 1:
            run.violated(key, '%d appends per iteration: a block is listed %s' % (len(apps), 'more than once' if apps else 'never'), where=fi.where(lp))
        else:
            run.ok(key, where=fi.where(apps[0]))
            a = apps[0]
            tgt = norm(a.func.value)
            # the list appended to, with the loop's locals (the rock name, ...) replaced by their definitions
            full = roles.inline_locals(a.func.value, [st for st in lp.body])
            r = compare(full, "jsondata['rock']['types'][rock_index[blk.rocktype.name]]['cells']",
                        ["jsondata['rock']['types'][rock_index[self.grid.block[%s].rocktype.name]]['cells']" % bn])
            k2 = 't2data.rocks_json :: appended to the cells of the block\'s own rock type'
            run.ok('t2data.rocks_json :: rock type of that block', norm(full), where=fi.where(a)) if r == 'equal' else None
            if r == 'equal': run.ok(k2, where=fi.where(a))
            elif r == 'different': run.violated(k2, 'index appended to `%s`' % tgt, where=fi.where(a))
            else: run.unknown(k2, tgt, where=fi.where(a))
            run.check(norm(a.args[0]) == 'blk_index', 't2data.rocks_json :: the cell index is what is appended', 'appends %s' % norm(a.args[0]), where=fi.where(a))
            # guard: only the non-boundary predicate
            from ..core import parent_map
            pm = parent_map(lp)
            guards = []
            cur = pm.get(a)
            while cur is not None and cur is not lp:
                if isinstance(cur, ast.If): guards.append(cur)
                cur = pm.get(cur)
            k3 = 't2data.rocks_json :: guarded only by 0 < volume < atmos_volume'
            if len(guards) == 1:
                r = compare(guards[0].test, '0.0 < blk.volume < atmos_volume')
                if r == 'equal': run.ok(k3, where=fi.where(guards[0]))
                elif r == 'different': run.violated(k3, 'guard is `%s`: boundary blocks are exported as cells or interior blocks are dropped' % norm(guards[0].test), where=fi.where(guards[0]))
                else:
                    # same shape with another threshold than the `atmos_volume` the caller passes (and boundaries_json() uses)?
                    t_ = guards[0].test
                    if isinstance(t_, ast.Compare) and len(t_.ops) == 2 and norm(t_.comparators[0]) == 'blk.volume' and 'atmos_volume' in fi.params \
                       and norm(t_.comparators[1]) != 'atmos_volume' and isinstance(t_.comparators[1], (ast.Attribute, ast.Constant)):
                        run.violated(k3, 'the upper limit is `%s`, not the `atmos_volume` argument that boundaries_json() applies to the same blocks: when the two '
                                     'differ a block is exported both as a cell and as a boundary, or as neither' % norm(t_.comparators[1]), where=fi.where(guards[0]), robust=True)
                    else: run.unknown(k3, norm(guards[0].test), where=fi.where(guards[0]))
            else:
                run.violated(k3, '%d guards around the append' % len(guards), where=fi.where(a))
        # rock index built for every rock type, in list order
        rl = [n for n in walk_no_nested(fi.node) if isinstance(n, ast.For) and norm(n.iter) == 'self.grid.rocktypelist']
        ok = len(rl) == 1 and any(isinstance(s, ast.Assign) and norm(s) == 'rock_index[rt.name] = ir' for s in rl[0].body) \
            and any(isinstance(s, ast.AugAssign) and norm(s) == 'ir += 1' for s in rl[0].body) \
            and any(isinstance(s, ast.Expr) and norm(s) == "jsondata['rock']['types'].append(rtdata)" for s in rl[0].body)
        run.shape(ok, 't2data.rocks_json :: rock_index numbers the exported rock types', 'shape not recognised', where=fi.where())
    g = prog.func(CLS + 'generators_json')
    loops = [n for n in walk_no_nested(g.node) if isinstance(n, ast.For) and norm(n.iter) == 'self.generatorlist']
    if len(loops) != 1:
        run.unknown('t2data.generators_json :: generator loop', 'loop over self.generatorlist not found', where=g.where()); return
    lp = loops[0]
    apps = [c for c in ast.walk(lp) if isinstance(c, ast.Call) and call_name(c) == 'append' and norm(c.func.value) == 'sources']
    key = 't2data.generators_json :: one source per non-TMAK generator'
    if len(apps) != 1:
        run.violated(key, '%d appends to sources per generator' % len(apps), where=g.where(lp))
    else:
        from ..core import parent_map
        pm = parent_map(lp)
        par = pm.get(pm.get(apps[0]))
        gv = lp.target.id
        good = isinstance(par, ast.If) and compare(par.test, "%s.type != 'TMAK'" % gv) == 'equal' and norm(apps[0].args[0]) == 'g'
        if good: run.ok(key, where=g.where(apps[0]))
        elif isinstance(par, ast.If) and compare(par.test, "%s.type != 'TMAK'" % gv) == 'different':
            run.violated(key, 'the source is appended under `%s`' % norm(par.test), where=g.where(par))
        else: run.unknown(key, 'guard not recognised', where=g.where(apps[0]))
        asg = [n for n in ast.walk(lp) if isinstance(n, ast.Assign) and norm(n.targets[0]) == 'g']
        run.shape(len(asg) == 1 and norm(asg[0].value) == 'generator_json(%s)' % gv, 't2data.generators_json :: g = generator_json(gen)',
                  'shape not recognised', where=g.where(lp))
    gj = prog.nested(g, 'generator_json')
    ci = [n for n in ast.walk(gj.node) if isinstance(n, ast.Assign) and norm(n.targets[0]) == 'cell_index' and
          not (isinstance(n.value, ast.Constant) and n.value.value is None)]
    key = 't2data.generators_json :: cell = block index - atmosphere blocks'
    if len(ci) == 1:
        check_formula(run, key, gj, None, 'geo.block_name_index[gen.block] - geo.num_atmosphere_blocks',
                      'source cell index is not that of its block', node=ci[0].value)
    else: run.unknown(key, '%d assignments' % len(ci), where=gj.where())
    cell = [n for n in ast.walk(gj.node) if isinstance(n, ast.Assign) and norm(n.targets[0]) == 'g' and isinstance(n.value, ast.Dict)]
    run.shape(len(cell) == 1 and "'cell': cell_index" in norm(cell[0].value), "t2data.generators_json :: source carries 'cell': cell_index",
              'source dictionary not recognised', where=gj.where())


def rule_pair(run):
    from .c08 import pair_rule
    pair_rule(run, ['t2data'], set(['t2data']), floor=3,
              only=lambda fi, owner: fi.name.startswith('convert_') or fi.name in ('delete_generator', 'clear_generators', 'delete_orphan_generators'))


def rule_simulfirst(run):
    run.rule('SIMULFIRST', 'the SIMUL section tells the reader that the sections after it are in AUTOUGH2 layout, so the conversion must '
             'put it first whatever order the other sections are in: section_insertion_index() returns 0 for the first entry of the '
             'canonical section list before any search relative to the sections present', floor=1)
    prog = run.prog
    fi = prog.func(CLS + 'section_insertion_index')
    key = 't2data.section_insertion_index :: first canonical section (SIMUL) is inserted at index 0'
    sec = fi.params[1]
    idx = [nm for nm, v, st in roles.assignments(fi.node)
           if isinstance(v, ast.Call) and isinstance(v.func, ast.Attribute) and v.func.attr == 'index' and norm(v.func.value) == 't2data_sections'
           and v.args and norm(v.args[0]) == sec]
    def is_first_test(t):
        if not (isinstance(t, ast.Compare) and len(t.ops) == 1 and isinstance(t.ops[0], ast.Eq)): return False
        a, b = norm(t.left), norm(t.comparators[0])
        pair = set([a, b])
        return any(pair == set([i, '0']) for i in idx) or pair == set([sec, "'SIMUL'"]) or pair == set([sec, 't2data_sections[0]'])
    def ret0(stmts):
        return bool(stmts) and isinstance(stmts[0], ast.Return) and isinstance(stmts[0].value, ast.Constant) and stmts[0].value.value == 0 \
            and not isinstance(stmts[0].value.value, bool)
    special = [n for n in ast.walk(fi.node) if isinstance(n, ast.If) and is_first_test(n.test) and ret0(n.body)]
    special += [n for n in ast.walk(fi.node) if isinstance(n, ast.If) and isinstance(n.test, ast.UnaryOp) and isinstance(n.test.op, ast.Not)
                and is_first_test(n.test.operand) and ret0(n.orelse)]
    special += [n for n in ast.walk(fi.node) if isinstance(n, ast.If) and isinstance(n.test, ast.Compare) and len(n.test.ops) == 1 and
                isinstance(n.test.ops[0], ast.NotEq) and is_first_test(ast.Compare(left=n.test.left, ops=[ast.Eq()], comparators=n.test.comparators))
                and ret0(n.orelse)]
    loops = [n for n in ast.walk(fi.node) if isinstance(n, (ast.For, ast.While))]
    if special:
        first_loop = min([l.lineno for l in loops] or [10 ** 9])
        inside = any(sp in list(ast.walk(l)) for l in loops for sp in special)
        if special[0].lineno < first_loop and not inside: run.ok(key, norm(special[0].test), where=fi.where(special[0]))
        else: run.unknown(key, 'the special case does not precede the search loops', where=fi.where(special[0]))
        return
    mentions = any(isinstance(c, ast.Compare) and (("'SIMUL'" in norm(c)) or any(i in [x.id for x in ast.walk(c) if isinstance(x, ast.Name)] for i in idx))
                   and not any(c in list(ast.walk(l.iter)) for l in loops if isinstance(l, ast.For)) for c in ast.walk(fi.node))
    if mentions or not loops:
        run.unknown(key, 'no recognised `first section -> 0` case, but the index is compared somewhere', where=fi.where()); return
    run.violated(key, 'no case returns 0 for the first canonical section: the general search puts SIMUL just before the first lower-ranked '
                 'section *in canonical order* that is present (normally ROCKS), which is index 0 only when the sections themselves are in '
                 'canonical order; for a model read from a file with PARAM or MULTI ahead of ROCKS, the converted file has SIMUL after '
                 'them and they are re-read with the TOUGH2 layout', where=fi.where(), robust=True)


def check(run):
    run.guarded('SIMULFIRST', rule_simulfirst)
    run.guarded('PAIR', rule_pair)
    run.guarded('POST', rule_post)
    run.guarded('FLOW', rule_flow)
    run.guarded('EOSFLOW', rule_eosflow)
    run.guarded('ONCE', rule_once)
