"""Shared facts about class t2listing: dynamic method binding (BIND) and effects."""
import ast
from ..core import AnalysisError, walk_no_nested, const_str, call_name
from ..effects import ClassEffects

SIMS = ['AUTOUGH2', 'TOUGH2', 'TOUGH2_MP', 'TOUGHplus', 'TOUGHREACT', 'TOUGH3']


def internal_fns(prog):
    """the literal list of dynamically bound names in detect_simulator, and the
    list of simulators that fall back to TOUGH2.  The variables are found by role:
    the list is what the loop containing setattr(self, f, getattr(self, f_sim)) iterates."""
    ds = prog.func('t2listing.t2listing.detect_simulator')
    names, fallback = None, None
    loop = None
    for n in walk_no_nested(ds.node):
        if isinstance(n, ast.For):
            for c in ast.walk(n):
                if isinstance(c, ast.Call) and call_name(c) == 'setattr' and len(c.args) == 3 and \
                   isinstance(c.args[2], ast.Call) and call_name(c.args[2]) == 'getattr':
                    loop = n
    if loop is None:
        raise AnalysisError('detect_simulator: loop with setattr(self, fname, getattr(self, fname_sim)) not found')
    it = loop.iter
    if isinstance(it, ast.Name):
        vals = [n.value for n in walk_no_nested(ds.node) if isinstance(n, ast.Assign) and len(n.targets) == 1 and
                isinstance(n.targets[0], ast.Name) and n.targets[0].id == it.id]
        it = vals[0] if len(vals) == 1 else None
    if isinstance(it, (ast.List, ast.Tuple)):
        names = [const_str(e) for e in it.elts]
    for n in walk_no_nested(ds.node):
        if isinstance(n, ast.Compare) and isinstance(n.left, ast.Name) and \
           isinstance(n.ops[0], ast.In) and isinstance(n.comparators[0], (ast.List, ast.Tuple)):
            cand = [const_str(e) for e in n.comparators[0].elts]
            if cand and all(c in SIMS for c in cand): fallback = cand
    if not names or None in names:
        raise AnalysisError('detect_simulator: literal list of dynamically bound method names not found')
    return names, (fallback or [])


def binding(prog):
    """name -> {sim: method name}"""
    cls = prog.cls('t2listing', 't2listing')
    names, fallback = internal_fns(prog)
    out = {}
    for n in names:
        per = {}
        for sim in SIMS:
            m = '%s_%s' % (n, sim)
            if m in cls.methods: per[sim] = m
            elif sim in fallback and ('%s_TOUGH2' % n) in cls.methods: per[sim] = '%s_TOUGH2' % n
            else: per[sim] = None
        out[n] = per
    return out


def listing_effects(prog, sim=None):
    cls = prog.cls('t2listing', 't2listing')
    b = binding(prog)
    bound = {}
    for n, per in b.items():
        if sim is None:
            bound[n] = sorted(set(m for m in per.values() if m))
        else:
            bound[n] = [per[sim]] if per.get(sim) else []
    return ClassEffects(prog, cls, bound)
