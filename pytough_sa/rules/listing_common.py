"""Shared facts about class t2listing: dynamic method binding (BIND) and effects."""
import ast
from ..core import AnalysisError, walk_no_nested, const_str, call_name
from ..effects import ClassEffects

SIMS = ['AUTOUGH2', 'TOUGH2', 'TOUGH2_MP', 'TOUGHplus', 'TOUGHREACT', 'TOUGH3']


def internal_fns(prog):
    """the literal list of dynamically bound names in detect_simulator, and the
    list of simulators that fall back to TOUGH2."""
    ds = prog.func('t2listing.t2listing.detect_simulator')
    names, fallback = None, None
    for n in walk_no_nested(ds.node):
        if isinstance(n, ast.Assign) and len(n.targets) == 1 and isinstance(n.targets[0], ast.Name) \
           and n.targets[0].id == 'internal_fns' and isinstance(n.value, ast.List):
            names = [const_str(e) for e in n.value.elts]
        if isinstance(n, ast.Compare) and isinstance(n.left, ast.Name) and n.left.id == 'simname' and \
           isinstance(n.ops[0], ast.In) and isinstance(n.comparators[0], ast.List):
            fallback = [const_str(e) for e in n.comparators[0].elts]
    if not names or None in names:
        raise AnalysisError('detect_simulator: literal internal_fns list not found')
    # the binding statement itself
    ok = False
    for n in walk_no_nested(ds.node):
        if isinstance(n, ast.Call) and call_name(n) == 'setattr' and len(n.args) == 3 and \
           isinstance(n.args[2], ast.Call) and call_name(n.args[2]) == 'getattr':
            ok = True
    if not ok:
        raise AnalysisError('detect_simulator: setattr(self, fname, getattr(self, fname_sim)) not found')
    return names, (fallback or [])


def binding(prog):
    """name -> {sim: method name}"""
    cls = prog.cls('t2listing', 't2listing')
    names, fallback = internal_fns(prog)
    out = {}
    for n in names:
        per = {}
        for sim in SIMS:
            m = '%s_%s' % (n, sim)
            if m in cls.methods: per[sim] = m
            elif sim in fallback and ('%s_TOUGH2' % n) in cls.methods: per[sim] = '%s_TOUGH2' % n
            else: per[sim] = None
        out[n] = per
    return out


def listing_effects(prog, sim=None):
    cls = prog.cls('t2listing', 't2listing')
    b = binding(prog)
    bound = {}
    for n, per in b.items():
        if sim is None:
            bound[n] = sorted(set(m for m in per.values() if m))
        else:
            bound[n] = [per[sim]] if per.get(sim) else []
    return ClassEffects(prog, cls, bound)
