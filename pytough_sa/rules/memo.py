"""MEMO: a remembered result must be keyed by everything the result depends on.

(a) inline form - `if K in D: return D[K]` / `try: return D[K] except KeyError:` with `D[K] = result`, D living longer
    than the call (a module-level name or a default-argument / closure dictionary): every parameter of the function that its
    body reads must occur in K;
(b) decorator form - a wrapper `def fn(a, *args, **kwargs)` that looks its result up under `a` alone and is applied to a
    function taking further parameters.
Otherwise a second call that differs only in the ignored parameter (a range-check flag, a blank value) gets the answer
computed for the first."""
import ast
from ..core import walk_no_nested, norm


def _names(e): return set(x.id for x in ast.walk(e) if isinstance(x, ast.Name))


def _lookups(fn_node):
    """[(dict name, key expr, node)] for `K in D` guards followed by a return of D[K], and try/return D[K]"""
    out = []
    for n in ast.walk(fn_node):
        if isinstance(n, ast.If) and isinstance(n.test, ast.Compare) and len(n.test.ops) == 1 and isinstance(n.test.ops[0], ast.In) \
           and isinstance(n.test.comparators[0], ast.Name):
            D, K = n.test.comparators[0].id, n.test.left
            if any(isinstance(r, ast.Return) and isinstance(r.value, ast.Subscript) and isinstance(r.value.value, ast.Name) and
                   r.value.value.id == D for st in n.body for r in ast.walk(st)):
                out.append((D, K, n))
        if isinstance(n, ast.Try) and any(h.type is not None and 'KeyError' in ast.unparse(h.type) for h in n.handlers):
            for st in n.body:
                if isinstance(st, ast.Return) and isinstance(st.value, ast.Subscript) and isinstance(st.value.value, ast.Name):
                    out.append((st.value.value.id, st.value.slice, n))
    return out


def memo_rule(run, modnames, rule='MEMO'):
    prog = run.prog
    n = 0
    for mn in modnames:
        mod = prog.mod(mn)
        glob = set(mod.globals)
        # decorators defined in the module: name -> (wrapper node, cache name)
        decos = {}
        for f in mod.functions.values():
            inner = [g for g in ast.walk(f.node) if isinstance(g, ast.FunctionDef) and g is not f.node]
            for g in inner:
                for D, K, node in _lookups(g):
                    # cache lives in the decorator's frame (assigned there, a dict literal)
                    local = any(isinstance(a, ast.Assign) and isinstance(a.targets[0], ast.Name) and a.targets[0].id == D for a in f.node.body)
                    if local and any(isinstance(r, ast.Return) and isinstance(r.value, ast.Name) and r.value.id == g.name for r in f.node.body):
                        decos[f.name] = (g, D, K)
        for fi in mod.all_functions():
            key = '%s :: remembered results keyed by all inputs' % fi.short
            # (b) decorated with a caching decorator
            for d in fi.node.decorator_list:
                dn = d.id if isinstance(d, ast.Name) else None
                if dn in decos:
                    n += 1
                    g, D, K = decos[dn]
                    kn = _names(K)
                    wparams = [a.arg for a in g.args.args]
                    params = [a.arg for a in fi.node.args.args if a.arg != 'self']
                    extra = len(params) - len([p for p in wparams if p in kn])
                    if (g.args.vararg or g.args.kwarg or len(wparams) > len(kn)) and extra > 0:
                        run.violated(key, '@%s remembers results under `%s` only, but %s takes %s: a call that differs in %s is answered from the '
                                     'result remembered for another value of it' % (dn, norm(K), fi.short, params, params[len(kn):]), where=fi.where(d), rule=rule)
                    else: run.ok(key, '@%s keys on %s' % (dn, norm(K)), where=fi.where(d), rule=rule)
            # (a) inline
            for D, K, node in _lookups(fi.node):
                persistent = D in glob or any(isinstance(dflt, (ast.Dict,)) for dflt in fi.node.args.defaults) and D in [a.arg for a in fi.node.args.args]
                if not persistent: continue
                n += 1
                params = [a.arg for a in fi.node.args.args if a.arg != 'self']
                used = set(x.id for x in ast.walk(fi.node) if isinstance(x, ast.Name) and isinstance(x.ctx, ast.Load))
                missing = [p for p in params if p in used and p not in _names(K) and p != D]
                if missing:
                    run.violated(key, '`%s` remembers results of %s under the key `%s`, which leaves out %s although the result depends on it: a later '
                                 'call with another value of %s gets the remembered answer (a range check switched on is ignored, ...)'
                                 % (D, fi.short, norm(K), missing, missing), where=fi.where(node), rule=rule)
                else: run.ok(key, 'key `%s` covers %s' % (norm(K), params), where=fi.where(node), rule=rule)
    if n == 0:
        run.ok('%s :: no remembered results' % '+'.join(modnames), 'no memo dictionary or caching decorator in these modules', rule=rule)
    return n
