"""LOOPCARRY: a local that a loop body assigns only under a condition and then hands on in the same iteration keeps, when the
condition is false, the value it got in an earlier iteration (or before the loop): the record / element being processed
silently inherits its predecessor's value.  (What "move `x = None` out of the loop and drop the else" produces.)

Signature decided here: inside one loop body, every assignment to the local sits in an `if` / `try` branch of some top-level
statement S, no path through S assigns it on all branches, and a LATER top-level statement of the same body reads it.  A
local read BEFORE it is conditionally re-assigned (`col = f(guess); if col: guess = col`) is a deliberate carry and is not
reported."""
import ast
from ..core import walk_no_nested, norm
from .. import flow

# (kept from the first version of the rule, which needed them; with the constant-default condition neither matches any more)
EXEMPT = {
    ('t2listing.t2listing.history', 'line'):
        'the per-table reader only moves forwards: `line` is re-read only when the next selected item lies on a later row, and an item '
        'on the row already in hand (same row, another column) re-uses it by design',
    ('t2data.t2data.transfer_generators_from', 'layername'):
        'assigned under `if category in top_generator / elif category in bottom_generator` inside a branch that is only entered when '
        'the category is in top_generator + bottom_generator: one of the two always holds',
}


def _names_stored(node):
    return set(x.id for x in ast.walk(node) if isinstance(x, ast.Name) and isinstance(x.ctx, ast.Store))


def _blocks(stmts):
    """the statement lists of one loop iteration: the body and, recursively, the branches of its if / try / with statements
    (inner loops are loops of their own)"""
    yield stmts
    for st in stmts:
        if isinstance(st, ast.If):
            for b in (st.body, st.orelse):
                for x in _blocks(b): yield x
        elif isinstance(st, ast.Try):
            for b in [st.body, st.orelse, st.finalbody] + [h.body for h in st.handlers]:
                for x in _blocks(b): yield x
        elif isinstance(st, ast.With):
            for x in _blocks(st.body): yield x


def loopcarry_rule(run, funcs):
    n = 0
    for fi in funcs:
        comp_vars = set(x.id for c in ast.walk(fi.node) if isinstance(c, ast.comprehension) for x in ast.walk(c.target) if isinstance(x, ast.Name))
        for lp in [l for l in walk_no_nested(fi.node) if isinstance(l, (ast.For, ast.While))]:
            loopvars = _names_stored(lp.target) if isinstance(lp, ast.For) else set()
            inner_loops = [x for x in ast.walk(lp) if isinstance(x, (ast.For, ast.While)) and x is not lp]
            in_inner = set(id(y) for x in inner_loops for y in ast.walk(x))
            # statements of this loop (not of inner loops) that bind each name
            binders = {}
            for a in ast.walk(lp):
                if id(a) in in_inner and not any(a is x for x in inner_loops): continue
                if isinstance(a, (ast.Assign, ast.AugAssign, ast.For, ast.With)):
                    tg = a.targets if isinstance(a, ast.Assign) else ([a.target] if isinstance(a, (ast.AugAssign, ast.For)) else [i.optional_vars for i in a.items if i.optional_vars is not None])
                    for t in tg:
                        for nm in _names_stored(t) | (set([t.id]) if isinstance(t, ast.Name) else set()): binders.setdefault(nm, []).append(a)
            # a name bound inside an inner loop as well is not the simple pattern
            for x in inner_loops:
                for a in ast.walk(x):
                    if isinstance(a, ast.Name) and isinstance(a.ctx, ast.Store): binders.setdefault(a.id, []).append(x)
            for block in _blocks(lp.body):
                for k, st in enumerate(block):
                    if not isinstance(st, (ast.If, ast.Try)): continue
                    cands = set(a.targets[0].id for a in ast.walk(st) if isinstance(a, ast.Assign) and len(a.targets) == 1 and isinstance(a.targets[0], ast.Name)
                                and id(a) not in in_inner)
                    for v in sorted(cands - loopvars - comp_vars):
                        # exactly one statement of this block's statement S binds it, and nothing else in the whole iteration does
                        inside = set(id(y) for y in ast.walk(st))
                        if any(id(b) not in inside for b in binders.get(v, [])): continue
                        # assigned on every path through S?
                        probe = ast.Pass()
                        s_after = flow.state_at(ast.FunctionDef(name='f', args=fi.node.args, body=[st, probe], decorator_list=[]), probe, flow.DefAssign(), frozenset())
                        if s_after is None or v in s_after: continue
                        def reads(o):
                            return any(isinstance(x, ast.Name) and x.id == v and isinstance(x.ctx, ast.Load) for x in ast.walk(o))
                        # read earlier in the iteration (deliberate carry)?  earlier = before S in preorder of the loop body
                        pos = dict((id(y), i_) for i_, y in enumerate(ast.walk(ast.Module(body=lp.body, type_ignores=[]))))
                        first_s = min(getattr(y, 'lineno', 10 ** 9) for y in ast.walk(st) if hasattr(y, 'lineno'))
                        early = [x for x in ast.walk(ast.Module(body=lp.body, type_ignores=[])) if isinstance(x, ast.Name) and x.id == v and isinstance(x.ctx, ast.Load)
                                 and getattr(x, 'lineno', 0) < first_s]
                        if early: continue
                        if isinstance(lp, ast.While) and reads(lp.test): continue
                        # handed on by a plain statement of the same block (a read under a further condition may be guarded by the same fact)
                        later = [o for o in block[k + 1:] if reads(o)]
                        if not later or not isinstance(later[0], (ast.Assign, ast.AugAssign, ast.Expr, ast.Return)): continue
                        # the default the condition was meant to override is set once, before the loop, to a constant (None, 0, '', [] ...): with no
                        # initialisation the author relies on the condition always holding, with a computed one the local is loop state
                        def const_default(val):
                            return isinstance(val, ast.Constant) or (isinstance(val, (ast.List, ast.Tuple, ast.Dict)) and not getattr(val, 'elts', getattr(val, 'keys', None)))
                        inits = []
                        for a in walk_no_nested(fi.node):
                            if isinstance(a, ast.Assign) and a.lineno < lp.lineno:
                                for tg_ in a.targets:
                                    if isinstance(tg_, ast.Name) and tg_.id == v: inits.append(a.value)
                                    elif isinstance(tg_, (ast.Tuple, ast.List)) and isinstance(a.value, (ast.Tuple, ast.List)) and len(tg_.elts) == len(a.value.elts):
                                        inits += [b_ for a_, b_ in zip(tg_.elts, a.value.elts) if isinstance(a_, ast.Name) and a_.id == v]
                        if not inits or not all(const_default(i_) for i_ in inits): continue
                        n += 1
                        key = '%s :: `%s` set under a condition, handed on afterwards in the same iteration' % (fi.short, v)
                        if (fi.qual, v) in EXEMPT:
                            run.ok(key, 'exempt: ' + EXEMPT[(fi.qual, v)], where=fi.where(st)); continue
                        run.violated(key, '`%s` is assigned only on some paths through `%s ...` and then used by `%s`: when the condition fails the value of the '
                                     'previous iteration (or the one from before the loop) is used, so a record without the optional value inherits its '
                                     'predecessor\'s' % (v, norm(st).split('\n')[0][:50], norm(later[0]).split('\n')[0][:60]), where=fi.where(later[0]), robust=True)
    return n
