"""C09 - reorder / rename / MINC keep the physics.  Rules ORIENT, FRAME, PART."""
import ast
from ..core import srcline, AnalysisError, norm, dotted, call_name, walk_no_nested, is_self_attr
from .. import roles
from ..formula import check_formula, compare
from .. import flow

LEVEL = 'other'
EXPLANATION = (
    "(ORIENT) The orientation-coupled fields of a connection are derived from the repo itself "
    "(t2connection.__init__ and write_connections put distance[0], nad1 with block[0]; dircos is the cosine "
    "for the block[0]->block[1] direction); any function that reverses con.block must, on the same path, "
    "reverse distance, swap nad1/nad2 and negate dircos. (FRAME) the attribute write sets of rename_blocks "
    "and reorder contain no physics field (volume, centre, rock type, area, direction, ...). (PART) minc() "
    "normalises the fraction vector before use, scales the fracture block by fraction 0 and creates one "
    "matrix block per remaining fraction from the ORIGINAL volume, chains continua (lastblk advances), "
    "area = volume x specific area, and embed() removes the sub-grid volume from the host on the success "
    "path. MINC proximity-function numerics are not decided.")


def _reversal_of(stmt, attr):
    """does stmt reverse X.<attr> (a 2-list)?  returns receiver text or None"""
    if isinstance(stmt, ast.Assign) and len(stmt.targets) == 1:
        t, v = stmt.targets[0], stmt.value
        if isinstance(t, ast.Attribute) and t.attr == attr:
            r = norm(t.value)
            if isinstance(v, ast.Subscript) and norm(v.value) == '%s.%s' % (r, attr) and norm(v.slice) == '::-1':
                return r
            if isinstance(v, (ast.List, ast.Tuple)) and len(v.elts) == 2 and \
               [norm(e) for e in v.elts] == ['%s.%s[1]' % (r, attr), '%s.%s[0]' % (r, attr)]:
                return r
            if isinstance(v, ast.Call) and call_name(v) in ('list', 'tuple') and v.args and isinstance(v.args[0], ast.Call) \
               and call_name(v.args[0]) == 'reversed' and norm(v.args[0].args[0]) == '%s.%s' % (r, attr):
                return r
    if isinstance(stmt, ast.Expr) and isinstance(stmt.value, ast.Call) and call_name(stmt.value) == 'reverse' \
       and isinstance(stmt.value.func.value, ast.Attribute) and stmt.value.func.value.attr == attr:
        return norm(stmt.value.func.value.value)
    return None


def _swaps_nad(stmt, r):
    if isinstance(stmt, ast.Assign) and len(stmt.targets) == 1 and isinstance(stmt.targets[0], ast.Tuple) \
       and isinstance(stmt.value, ast.Tuple):
        return [norm(e) for e in stmt.targets[0].elts] == ['%s.nad1' % r, '%s.nad2' % r] and \
            [norm(e) for e in stmt.value.elts] == ['%s.nad2' % r, '%s.nad1' % r] or \
            [norm(e) for e in stmt.targets[0].elts] == ['%s.nad2' % r, '%s.nad1' % r] and \
            [norm(e) for e in stmt.value.elts] == ['%s.nad1' % r, '%s.nad2' % r]
    return False


def _negates_dircos(stmt, r):
    if isinstance(stmt, ast.Assign) and len(stmt.targets) == 1 and norm(stmt.targets[0]) == '%s.dircos' % r:
        return compare(stmt.value, '-%s.dircos' % r) == 'equal'
    if isinstance(stmt, ast.AugAssign) and norm(stmt.target) == '%s.dircos' % r and isinstance(stmt.op, ast.Mult):
        return compare(stmt.value, '-1') == 'equal' or compare(stmt.value, '-1.0') == 'equal'
    return False


def rule_orient(run):
    run.rule('ORIENT', 'a function that reverses the two blocks of a connection also reverses distance, swaps '
             'nad1/nad2 and negates dircos on the same path', floor=1)
    prog = run.prog
    # the coupling table, from the repo: constructor order and the writer's field order
    ctor = prog.func('t2grids.t2connection.__init__')
    ok_ctor = all(('self.%s = %s' % (a, b)) in norm(ctor.node) for a, b in
                  (('block', 'blocks'), ('distance', 'distance'), ('dircos', 'dircos')))
    run.shape(ok_ctor, 't2connection.__init__ :: block/distance/dircos stored as given', 'constructor shape not recognised', where=ctor.where())
    wc = prog.func('t2data.t2data.write_connections')
    run.shape('con.nseq, con.nad1, con.nad2, con.direction] + con.distance + [con.area, con.dircos, con.sigma]' in norm(wc.node),
              't2data.write_connections :: block1,block2,...,nad1,nad2,...,distance1,distance2 order',
              'record assembly not recognised', where=wc.where())
    nsites = 0
    for fi in prog.all_functions(['t2grids', 't2data']):
        for blk in _blocks(fi.node):
            for st in blk:
                r = _reversal_of(st, 'block')
                if r is None: continue
                nsites += 1
                key = '%s :: %s.block reversed' % (fi.short, r)
                miss = []
                if not any(_reversal_of(s, 'distance') == r for s in blk): miss.append('distance is not reversed')
                if not any(_swaps_nad(s, r) for s in blk): miss.append('nad1/nad2 are not swapped')
                def neg(stmts):
                    for s in stmts:
                        if _negates_dircos(s, r): return True
                        # `if X.dircos is not None:` / `if X.dircos:` guard (MINC connections carry None)
                        if isinstance(s, ast.If) and not s.orelse and norm(s.test) in ('%s.dircos is not None' % r, '%s.dircos' % r) \
                           and neg(s.body): return True
                    return False
                if not neg(blk): miss.append('dircos is not negated')
                if miss:
                    run.violated(key, "%s: each block's own distance to the interface (and the sign of the gravity "
                                 "cosine) stays attached to the other block after the reversal" % '; '.join(miss), where=fi.where(st))
                else:
                    run.ok(key, where=fi.where(st))
    if nsites == 0:
        run.unknown('ORIENT :: sites', 'no connection reversal found (reorder() is expected to have one)')


def _blocks(fnode):
    """all statement lists (blocks) of a function"""
    out = []
    for n in ast.walk(fnode):
        for f in ('body', 'orelse', 'finalbody'):
            b = getattr(n, f, None)
            if isinstance(b, list) and b and isinstance(b[0], ast.stmt): out.append(b)
    return out


PHYSICS = set(['volume', 'centre', 'rocktype', 'area', 'direction', 'sigma', 'ahtx', 'pmx', 'atmosphere',
               'permeability', 'porosity', 'density', 'conductivity', 'specific_heat'])


def rule_frame(run):
    run.rule('FRAME', 'rename_blocks and reorder write no physics field of blocks, connections or rock types', floor=2)
    prog = run.prog
    allowed = {
        't2grids.t2grid.rename_blocks': set(['name', 'connection_name', 'block', 'connection']),
        't2grids.t2grid.reorder': set(['block', 'connection_name', 'distance', 'dircos', 'nad1', 'nad2', 'blocklist',
                                       'connectionlist', 'connection']),
    }
    for q, allow in sorted(allowed.items()):
        fi = prog.func(q)
        stores = []
        for n in ast.walk(fi.node):
            if isinstance(n, ast.Attribute) and isinstance(n.ctx, (ast.Store, ast.Del)): stores.append(n)
            if isinstance(n, ast.Subscript) and isinstance(n.ctx, (ast.Store, ast.Del)) and isinstance(n.value, ast.Attribute):
                stores.append(n.value)
        bad = sorted(set(s.attr for s in stores if s.attr in PHYSICS))
        other = sorted(set(s.attr for s in stores if s.attr not in allow and s.attr not in PHYSICS))
        key = '%s :: attribute write set' % fi.short
        if bad:
            n0 = [s for s in stores if s.attr in bad][0]
            run.violated(key, 'writes physics field(s) %s: renaming / reordering must not change what the grid describes' % bad,
                         where=fi.where(n0))
        elif other:
            run.unknown(key, 'writes attribute(s) %s not in the frame table' % other, where=fi.where())
        else:
            run.ok(key, {'writes': sorted(set(s.attr for s in stores))}, where=fi.where())
        # no calls that construct or delete elements
        calls = sorted(set(call_name(c) for c in ast.walk(fi.node) if isinstance(c, ast.Call) and
                           call_name(c) in ('add_block', 'delete_block', 'add_connection', 'delete_connection',
                                            't2block', 't2connection', 'add_rocktype', 'delete_rocktype')))
        run.check(not calls, '%s :: creates/deletes no element' % fi.short, 'calls %s' % calls, where=fi.where())


def rule_part(run):
    run.rule('PART', 'minc(): fractions normalised before use; fracture volume = V*f0, matrix volumes = V*f_m from the '
             'original volume; continua chained; area = V*a; embed() subtracts the sub-grid volume', floor=8)
    prog = run.prog
    fi = prog.func('t2grids.t2grid.minc')
    # normalisation dominates every use of the fractions in geometry / volumes.  The variables are found by role:
    # raw = the fractions parameter; NF = the variable holding raw / sum(raw) (raw itself when normalised in place)
    raw = fi.params[1]

    def is_sum_of(e, name):
        return isinstance(e, ast.Call) and call_name(e) == 'sum' and len(e.args) == 1 and isinstance(e.args[0], ast.Name) and e.args[0].id == name
    key = 't2grid.minc :: fractions normalised'
    NF, norm_stmt = None, None
    cands = []
    for n in walk_no_nested(fi.node):
        if isinstance(n, ast.AugAssign) and isinstance(n.target, ast.Name) and n.target.id == raw and isinstance(n.op, ast.Div):
            cands.append((raw, n, n.value))
        if isinstance(n, ast.Assign) and len(n.targets) == 1 and isinstance(n.targets[0], ast.Name) and isinstance(n.value, ast.BinOp) \
           and isinstance(n.value.op, ast.Div) and isinstance(n.value.left, ast.Name) and n.value.left.id == raw:
            cands.append((n.targets[0].id, n, n.value.right))
    if len(cands) != 1:
        run.unknown(key, 'statement dividing the fractions `%s` by their sum not found exactly once' % raw, where=fi.where())
    else:
        NF, norm_stmt, div = cands[0]
        if is_sum_of(div, raw): run.ok(key, '%s holds %s / sum(%s)' % (NF, raw, raw), where=fi.where(norm_stmt))
        elif isinstance(div, (ast.Constant, ast.Name)) or (isinstance(div, ast.Call) and raw in norm(div)):
            run.violated(key, 'fractions divided by `%s`, not their sum: continua volumes do not add up to the block volume' % norm(div), where=fi.where(norm_stmt))
        else: run.unknown(key, 'divisor `%s`' % norm(div), where=fi.where(norm_stmt))
        # every element of the fractions that is read is read from the normalised variable, after the normalisation
        uses = [n for n in walk_no_nested(fi.node) if isinstance(n, ast.Subscript) and isinstance(n.value, ast.Name) and n.value.id in (raw, NF)
                and isinstance(n.ctx, ast.Load)]
        early = [u for u in uses if u.lineno < norm_stmt.lineno]
        unscaled = [u for u in uses if u.value.id != NF and u.lineno > norm_stmt.lineno]
        k2 = 't2grid.minc :: no fraction used before normalisation'
        if early: run.violated(k2, '%s is read at line %d before the normalisation' % (norm(early[0]), srcline(early[0])), where=fi.where(early[0]))
        elif unscaled:
            run.violated(k2, '`%s` reads the fractions as given (`%s`), not the normalised `%s`: when the requested fractions do not sum to 1 '
                         'the continua volumes do not add up to the original block volume' % (norm(unscaled[0]), raw, NF), where=fi.where(unscaled[0]))
        else: run.ok(k2, {'reads': len(uses), 'normalised variable': NF}, where=fi.where(norm_stmt))
    FR = NF or raw
    # the per-block loop
    loops = [n for n in walk_no_nested(fi.node) if isinstance(n, ast.For) and norm(n.iter) == 'enumerate(blocks)']
    if len(loops) != 1:
        run.unknown('t2grid.minc :: block loop', 'loop over enumerate(blocks) not found', where=fi.where()); return
    lp = loops[0]
    ov = [n for n in ast.walk(lp) if isinstance(n, ast.Assign) and norm(n.targets[0]) == 'original_vol']
    sc = [n for n in ast.walk(lp) if isinstance(n, ast.AugAssign) and norm(n.target) == 'blk.volume']
    sc_plain = [n for n in ast.walk(lp) if isinstance(n, ast.Assign) and norm(n.targets[0]) == 'blk.volume']
    # the scaling and the creation of matrix blocks must sit under the same eligibility guard
    from ..core import parent_map
    pm = parent_map(lp)

    def guards(node):
        out, cur = [], node
        while cur in pm:
            par = pm[cur]
            if isinstance(par, ast.If) and cur in par.body: out.append(norm(par.test))
            cur = par
        return out
    mk0 = [c for c in ast.walk(lp) if isinstance(c, ast.Call) and isinstance(c.func, ast.Name) and c.func.id == 't2block']
    scal = (sc + sc_plain)[:1]
    if scal and mk0:
        gs, gm = guards(scal[0]), [g for g in guards(mk0[0]) if 'original_vol' in g or 'atmos_volume' in g]
        if gm and not all(g in gs for g in gm):
            run.violated('t2grid.minc :: fracture scaling under the same guard as the matrix blocks',
                         'the block volume is scaled by the fracture fraction outside `%s`, the condition under which matrix continua '
                         'are created: an atmosphere / boundary / inactive block in the selection loses volume with no continua to hold it'
                         % gm[0], where=fi.where(scal[0]))
        elif gm: run.ok('t2grid.minc :: fracture scaling under the same guard as the matrix blocks', where=fi.where(scal[0]))
    if sc_plain and not sc:
        r = compare(sc_plain[0].value, 'original_vol * %s[0]' % FR)
        k2 = 't2grid.minc :: fracture block volume = V * f[0]'
        if r == 'equal': run.ok(k2, where=fi.where(sc_plain[0]))
        elif r == 'different': run.violated(k2, 'fracture volume set to `%s`' % norm(sc_plain[0].value), where=fi.where(sc_plain[0]))
        else: run.unknown(k2, norm(sc_plain[0].value), where=fi.where(sc_plain[0]))
        sc = None
    key = 't2grid.minc :: original volume captured before scaling'
    if sc is None:
        pass
    elif len(ov) == 1 and len(sc) == 1:
        good = compare(ov[0].value, 'blk.volume') == 'equal' and ov[0].lineno < sc[0].lineno
        run.check(good, key, 'original_vol = %s at line %d, fracture scaling at line %d' % (norm(ov[0].value), ov[0].lineno, sc[0].lineno), where=fi.where(ov[0]))
        r = compare(sc[0].value, '%s[0]' % FR)
        k2 = 't2grid.minc :: fracture block volume = V * f[0]'
        if isinstance(sc[0].op, ast.Mult) and r == 'equal': run.ok(k2, where=fi.where(sc[0]))
        elif r == 'incomparable' and isinstance(sc[0].op, ast.Mult): run.unknown(k2, norm(sc[0]), where=fi.where(sc[0]))
        else: run.violated(k2, 'fracture volume updated by `%s`' % norm(sc[0]), where=fi.where(sc[0]))
    else:
        run.unknown(key, 'statements not found', where=fi.where(lp))
    # the loop over the matrix fractions, in either spelling: `for vf in F[1:]: m += 1 ...`  or  `for m, vf in enumerate(F[1:], 1): ...`
    def loop_parts(n):
        """(element name, fractions subscript, counter name or None, counter start or None)"""
        it, tg = n.iter, n.target
        if isinstance(it, ast.Call) and call_name(it) == 'enumerate' and it.args and isinstance(tg, ast.Tuple) and len(tg.elts) == 2 and \
           all(isinstance(e, ast.Name) for e in tg.elts):
            start = it.args[1] if len(it.args) > 1 else ([k.value for k in it.keywords if k.arg == 'start'] or [ast.Constant(value=0)])[0]
            return tg.elts[1].id, it.args[0], tg.elts[0].id, (start.value if isinstance(start, ast.Constant) else None)
        if isinstance(tg, ast.Name): return tg.id, it, None, None
        return None, it, None, None
    inner = []
    for n in ast.walk(lp):
        if isinstance(n, ast.For):
            el, it, cnt, start = loop_parts(n)
            if el and isinstance(it, ast.Subscript) and isinstance(it.value, ast.Name) and it.value.id in (raw, FR): inner.append((n, el, it, cnt, start))
    if len(inner) != 1:
        run.unknown('t2grid.minc :: matrix loop', 'loop over the matrix fractions not found', where=fi.where(lp)); return
    il, vf, frac_iter, enum_counter, enum_start = inner[0]
    run.check(norm(frac_iter.slice) == '1:', 't2grid.minc :: matrix continua use fractions [1:]',
              'matrix loop iterates %s: a fraction is skipped or the fracture fraction is reused' % norm(frac_iter), where=fi.where(il))
    mk = [c for c in ast.walk(il) if isinstance(c, ast.Call) and isinstance(c.func, ast.Name) and c.func.id == 't2block']
    if len(mk) == 1 and len(mk[0].args) >= 2:
        if 'blk.volume' in norm(mk[0].args[1]):
            run.violated('t2grid.minc :: matrix block volume = V * f[m]', 'the matrix block volume `%s` uses blk.volume, which has '
                         'already been scaled by the fracture fraction: continua volumes no longer add up to the original volume'
                         % norm(mk[0].args[1]), where=fi.where(mk[0]))
        else:
            check_formula(run, 't2grid.minc :: matrix block volume = V * f[m]', fi, None, 'original_vol * %s' % vf,
                          'matrix block volume is not the original volume times its fraction', node=mk[0].args[1])
        kw = dict((k.arg, k.value) for k in mk[0].keywords)
        if 'centre' in kw:
            check_formula(run, 't2grid.minc :: matrix block keeps the block centre', fi, None, 'blk.centre',
                          'matrix block centre is not the original block centre', node=kw['centre'])
    else:
        run.unknown('t2grid.minc :: matrix block volume = V * f[m]', 't2block construction not found', where=fi.where(il))
    cn = [c for c in ast.walk(il) if isinstance(c, ast.Call) and isinstance(c.func, ast.Name) and c.func.id == 't2connection']
    if len(cn) == 1 and len(cn[0].args) >= 4:
        a = cn[0].args
        blkvar = None
        for n in ast.walk(il):
            if isinstance(n, ast.Assign) and isinstance(n.value, ast.Call) and n.value is mk[0] if mk else False:
                blkvar = norm(n.targets[0])
        check_formula(run, 't2grid.minc :: nested connection joins previous and new continuum', fi, None,
                      '[lastblk, %s]' % (blkvar or 'mincblk'), 'connection does not join the previous continuum to the new one', node=a[0])
        # roles: D = the list started with [fracture_connection_distance], A = the list started with an expression in proximity(),
        # M = the level counter (enumerate variable, or the name incremented by one in the loop)
        Dn = roles.locals_where(fi.node, lambda v: isinstance(v, ast.List) and len(v.elts) == 1 and isinstance(v.elts[0], ast.Name)
                                and v.elts[0].id == 'fracture_connection_distance')
        An = roles.locals_where(fi.node, lambda v: isinstance(v, ast.List) and len(v.elts) == 1 and
                                any(isinstance(c, ast.Call) and call_name(c) == 'proximity' for c in ast.walk(v.elts[0])))
        Mn = [enum_counter] if enum_counter else [n.target.id for n in il.body if isinstance(n, ast.AugAssign) and isinstance(n.target, ast.Name)
                                                   and isinstance(n.op, ast.Add) and norm(n.value) == '1']
        D_, A_, M_ = (Dn[0] if len(Dn) == 1 else 'd'), (An[0] if len(An) == 1 else 'a'), (Mn[0] if len(Mn) == 1 else 'm')
        check_formula(run, 't2grid.minc :: nested connection distances d[m-1], d[m]', fi, None, '[%s[%s - 1], %s[%s]]' % (D_, M_, D_, M_),
                      'nodal distances are not (d[m-1], d[m])', node=a[2])
        check_formula(run, 't2grid.minc :: interface area = V * a[m-1]', fi, None, 'original_vol * %s[%s - 1]' % (A_, M_),
                      'interface area is not original volume times specific area', node=a[3])
        adv = [n for n in il.body if False] or [n for n in ast.walk(il) if isinstance(n, ast.Assign) and norm(n.targets[0]) == 'lastblk']
        key = 't2grid.minc :: continua chained (lastblk advances)'
        if adv and norm(adv[0].value) == (blkvar or 'mincblk'): run.ok(key, where=fi.where(adv[0]))
        elif not adv: run.violated(key, 'lastblk is never advanced inside the loop: every matrix continuum is connected to '
                                   'the fracture block (a star), not nested fracture -> innermost matrix', where=fi.where(cn[0]))
        else: run.violated(key, 'lastblk is advanced to `%s`, not the new block' % norm(adv[0].value), where=fi.where(adv[0]))
        k_m = 't2grid.minc :: level counter m advances by 1 first'
        if enum_counter is not None:
            # enumerate(F[1:], 1): the counter is 1 for the first matrix continuum, as after `m = 0 ... m += 1`
            if enum_start == 1: run.ok(k_m, 'enumerate(..., 1)', where=fi.where(il))
            elif enum_start is None: run.unknown(k_m, 'enumerate start not literal', where=fi.where(il))
            else: run.violated(k_m, 'the level counter starts at %r for the first matrix continuum (1 expected: d[m-1], a[m-1] are indexed with it)' % enum_start, where=fi.where(il))
        else:
            inc = [n for n in il.body if isinstance(n, ast.AugAssign) and isinstance(n.target, ast.Name) and isinstance(n.op, ast.Add) and norm(n.value) == '1']
            run.check(len(inc) == 1 and il.body.index(inc[0]) == 0,
                      k_m, 'level counter update is %s' % [norm(i) for i in il.body if isinstance(i, ast.AugAssign)], where=fi.where(il))
    else:
        run.unknown('t2grid.minc :: nested connection', 't2connection construction not found', where=fi.where(il))
    # embed
    em = prog.func('t2grids.t2grid.embed')
    check_formula(run, 't2grid.embed :: sub-grid volume', em, 'subvol', 'sum([blk.volume for blk in subgrid.blocklist])',
                  'sub-grid volume is not the sum of its block volumes')
    sub = [n for n in walk_no_nested(em.node) if isinstance(n, ast.AugAssign) and isinstance(n.target, ast.Attribute) and n.target.attr == 'volume']
    key = 't2grid.embed :: host block loses the sub-grid volume'
    if len(sub) == 1:
        tgt = sub[0].target.value
        # the block that loses the volume must be looked up by name in the grid being returned: the connection handed in may
        # carry a block object of another copy of the model (embed() itself re-resolves the connection's blocks by name)
        by_name = isinstance(tgt, ast.Subscript) and isinstance(tgt.value, ast.Attribute) and tgt.value.attr == 'block' and \
            isinstance(tgt.slice, ast.Attribute) and tgt.slice.attr == 'name'
        good = isinstance(sub[0].op, ast.Sub) and norm(sub[0].value) == 'subvol' and by_name
        if good: run.ok(key, where=em.where(sub[0]))
        elif isinstance(sub[0].op, ast.Sub) and norm(sub[0].value) == 'subvol' and isinstance(tgt, ast.Name):
            run.violated(key, '`%s` takes the volume off the block object that came with the connection, not off the block of that name in the '
                         'resulting grid: for a connection built from another copy of the model the result keeps the full host volume and the total '
                         'grows by the sub-grid volume' % norm(sub[0]), where=em.where(sub[0]))
        else: run.violated(key, 'host volume updated by `%s`' % norm(sub[0]), where=em.where(sub[0]))
        # on the success path: same block as `result = self + subgrid`
        same = any(sub[0] in b and any(isinstance(s, ast.Assign) and norm(s.targets[0]) == 'result' and
                                         compare(s.value, 'self + subgrid') == 'equal' for s in b) for b in _blocks(em.node))
        run.shape(same, 't2grid.embed :: subtraction on the success path', 'not in the block that builds the result', where=em.where(sub[0]))
    elif not sub:
        run.violated(key, 'no volume is subtracted from the host block: total volume grows by the sub-grid volume', where=em.where())
    else:
        run.unknown(key, '%d volume updates' % len(sub), where=em.where())


def check(run):
    run.guarded('ORIENT', rule_orient)
    run.guarded('FRAME', rule_frame)
    run.guarded('PART', rule_part)
