"""C15 - IFC-67 routines (t2thermo).  Rules POWNAME, GUARD, SIBCONST, BOUNDS, CLAMP."""
import ast
import re
from ..core import AnalysisError, norm, dotted, call_name, walk_no_nested, Folder, TOP, const_num
from ..formula import check_formula, compare
from ..intervals import constraints, negate_last, Interval, fold_num
from .c14 import region_walk, _factors

LEVEL = 'other'
EXPLANATION = (
    "Structure of t2thermo.py decided from the code: (POWNAME) monomial abstract interpretation of the "
    "straight-line products - a variable named <root><k> built as a product of powers of one root must "
    "hold the k-th power (the naming convention is how the published formula is transcribed); (GUARD/"
    "BOUNDS) with range checking on, each routine's ok flag is assigned on every path, is False outside "
    "the stated box, True when checking is off, and the no-value is returned exactly in the not-ok branch; "
    "the liquid/steam side tests are the exact complements of the classifier's; (SIBCONST) break points "
    "shared by cowat/supst/sat/tsat/region and by IAPWS97.region are equal; (CLAMP) the separated steam "
    "fraction is max(min(.,1),0) on every return. Numerical agreement between formulations is not decided.")

MOD = 't2thermo'


def rule_powname(run):
    run.rule('POWNAME', 'a variable named <root><k> assigned a product of powers of one root holds exactly the '
             'k-th power of that root', floor=45)
    prog = run.prog
    n = 0
    for fname in ('cowat', 'supst', 'sat'):
        fi = prog.func('t2thermo.' + fname)
        mono = {}      # var -> (root, exponent)
        for st in walk_no_nested(fi.node):
            if not (isinstance(st, ast.Assign) and len(st.targets) == 1 and isinstance(st.targets[0], ast.Name)):
                continue
            name = st.targets[0].id
            facs = _factors(st.value)
            if len(facs) >= 2 and all(isinstance(f, ast.Name) for f in facs):
                roots = set()
                e = 0
                for f in facs:
                    r, k = mono.get(f.id, (f.id, 1))
                    roots.add(r); e += k
                if len(roots) == 1:
                    root = roots.pop()
                    if name == root:
                        mono.pop(name, None)    # x = x * x: reuse of the name, no longer a root power
                        continue
                    bases = [root]
                    if root.endswith('1') and len(root) > 1: bases.append(root[:-1])
                    cands = []
                    for b_ in bases:
                        mm = re.match(r'^%s(\d+)$' % re.escape(b_), name)
                        if mm: cands.append(int(mm.group(1)))
                    m = (root, cands[0]) if cands else None
                    mono[name] = (root, e)
                    if m is None: continue
                    n += 1
                    key = 't2thermo.%s :: %s' % (fname, name)
                    if e not in cands:
                        run.violated(key, '%s = %s is %s**%d, but the name (and every later use) says power %s'
                                     % (name, norm(st.value), root, e, ' or '.join(str(c) for c in cands)), where=fi.where(st))
                    else:
                        run.ok(key, {'root': root, 'power': e})
                    continue
            # any other assignment kills a previous monomial binding of that name
            mono.pop(name, None)
    run.count('power_names', n)


def _bounds_struct(fi):
    """returns (if_bounds stmt, if_ok stmt)"""
    ifb = ifo = None
    for st in fi.node.body:
        if isinstance(st, ast.If) and isinstance(st.test, ast.Name) and st.test.id == 'bounds': ifb = st
        if isinstance(st, ast.If) and isinstance(st.test, ast.Name) and st.test.id == 'ok': ifo = st
    if ifb is None or ifo is None:
        raise AnalysisError('%s: `if bounds:` / `if ok:` structure not found' % fi.short)
    return ifb, ifo


def _ok_assigns(stmts, path=(), init=None):
    """all leaves: (path of (test, polarity), value node last assigned to ok on that path, or None if never assigned)"""
    leaves = [(path, init)]
    for st in stmts:
        if isinstance(st, ast.Assign) and isinstance(st.targets[0], ast.Name) and st.targets[0].id == 'ok':
            leaves = [(p, st.value) for p, _ in leaves]
        elif isinstance(st, ast.If):
            new = []
            for p, v in leaves:
                new += _ok_assigns(st.body, p + ((st.test, True),), v)
                new += _ok_assigns(st.orelse, p + ((st.test, False),), v)
            leaves = new
    return leaves


def _is_none_ret(stmts):
    if len(stmts) != 1 or not isinstance(stmts[0], ast.Return): return False
    v = stmts[0].value
    if v is None: return True
    if isinstance(v, ast.Constant) and v.value is None: return True
    if isinstance(v, ast.Tuple) and all(isinstance(e, ast.Constant) and e.value is None for e in v.elts): return True
    return False


def rule_bounds(run):
    run.rule('BOUNDS', 'with range checking on, ok is assigned on every path, False outside the box, True when '
             'checking is off, and the no-value is returned exactly in the not-ok branch', floor=4)
    prog = run.prog
    for fname in ('cowat', 'supst', 'sat', 'tsat'):
        fi = prog.func('t2thermo.' + fname)
        ifb, ifo = _bounds_struct(fi)
        key = 't2thermo.%s' % fname
        # every path from the function entry to `if ok:` (a default set before `if bounds:` counts), split by the value of the flag
        pre = fi.node.body[:fi.node.body.index(ifo)]
        allp = _ok_assigns(pre)
        is_flag = lambda t: isinstance(t, ast.Name) and t.id == 'bounds'
        off = [(p, v) for p, v in allp if any(is_flag(t) and pol is False for t, pol in p)]
        good_off = bool(off) and all(isinstance(v, ast.Constant) and v.value is True for _, v in off)
        run.check(good_off, key + ' :: ok = True when bounds is off', 'with bounds off ok is %s' %
                  [norm(v) if v is not None else None for _, v in off], where=fi.where(ifb))
        # bounds on: every leaf assigns; leaves under a negated box test assign False
        leaves = [(tuple(x for x in p if not is_flag(x[0])), v) for p, v in allp if any(is_flag(t) and pol is True for t, pol in p)]
        missing = [p for p, v in leaves if v is None]
        run.check(not missing, key + ' :: ok assigned on every path', 'a path through `if bounds:` leaves ok unassigned',
                  where=fi.where(ifb))
        for p, v in leaves:
            if v is None: continue
            if p and p[0][1] is False:    # outside the outer box
                run.check(isinstance(v, ast.Constant) and v.value is False,
                          key + ' :: ok is False outside %s' % norm(p[0][0]),
                          'outside the stated range ok = %s: the routine returns a value there' % norm(v), where=fi.where(v))
        # no-value exactly in the else of `if ok`
        run.check(_is_none_ret(ifo.orelse), key + ' :: no-value returned when not ok',
                  'the not-ok branch does not return the no-value', where=fi.where(ifo))
        # the ok branch itself must be able to return a value (not all returns None)
        rets = [r for r in ast.walk(ast.Module(body=ifo.body, type_ignores=[])) if isinstance(r, ast.Return)]
        val = [r for r in rets if not _is_none_ret([r])]
        run.check(bool(val), key + ' :: value returned when ok', 'no value-returning path under `if ok:`', where=fi.where(ifo))


def _lits(node, prog):
    """numeric bounds appearing in comparisons of a function: set of (folded value)"""
    out = set()
    for c in ast.walk(node):
        if isinstance(c, ast.Compare):
            for e in [c.left] + c.comparators:
                v = fold_num(prog, MOD, e) if not isinstance(e, ast.Call) else None
                if v is not None: out.add(v)
    return out


def rule_guard(run):
    run.rule('GUARD', 'cowat/supst range tests agree with t2thermo.region: same boxes, same break points, side '
             'tests are exact complements', floor=8)
    prog = run.prog
    reg = prog.func('t2thermo.region')
    facts = region_walk(prog, MOD, reg)
    # region 1 returns: box must equal cowat's bounds box, and side test complement of p >= sat(t)
    cow = prog.func('t2thermo.cowat')
    ifb, _ = _bounds_struct(cow)
    box_test = ifb.body[0].test if isinstance(ifb.body[0], ast.If) else None
    # whatever its shape, the range check must bound the temperature by 350 degC (region 1) somewhere
    t_upper = []
    for c in ast.walk(ast.Module(body=ifb.body, type_ignores=[])):
        if isinstance(c, ast.Compare):
            env_, _r = constraints(prog, MOD, c)
            if 't' in env_ and env_['t'].hi != float('inf'): t_upper.append(env_['t'].hi)
    if not t_upper or min(t_upper) > 350.0:
        run.violated('t2thermo.cowat :: temperature range limited to 350 degC',
                     'with bounds on, cowat compares t with %s only; its stated range (and region 1) ends at 350 degC, so states '
                     'between 350 degC and that limit get a value instead of none' % (sorted(set(t_upper)) or 'nothing'), where=cow.where(ifb))
        return
    run.ok('t2thermo.cowat :: temperature range limited to 350 degC', where=cow.where(ifb))
    if box_test is None: raise AnalysisError('cowat: box test not found')
    box, rest = constraints(prog, MOD, box_test)
    side = [v for p, v in _ok_assigns(ifb.body) if p and p[0][1] is True]
    side_txt = norm(side[0]) if side else None
    run.check(side_txt in ('p >= sat(t)', 'sat(t) <= p'), 't2thermo.cowat :: liquid side is p >= sat(t)',
              'liquid-side test is %s' % side_txt, where=cow.where(ifb))
    r1 = [f for f in facts if f[0] == 'return' and isinstance(f[1], ast.Constant) and f[1].value == 1]
    if not r1: run.unknown('t2thermo.region :: returns 1', 'no return of region 1 found', where=reg.where())
    for f in r1:
        _, val, env, cond, pol = f
        # region 1 box: t in [0.01, 350], p <= 1e8
        ok = True
        why = []
        for v in ('t', 'p'):
            b, e = box.get(v, Interval()), env.get(v, Interval())
            if v == 't' and not (b.lo == e.lo and b.hi == e.hi and b.lo_closed == e.lo_closed and b.hi_closed == e.hi_closed):
                ok = False; why.append('t: cowat %r vs region %r' % (b, e))
            if v == 'p' and not (b.hi == e.hi and b.hi_closed == e.hi_closed):
                ok = False; why.append('p: cowat %r vs region %r' % (b, e))
        run.check(ok, 't2thermo.region :: region 1 box equals cowat range', '; '.join(why), where=reg.where(val))
        # complement: region returns 1 in the else of `p < sat(t)`
        ctxt = norm(cond) if cond is not None else None
        good = (ctxt == 'p < sat(t)' and pol is False) or (ctxt == 'p >= sat(t)' and pol is True)
        run.check(good, 't2thermo.region :: region 1 iff not p < sat(t)',
                  'region 1 is returned under %s == %s, not the complement of the steam-side test' % (ctxt, pol),
                  where=reg.where(val))
    # supst branches vs region break points
    sup = prog.func('t2thermo.supst')
    ifb, _ = _bounds_struct(sup)
    leaves = _ok_assigns(ifb.body)
    sup_breaks = set()
    for p, v in leaves:
        for t, pol in p:
            env, rest = constraints(prog, MOD, t)
            for var, iv in env.items():
                if var == 't':
                    for x in (iv.lo, iv.hi):
                        if abs(x) != float('inf'): sup_breaks.add(x)
    reg_breaks = set()
    for f in facts:
        env = f[2]
        iv = env.get('t')
        if iv:
            for x in (iv.lo, iv.hi):
                if abs(x) != float('inf'): reg_breaks.add(x)
    tc1c = fold_num(prog, MOD, ast.Name(id='Tc1_C', ctx=ast.Load()))
    want = set([0.01, 800.0, 590.0, tc1c])
    run.check(want <= sup_breaks, 't2thermo.supst :: break points {0.01, Tc1_C, 590, 800}',
              'supst range branches use t break points %s' % sorted(sup_breaks), where=sup.where())
    run.check(want | set([350.0]) <= reg_breaks, 't2thermo.region :: break points {0.01, 350, Tc1_C, 590, 800}',
              'region uses t break points %s' % sorted(reg_breaks), where=reg.where())
    # supst side tests: p <= sat(t) below Tc1_C, p <= b23p(t) up to 590, p <= 1e8 above
    # (by temperature band, whatever order the branches are written in)
    ks = 't2thermo.supst :: side tests (sat, b23p, 100 MPa)'
    want_side = {tc1c: 'p <= sat(t)', 590.0: 'p <= b23p(t)', 800.0: 'p <= 100000000.0'}
    got, undecided = {}, []
    for path, v in leaves:
        if v is None or isinstance(v, ast.Constant): continue
        env_ = {}
        try:
            for t_, pol in path:
                if pol:
                    e2, _r = constraints(prog, MOD, t_, env_); env_ = e2
                else: env_ = negate_last(prog, MOD, t_, env_)
        except Exception:
            undecided.append(norm(v)); continue
        iv = env_.get('t')
        if iv is None or iv.hi == float('inf'): undecided.append(norm(v)); continue
        got[iv.hi] = norm(v)
    if undecided or set(got) != set(want_side):
        sides = [norm(v) for p, v in leaves if v is not None and not (isinstance(v, ast.Constant))]
        if sorted(sides) == sorted(want_side.values()) or undecided:
            run.unknown(ks, 'temperature bands of the side tests not resolved: %s %s' % (got, undecided), where=sup.where())
        else: run.violated(ks, 'side tests are %s' % sides, where=sup.where())
    elif got == want_side: run.ok(ks, got, where=sup.where())
    else:
        bad = [(hi, got[hi]) for hi in sorted(got) if got[hi] != want_side[hi]]
        run.violated(ks, 'up to t = %s the pressure limit tested is `%s`, expected `%s`' % (bad[0][0], bad[0][1], want_side[bad[0][0]]), where=sup.where())
    # sat / tsat ranges
    sat = prog.func('t2thermo.sat')
    ifb, _ = _bounds_struct(sat)
    v = [x for _, x in _ok_assigns(ifb.body)][0]
    run.check(v is not None and norm(v) == '0.01 <= t <= Tc1_C', 't2thermo.sat :: range 0.01 <= t <= Tc1_C',
              'sat range test is %s' % (norm(v) if v is not None else None), where=sat.where())
    ts = prog.func('t2thermo.tsat')
    ifb, _ = _bounds_struct(ts)
    v = [x for _, x in _ok_assigns(ifb.body)][0]
    run.check(v is not None and norm(v) == 'sat(0.01) <= p <= Pc1', 't2thermo.tsat :: range sat(0.01) <= p <= Pc1',
              'tsat range test is %s' % (norm(v) if v is not None else None), where=ts.where())
    # tsat really inverts sat: f(t) = sat(t) - p handed to the root finder
    txt = norm(ts.node)
    # the callback is whatever is handed to fsolve; its parameter may be unpacked (the solver passes a 1-element array)
    calls = [c for c in ast.walk(ts.node) if isinstance(c, ast.Call) and call_name(c) == 'fsolve' and c.args and isinstance(c.args[0], ast.Name)]
    fnest = run.prog.nested(ts, calls[0].args[0].id, required=False) if len(calls) == 1 else None
    if fnest is None:
        run.unknown('t2thermo.tsat :: root of sat(t) - p', 'root-finding idiom not recognised', where=ts.where())
    else:
        from ..formula import check_return
        a_ = fnest.params[0] if fnest.params else 't'
        P = ts.params[0]
        # the residual must be defined wherever the solver probes (its first probes lie above the critical temperature): sat() is called
        # with range checking off
        rets_ = [r for r in ast.walk(fnest.node) if isinstance(r, ast.Return) and r.value is not None]
        checked = [c for r in rets_ for c in ast.walk(r.value) if isinstance(c, ast.Call) and call_name(c) == 'sat' and
                   (len(c.args) > 1 or any(k.arg == 'bounds' for k in c.keywords))]
        on = [c for c in checked if not all(isinstance(x, ast.Constant) and x.value is False for x in (list(c.args[1:2]) + [k.value for k in c.keywords if k.arg == 'bounds']))]
        if on:
            run.violated('t2thermo.tsat :: root of sat(t) - p', 'the residual calls `%s`: with range checking on sat() returns None outside 0.01..Tc1_C, where the '
                         'root finder probes for pressures near the critical one, and `None - p` raises' % norm(on[0]), where=fnest.where(on[0]), robust=True)
        else:
            check_return(run, 't2thermo.tsat :: root of sat(t) - p', fnest, 'sat(%s) - %s' % (a_, P), 'tsat does not solve sat(t) - p = 0',
                         alternatives=('sat(%s[0]) - %s' % (a_, P), 'sat(%s.item()) - %s' % (a_, P)))


def rule_sibconst(run):
    run.rule('SIBCONST', 'literal break points shared by IAPWS97.region and t2thermo.region, and the critical '
             'constants used by the IFC-67 routines, are equal', floor=3)
    prog = run.prog
    a = _lits(prog.func('IAPWS97.region').node, prog)
    # fold with its own module
    a = set()
    for c in ast.walk(prog.func('IAPWS97.region').node):
        if isinstance(c, ast.Compare):
            for e in [c.left] + c.comparators:
                if not isinstance(e, ast.Call):
                    v = fold_num(prog, 'IAPWS97', e)
                    if v is not None: a.add(v)
    b = _lits(prog.func('t2thermo.region').node, prog)
    tc1c = fold_num(prog, MOD, ast.Name(id='Tc1_C', ctx=ast.Load()))
    run.check(a == b - set([tc1c]), 'region :: shared break points IAPWS97 vs t2thermo',
              'IAPWS97.region uses %s, t2thermo.region uses %s (besides Tc1_C)' % (sorted(a), sorted(b - set([tc1c]))),
              where='t2thermo.py (region)')
    # Tc1_C = Tc1 - tc_k ; literals 647.3 and 273.15 and 2.212e7 used inline must equal Tc1, tc_k, Pc1
    v, _ = prog.resolve_global(MOD, 'Tc1_C')
    if isinstance(v, ast.AST):
        r = compare(v, 'Tc1 - tc_k')
        kk = 't2thermo.Tc1_C :: Tc1 - tc_k'
        if r == 'equal': run.ok(kk)
        elif r == 'different': run.violated(kk, 'Tc1_C is `%s`, not Tc1 - tc_k' % norm(v), where='t2thermo.py')
        else: run.unknown(kk, 'Tc1_C is `%s`' % norm(v), where='t2thermo.py')
    Tc1 = fold_num(prog, MOD, ast.Name(id='Tc1', ctx=ast.Load()))
    tck = fold_num(prog, MOD, ast.Name(id='tc_k', ctx=ast.Load()))
    Pc1 = fold_num(prog, MOD, ast.Name(id='Pc1', ctx=ast.Load()))
    for fname in ('cowat', 'supst', 'sat'):
        fi = prog.func('t2thermo.' + fname)
        red = []
        for n in walk_no_nested(fi.node):
            # (t + 273.15) / 647.3 ; p / 2.212e7
            if isinstance(n, ast.BinOp) and isinstance(n.op, ast.Div):
                d = const_num(n.right)
                l = n.left
                if isinstance(l, ast.BinOp) and isinstance(l.op, ast.Add) and isinstance(l.left, ast.Name) and l.left.id == 't':
                    red.append(('T', const_num(l.right), d, n))
                elif isinstance(l, ast.Name) and l.id == 'p' and d is not None:
                    red.append(('P', None, d, n))
        for kind, off, d, n in red:
            if kind == 'T':
                run.check(off == tck and d == Tc1, 't2thermo.%s :: reduced temperature (t + tc_k)/Tc1' % fname,
                          'reduced temperature is %s, module constants are tc_k=%s Tc1=%s' % (norm(n), tck, Tc1), where=fi.where(n))
            else:
                run.check(d == Pc1, 't2thermo.%s :: reduced pressure p/Pc1' % fname,
                          'reduced pressure is %s, Pc1=%s' % (norm(n), Pc1), where=fi.where(n))


def rule_clamp(run):
    run.rule('CLAMP', 'separated_steam_fraction returns max(min(x, 1), 0) on every path', floor=1)
    fi = run.prog.func('t2thermo.separated_steam_fraction')
    rets = [n for n in walk_no_nested(fi.node) if isinstance(n, ast.Return)]
    if not rets: raise AnalysisError('no return in separated_steam_fraction')
    for i, r in enumerate(rets):
        v = r.value
        ok = False
        if isinstance(v, ast.Call) and call_name(v) in ('max', 'min') and len(v.args) == 2:
            outer = call_name(v)
            inner = [a for a in v.args if isinstance(a, ast.Call) and call_name(a) in ('max', 'min')]
            lim = [const_num(a) for a in v.args if const_num(a) is not None]
            if len(inner) == 1 and len(lim) == 1 and call_name(inner[0]) != outer and len(inner[0].args) == 2:
                lim2 = [const_num(a) for a in inner[0].args if const_num(a) is not None]
                if len(lim2) == 1:
                    lo = lim[0] if outer == 'max' else lim2[0]
                    hi = lim2[0] if outer == 'max' else lim[0]
                    ok = (lo == 0.0 and hi == 1.0)
        run.check(ok, 't2thermo.separated_steam_fraction :: return #%d clamped' % i,
                  'returns %s, which is not clamped to [0, 1]' % norm(v), where=fi.where(r))
    if any(n for n in ast.walk(fi.node) if isinstance(n, ast.FunctionDef) and n is not fi.node and
           any(isinstance(x, ast.Return) and False for x in ast.walk(n))):
        pass


def rule_solverarg(run):
    run.rule('SOLVERARG', 'tsat() inverts sat() with scipy.optimize.fsolve, which calls back with a 1-element array: the value must be '
             'unpacked before it reaches a math-module function (sat uses math.exp), or the inversion raises for every pressure', floor=1)
    from .arrsafe import solverarg_rule
    solverarg_rule(run, 't2thermo')
    run.trust('the installed NumPy version is read from the dist-info directory name under /venv/lib (nothing is imported)')


def rule_startdom(run):
    run.rule('STARTDOM', 'tsat() starts its root search for sat(t) = p at an estimate t0(p); over the whole pressure range of the saturation '
             'line the estimate lies where sat() returns a number (sat() returns None outside its evaluation limits, and the '
             'residual `sat(t) - p` then raises): decided by interval evaluation of t0 over the range', floor=1)
    from ..ivarith import IV, IVEval, Hazard
    from .. import roles
    prog = run.prog
    ts, sa = prog.func('t2thermo.tsat'), prog.func('t2thermo.sat')
    key = 't2thermo.tsat :: starting estimate inside the evaluation limits of sat'
    # the solver call and its start value
    calls = [c for c in ast.walk(ts.node) if isinstance(c, ast.Call) and call_name(c) in ('fsolve', 'brentq', 'newton', 'root') and len(c.args) >= 2]
    if len(calls) != 1:
        run.unknown(key, 'solver call not found', where=ts.where()); return
    start = calls[0].args[1]
    pname = ts.params[0]
    # pressure range: the chained comparison on the parameter in tsat's own range test
    phi = None
    for c in ast.walk(ts.node):
        if isinstance(c, ast.Compare) and len(c.ops) == 2 and isinstance(c.comparators[0], ast.Name) and c.comparators[0].id == pname \
           and all(isinstance(o, (ast.LtE, ast.Lt)) for o in c.ops):
            v = Folder(prog, MOD).fold(c.comparators[1])
            if isinstance(v, (int, float)) and not isinstance(v, bool): phi = float(v)
    if phi is None:
        run.unknown(key, 'upper pressure limit of tsat not found', where=ts.where()); return
    # evaluation limits of sat: the chained comparison on its parameter used directly as an `if` test
    tname = sa.params[0]
    lim = None
    for n in ast.walk(sa.node):
        if isinstance(n, ast.If):
            c = n.test
            if isinstance(c, ast.Compare) and len(c.ops) == 2 and isinstance(c.comparators[0], ast.Name) and c.comparators[0].id == tname \
               and all(isinstance(o, (ast.LtE, ast.Lt)) for o in c.ops):
                lo, hi = Folder(prog, MOD).fold(c.left), Folder(prog, MOD).fold(c.comparators[1])
                if all(isinstance(v, (int, float)) and not isinstance(v, bool) for v in (lo, hi)):
                    lim = (float(lo), float(hi)) if lim is None else (max(lim[0], float(lo)), min(lim[1], float(hi)))
    if lim is None:
        run.unknown(key, 'evaluation limits of sat not found', where=sa.where()); return
    # t0 over p in (0, phi]: inline the local definitions of the start value
    try:
        ev = IVEval(prog, MOD, {pname: IV(5e-324, phi)})
        env_defs = dict((nm, v) for nm, v, st in roles.assignments(ts.node))
        def expand(e, depth=0):
            if isinstance(e, ast.Name) and e.id in env_defs and e.id != pname and depth < 5: return expand(env_defs[e.id], depth + 1)
            return e
        class _Inl(ast.NodeTransformer):
            def visit_Name(self, n):
                if n.id in env_defs and n.id != pname: return self.visit(copy.deepcopy(env_defs[n.id]))
                return n
        import copy
        t0 = ev.ev(_Inl().visit(copy.deepcopy(expand(start))))
    except Hazard as h:
        run.unknown(key, 'start value: possible %s hazard in `%s`' % (h.kind, norm(h.node)), where=ts.where(calls[0])); return
    except AnalysisError as e:
        run.unknown(key, str(e), where=ts.where(calls[0])); return
    if lim[0] <= t0.lo and t0.hi <= lim[1]:
        run.ok(key, {'t0': repr(t0), 'sat_evaluates_on': lim, 'p_up_to': phi}, where=ts.where(calls[0]))
    else:
        # the enclosure of a monotone expression in one variable is attained at the end points: confirm with the point p = phi
        top = IVEval(prog, MOD, {pname: IV(phi)}).ev(_Inl().visit(copy.deepcopy(expand(start))))
        if top.lo > lim[1] or top.hi < lim[0]:
            run.violated(key, 'at p = %g the starting estimate is %s degC, outside [%g, %g] where sat() evaluates: the first residual is '
                         '`None - p` and tsat raises for the highest pressures of the saturation line' % (phi, top, lim[0], lim[1]),
                         where=ts.where(calls[0]), robust=True)
        else: run.unknown(key, 'start enclosure %s not inside %s' % (t0, lim), where=ts.where(calls[0]))


def rule_memo(run):
    run.rule('MEMO', 'a result remembered between calls (memo dictionary, caching decorator) is keyed by every parameter it depends on', floor=1)
    from .memo import memo_rule
    memo_rule(run, ['t2thermo'])


def check(run):
    run.guarded('MEMO', rule_memo)
    run.guarded('SOLVERARG', rule_solverarg)
    run.guarded('STARTDOM', rule_startdom)
    run.guarded('POWNAME', rule_powname)
    run.guarded('BOUNDS', rule_bounds)
    run.guarded('GUARD', rule_guard)
    run.guarded('SIBCONST', rule_sibconst)
    run.guarded('CLAMP', rule_clamp)
