"""SOLVERARG: what a root finder hands to its callback is an array.

scipy.optimize.fsolve(f, x0) calls f with a one-element ndarray.  The math-module functions (exp, log, sqrt, ... from
`math`) need a Python scalar; NumPy >= 2 refuses to convert a 1-element array (`only 0-dimensional arrays can be
converted to Python scalars`).  So on every path from the callback's parameter to a math.* call the value must have
been unpacked (x[0], x.item()).  Decided by a taint walk: the callback parameter is tainted, taint follows
assignments, arithmetic and calls into repository functions (the corresponding parameter), and is removed by
subscripting or .item()."""
import ast, os, re
from ..core import walk_no_nested, norm

MATH = ('exp', 'log', 'log10', 'sqrt', 'sin', 'cos', 'tan', 'atan', 'pow', 'floor', 'ceil', 'fabs')


def numpy_major(site='/venv/lib'):
    for root, dirs, files in os.walk(site):
        for d in dirs:
            m = re.match(r'numpy-(\d+)\.(\d+)[\w.]*\.dist-info$', d)
            if m: return int(m.group(1)), d
        if root.count(os.sep) - site.count(os.sep) > 3: dirs[:] = []
    return None, None


def math_names(mod):
    """local names bound to math-module functions in this module: {name: 'math.exp'}"""
    out = {}
    for st in mod.tree.body:
        if isinstance(st, ast.ImportFrom) and st.module == 'math':
            for a in st.names:
                if a.name in MATH: out[a.asname or a.name] = 'math.' + a.name
    return out


def tainted_math_calls(prog, fi_node, mod, tainted, depth=0, seen=None):
    """[(call node, function node, description)] math.* calls reached by a tainted value"""
    seen = seen if seen is not None else set()
    hits = []
    mnames = math_names(mod)
    t = set(tainted)

    def is_t(e):
        for x in ast.walk(e):
            if isinstance(x, ast.Name) and x.id in t:
                return True
        return False

    def untainted_form(e):
        # x[0] / x.item() / float(x[0]) : a scalar
        return (isinstance(e, ast.Subscript)) or (isinstance(e, ast.Call) and isinstance(e.func, ast.Attribute) and e.func.attr == 'item')
    for st in ast.walk(fi_node):
        if isinstance(st, ast.Assign) and len(st.targets) == 1 and isinstance(st.targets[0], ast.Name):
            if untainted_form(st.value): t.discard(st.targets[0].id)
            elif is_t(st.value): t.add(st.targets[0].id)
    for c in ast.walk(fi_node):
        if not isinstance(c, ast.Call): continue
        fname = c.func.id if isinstance(c.func, ast.Name) else (norm(c.func) if isinstance(c.func, ast.Attribute) else None)
        args_t = [i for i, a in enumerate(c.args) if is_t(a) and not untainted_form(a)]
        if not args_t: continue
        if (fname in mnames) or (fname and fname.startswith('math.') and fname[5:] in MATH):
            hits.append((c, fi_node, '%s(%s)' % (mnames.get(fname, fname), norm(c.args[0])[:40])))
        elif isinstance(c.func, ast.Name) and c.func.id in mod.functions and depth < 3:
            g = mod.functions[c.func.id]
            if (g.qual, tuple(args_t)) in seen: continue
            seen.add((g.qual, tuple(args_t)))
            params = [a.arg for a in g.node.args.args]
            sub = set(params[i] for i in args_t if i < len(params))
            for h in tainted_math_calls(prog, g.node, mod, sub, depth + 1, seen):
                hits.append((h[0], h[1], '%s -> %s' % (g.name, h[2])))
    return hits


def solverarg_rule(run, modname, rule='SOLVERARG'):
    prog = run.prog
    mod = prog.mod(modname)
    major, dist = numpy_major()
    n = 0
    for fi in mod.all_functions():
        for c in ast.walk(fi.node):
            if not (isinstance(c, ast.Call) and (isinstance(c.func, ast.Name) and c.func.id in ('fsolve', 'root', 'newton', 'brentq')) and c.args): continue
            n += 1
            cb = c.args[0]
            node = None
            if isinstance(cb, ast.Name):
                for d in ast.walk(fi.node):
                    if isinstance(d, ast.FunctionDef) and d.name == cb.id: node = d
                if node is None and cb.id in mod.functions: node = mod.functions[cb.id].node
            elif isinstance(cb, ast.Lambda): node = cb
            key = '%s :: callback of %s receives an array, math functions a scalar' % (fi.short, c.func.id)
            if node is None:
                run.unknown(key, 'callback `%s` not resolved' % norm(cb), where=fi.where(c), rule=rule); continue
            p0 = node.args.args[0].arg if node.args.args else None
            if c.func.id == 'brentq':       # brentq passes Python floats
                run.ok(key, 'brentq calls back with scalars', where=fi.where(c), rule=rule); continue
            hits = tainted_math_calls(prog, node, mod, set([p0]))
            if not hits: run.ok(key, 'no math-module call reached by the array argument', where=fi.where(c), rule=rule)
            elif major is None: run.unknown(key, 'installed NumPy version not found', where=fi.where(c), rule=rule)
            elif major < 2: run.ok(key, 'NumPy %s still converts 1-element arrays (deprecated): %s' % (dist, hits[0][2]), where=fi.where(c), rule=rule)
            else:
                run.violated(key, '%s hands its callback a 1-element array; through `%s` it reaches %s, and NumPy >= 2 (%s installed) raises '
                             'TypeError for that conversion: the routine fails for every input' % (c.func.id, norm(cb), hits[0][2], dist),
                             where=fi.where(c), rule=rule)
    return n
