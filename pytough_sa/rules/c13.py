"""C13 - t2incon round trip.  Rules RECSEQ, TERM, LAYPREFIX, FMAP, NAMEFIX, CHUNK, PAIR."""
import ast
from ..core import srcline, AnalysisError, norm, dotted, call_name, walk_no_nested, const_str, is_self_attr
from ..iomodel import layout_equiv
from ..layout import load_table, fields_of, layout
from ..fmap import reader_map, Sym
from ..formula import compare
from .. import flow, roles
from .io_common import recseq_pair, single_string_kinds
from .c01 import writer_field_syms, compare_maps
from .c08 import pair_rule

LEVEL = 'other'
EXPLANATION = (
    "Writer/reader agreement of t2incon files: (RECSEQ) the record tree write() emits - header, per block an "
    "incon1 / incon1_toughreact record and one or more incon2 lines, then either two blank lines or '+++' "
    "and a timing record - is included in what read() parses; (LAYPREFIX) the reader parses every block "
    "header with incon1_toughreact, of which incon1 is a layout prefix; the timing record kind is selected by "
    "the same predicate on both sides; (TERM) every path of the writer ends the block list with a blank "
    "line or '+++'; (FMAP/NAMEFIX) each header field is read into the t2blockincon attribute it is written "
    "from, block names fixed on the way in and un-fixed on the way out; (CHUNK) variables are written at "
    "most 4 per line = field count of incon2; (PAIR) _block/_blocklist change together. 13-decimal "
    "equality is not decided.")

C = 't2incons.t2incon.'


def rule_layprefix(run):
    run.rule('LAYPREFIX', 'layout(incon1) is a prefix of layout(incon1_toughreact), the kind the reader parses every '
             'block header with; the timing kind is chosen by the same predicate on both sides', floor=3)
    prog = run.prog
    tab = load_table(prog, 't2incons', 't2incon_format_specification')
    a, b = fields_of(tab['incon1']), fields_of(tab['incon1_toughreact'])
    la, lb = layout(a), layout(b)
    names_ok = [f.name for f in a] == [f.name for f in b][:len(a)]
    if lb[:len(la)] == la and names_ok: run.ok('t2incon_format_specification :: incon1 prefix of incon1_toughreact', {'prefix_fields': len(la)})
    else:
        run.violated('t2incon_format_specification :: incon1 prefix of incon1_toughreact',
                     'incon1 %s is not a prefix of incon1_toughreact %s: a TOUGH2 header line is parsed with the wrong columns' % (la, lb[:len(la)]),
                     where='t2incons.py (t2incon_format_specification)')
    rd = prog.func(C + 'read')
    kinds = [const_str(c.args[1]) for c in walk_no_nested(rd.node) if isinstance(c, ast.Call) and call_name(c) == 'parse_string' and len(c.args) == 2]
    hk = [k for k in kinds if k and k.startswith('incon1')]
    if not hk:
        run.unknown('t2incon.read :: block header parsed with incon1_toughreact', 'no parse of a block header record found in read() (moved into a helper?)', where=rd.where())
    else:
        run.check('incon1_toughreact' in kinds and 'incon1' not in kinds, 't2incon.read :: block header parsed with incon1_toughreact',
                  'block header lines are parsed with %s' % hk, where=rd.where())
    # timing selector: which record kind each side uses for the timing line, as a function of the simulator flavour.  The
    # statements that compute the kind argument are interpreted for both flavours (whatever their shape: += on a base name,
    # conditional expression, helper result)
    from ..consteval import Interp, Obj
    key = 't2incon :: timing kind selected by the same predicate'
    maps = {}
    for name, meth in (('read', 'parse_string'), ('write', 'write_value_line')):
        fi = prog.func(C + name)
        calls = [c for c in walk_no_nested(fi.node) if isinstance(c, ast.Call) and call_name(c) == meth and len(c.args) == 2 and
                 const_str(c.args[1]) not in ('incon1', 'incon1_toughreact')]
        if len(calls) != 1: continue
        K = calls[0].args[1]
        knames = set(x.id for x in ast.walk(K) if isinstance(x, ast.Name))
        # slice: statements (in document order) that bind one of those names, and the ifs that contain such statements
        def relevant(st):
            return any(isinstance(x, (ast.Assign, ast.AugAssign)) and any(isinstance(t, ast.Name) and t.id in knames for t in
                       (x.targets if isinstance(x, ast.Assign) else [x.target])) for x in ast.walk(st))
        changed = True
        while changed:
            changed = False
            for x in walk_no_nested(fi.node):
                if isinstance(x, ast.Assign) and any(isinstance(t, ast.Name) and t.id in knames for t in x.targets):
                    more = set(y.id for y in ast.walk(x.value) if isinstance(y, ast.Name)) - knames
                    if more: knames |= more; changed = True
                # control dependence: a local tested by an `if` that governs a relevant statement (a cached `self.simulator == ...`)
                if isinstance(x, ast.If) and relevant(x):
                    more = set(y.id for y in ast.walk(x.test) if isinstance(y, ast.Name)) - knames - set(['self', 'reset'])
                    more = set(nm for nm in more if any(isinstance(a, ast.Assign) and any(isinstance(t, ast.Name) and t.id == nm for t in a.targets)
                                                        and any(is_self_attr(z, 'simulator') for z in ast.walk(a.value)) for a in walk_no_nested(fi.node)))
                    if more: knames |= more; changed = True

        def slice_of(stmts):
            out = []
            for st in stmts:
                if isinstance(st, (ast.Assign, ast.AugAssign)) and relevant(st): out.append(st)
                elif isinstance(st, ast.If) and relevant(st):
                    out.append(ast.copy_location(ast.If(test=st.test, body=slice_of(st.body) or [ast.Pass()], orelse=slice_of(st.orelse)), st))
                elif isinstance(st, (ast.For, ast.While, ast.With, ast.Try)):
                    for f_ in ('body', 'orelse', 'finalbody'): out += slice_of(getattr(st, f_, []) or [])
            return out
        m = {}
        for flavour in ('TOUGHREACT', 'TOUGH2', '<any other>'):
            so = Obj(); so.attrs['simulator'] = flavour; so.attrs['timing'] = {'sumtim': 0.0}
            try:
                it = Interp({'self': so, 'reset': False})
                # only the slice under conditions on the flavour is interpreted; other guards (reset, timing present) are taken as true
                def run_slice(stmts):
                    for st in stmts:
                        if isinstance(st, ast.If):
                            if any(is_self_attr(x, 'simulator') for x in ast.walk(st.test)) or any(isinstance(x, ast.Name) and x.id in it.env for x in ast.walk(st.test)):
                                try: cond = it.expr(st.test)
                                except AnalysisError: cond = None
                                if cond is None: run_slice(st.body); run_slice(st.orelse)
                                else: run_slice(st.body if cond else st.orelse)
                            else: run_slice(st.body); run_slice(st.orelse)
                        else: it.stmt(st)
                run_slice(slice_of(fi.node.body))
                m[flavour] = it.expr(K)
            except AnalysisError as e:
                m = None; break
        if m is not None: maps[name] = (m, calls[0])
    want = {'TOUGHREACT': 'timing_toughreact', 'TOUGH2': 'timing'}
    if set(maps) != set(['read', 'write']):
        run.unknown(key, 'timing record kind not evaluable on %s' % sorted(set(['read', 'write']) - set(maps)))
    elif all(maps[s_][0].get(f_) == k_ for s_ in ('read', 'write') for f_, k_ in want.items()) and maps['read'][0] == maps['write'][0]:
        run.ok(key, maps['read'][0])
    elif all(maps[s_][0].get(f_) == k_ for s_ in ('read', 'write') for f_, k_ in want.items()):
        run.violated(key, 'for a simulator flavour other than the two known ones the reader uses %r but the writer %r: the two sides do not select the '
                     'timing layout by the same predicate' % (maps['read'][0].get('<any other>'), maps['write'][0].get('<any other>')),
                     where=prog.func(C + 'write').where(maps['write'][1]))
    else:
        side = 'read' if any(maps['read'][0].get(f_) != k_ for f_, k_ in want.items()) else 'write'
        run.violated(key, '%s() uses timing kind %s (by simulator flavour), expected %s: the timing line of one flavour is cut at the other\'s columns'
                     % (side, maps[side][0], want), where=prog.func(C + side).where(maps[side][1]))
    ta, tb = fields_of(tab['timing']), fields_of(tab['timing_toughreact'])
    run.check([f.name for f in ta] == [f.name for f in tb], 't2incon_format_specification :: timing twins have the same field names',
              'timing %s vs timing_toughreact %s' % ([f.name for f in ta], [f.name for f in tb]), where='t2incons.py')


def rule_recseq_term(run):
    prog = run.prog
    tab = load_table(prog, 't2incons', 't2incon_format_specification')
    equiv = layout_equiv([tab])
    # incon1 is accepted where incon1_toughreact is parsed (LAYPREFIX)
    equiv = dict(equiv); equiv['incon1'] = equiv['incon1_toughreact']
    drop = [equiv[k] for k in single_string_kinds(tab)] + [equiv['header_long']]
    rd, wr = prog.func(C + 'read'), prog.func(C + 'write')
    run.rule('RECSEQ', 'the record tree of write() is included in the record tree of read() (header line skipped by the reader)', floor=1)
    recseq_pair(run, 't2incon :: write vs read', prog, rd, 'infile', wr, 'outfile', equiv, drop, strip_opt=False)
    run.assume('the header line (header_short / header_long) is skipped unparsed by the reader',
               'more than 4 primary variables are read back only when num_variables is given (documented argument)')
    run.rule('TERM', "after the block list the writer emits, on every path, either a blank line or '+++' followed by a "
             'timing record', floor=1)

    class A(flow.Analysis):
        def transfer(self, st, s):
            if isinstance(st, (ast.FunctionDef, ast.ExceptHandler, ast.With)): return s
            for c in [x for x in [st] + list(walk_no_nested(st)) if isinstance(x, ast.Call)]:
                if isinstance(c.func, ast.Attribute) and dotted(c.func.value) == 'outfile':
                    if c.func.attr == 'write' and c.args:
                        lit = const_str(c.args[0])
                        if lit is not None and (lit.startswith('\n') or lit.startswith('+++')): s = 'T' if not lit.startswith('+++') else 'P'
                        else: s = 'W'
                    elif c.func.attr == 'write_value_line': s = 'T' if s == 'P' else 'W'
                    elif c.func.attr == 'write_values': s = 'W'
            return s
        def on_expr(self, e, s): return self.transfer(ast.Expr(value=e), s)
        def join(self, a, b): return a if a == b else ('W' if 'W' in (a, b) else ('P' if 'P' in (a, b) else a))
    out = flow.run(A(), wr.node.body, '0')
    exits = [(n, s) for n, s in out.rets if s is not None]
    if out.fall is not None: exits.append(('fall', out.fall))
    bad = [(n, s) for n, s in exits if s != 'T']
    if bad:
        run.violated('t2incon.write :: terminator', 'a path ends the file in state %s (W = records without terminator, P = +++ without '
                     'timing record): the reader loops until a blank line or +++' % bad[0][1], where=wr.where(None if bad[0][0] == 'fall' else bad[0][0]))
    else: run.ok('t2incon.write :: terminator', where=wr.where())
    # reader exits: blank line -> finished ; +++ -> timing
    txt = norm(rd.node)
    run.shape("if line.startswith('+++'): finished = True timing = True" in txt and 'else: finished = True' in txt,
              't2incon.read :: loop exits on blank line or +++', 'exit idiom not recognised', where=rd.where())
    # both sides use the same reset rule for the header / timing
    # the two decisions are found by what their branches write (header_short / header_long ; blank lines / '+++'), and
    # a condition held in a local (`omit = self.timing is None or reset`) is resolved to its definition
    def writes(stmts, pred):
        return any(isinstance(c, ast.Call) and pred(c) for st in stmts for c in ast.walk(st))
    def is_hdr(kind): return lambda c: call_name(c) == 'write_values' and len(c.args) > 1 and const_str(c.args[1]) == kind
    def is_lit(prefix): return lambda c: call_name(c) == 'write' and c.args and (const_str(c.args[0]) or '').startswith(prefix)
    ifs = [n for n in walk_no_nested(wr.node) if isinstance(n, ast.If)]
    hdr = [n for n in ifs if writes(n.body, is_hdr('header_short')) and writes(n.orelse, is_hdr('header_long'))]
    trm = [n for n in ifs if writes(n.body, is_lit('\n')) and writes(n.orelse, is_lit('+++'))]
    k_ = 't2incon.write :: header form and terminator chosen by the same condition'
    def resolved(t):
        if isinstance(t, ast.Name):
            d = [v for nm, v, st in roles.assignments(wr.node) if nm == t.id]
            if len(d) == 1: return d[0]
        return t
    if len(hdr) != 1 or len(trm) != 1:
        run.unknown(k_, 'the short/long header decision or the blank/+++ decision was not found (%d, %d)' % (len(hdr), len(trm)), where=wr.where())
    else:
        a_, b_ = resolved(hdr[0].test), resolved(trm[0].test)
        r = compare(a_, norm(b_))
        if r == 'equal': run.ok(k_, norm(a_), where=wr.where(trm[0]))
        elif r == 'different':
            run.violated(k_, 'the header is chosen by `%s` but the terminator by `%s`: a long header can be followed by blank lines or a short '
                         'one by a timing record' % (norm(a_), norm(b_)), where=wr.where(trm[0]))
        else: run.unknown(k_, 'conditions `%s` / `%s`' % (norm(a_), norm(b_)), where=wr.where(trm[0]))


def rule_fmap(run):
    run.rule('FMAP', 'each block-header field is read into the t2blockincon attribute it is written from', floor=7)
    run.rule_doc['NAMEFIX'] = 'block names are fixed on the read path and un-fixed on the write path'
    prog = run.prog
    tab = load_table(prog, 't2incons', 't2incon_format_specification')
    rd, wr = prog.func(C + 'read'), prog.func(C + 'write')
    flds = fields_of(tab['incon1_toughreact'])
    try:
        rmap, rnode, consumed = reader_map(prog, rd, 'incon1_toughreact', 't2blockincon', len(flds), unit_names=())
    except AnalysisError as e:
        run.unknown('t2incon incon1_toughreact', str(e), where=rd.where()); return
    for kind in ('incon1_toughreact', 'incon1'):
        f2 = fields_of(tab[kind])
        try:
            wsyms, wnode = writer_field_syms(prog, wr, kind, len(f2), unit_names=())
        except AnalysisError as e:
            run.unknown('t2incon %s' % kind, str(e), where=wr.where()); continue
        compare_maps(run, 't2incon %s' % kind, rmap, wsyms, f2, 't2blockincon', rd, wr, rnode, wnode)
    from .io_common import fix_dominates_rule
    if not fix_dominates_rule(run, rd, ('t2blockincon', 'add_incon')):
        run.unknown('t2incon.read :: block name fixed before the hand-over', 'no `X = fix_blockname(X)` re-binding found', where=rd.where(), rule='NAMEFIX')
    # variables: accumulated from incon2 lines into the first constructor argument, written from incon.variable
    ctor = [c for c in ast.walk(rd.node) if isinstance(c, ast.Call) and isinstance(c.func, ast.Name) and c.func.id == 't2blockincon']
    acc = [n for n in ast.walk(rd.node) if isinstance(n, ast.AugAssign) and isinstance(n.op, ast.Add) and norm(n.value) == 'linevals']
    lv = [n for n in ast.walk(rd.node) if isinstance(n, ast.Assign) and norm(n.targets[0]) == 'linevals']
    ok = ctor and acc and lv and norm(ctor[0].args[0]) == norm(acc[0].target) and norm(lv[0].value) == "infile.read_values('incon2')"
    run.shape(bool(ok), 't2incon.read :: variables accumulated from incon2 lines', 'idiom not recognised', where=rd.where())
    wv = [n for n in walk_no_nested(wr.node) if isinstance(n, ast.Assign) and norm(n.targets[0]) == 'vals']
    if wv:
        r = compare(wv[0].value, 'list(incon.variable)')
        run.check(r == 'equal', 't2incon.write :: variables written from incon.variable', 'vals = %s' % norm(wv[0].value), where=wr.where(wv[0]))
    # timing dictionary keys = spec names
    tm = [n for n in ast.walk(rd.node) if isinstance(n, ast.Assign) and norm(n.targets[0]) == 'self.timing' and isinstance(n.value, ast.Dict)]
    key = 't2incon timing :: dictionary keys are the spec names, bound to the fields in order'
    if tm:
        keys = [const_str(k) for k in tm[0].value.keys]
        vals = [norm(v) for v in tm[0].value.values]
        # the destructuring that binds those values: found by the names it binds, whatever the format argument is called
        des = [n for n in ast.walk(rd.node) if isinstance(n, ast.Assign) and isinstance(n.value, ast.Call) and call_name(n.value) == 'parse_string'
               and isinstance(n.targets[0], (ast.List, ast.Tuple)) and set(vals) <= set(norm(e) for e in n.targets[0].elts)]
        spec = list(tab['timing'][0])
        if len(des) != 1 or None in keys:
            run.unknown(key, 'destructuring of the timing record not found', where=rd.where(tm[0]))
        else:
            names = [norm(e) for e in des[0].targets[0].elts]
            # field i of the record is bound to names[i]; the dictionary must file it under spec[i]
            bound = dict(zip(names, spec[:len(names)]))
            wrong = [(k, v) for k, v in zip(keys, vals) if bound.get(v) != k]
            if sorted(keys) == sorted(spec) and not wrong and len(names) == len(spec): run.ok(key, keys)
            else: run.violated(key, 'spec names %s, record bound to %s, dictionary %s' % (spec, names, list(zip(keys, vals))), where=rd.where(tm[0]))
    else: run.unknown(key, 'timing dictionary not found', where=rd.where())


def rule_chunk(run):
    run.rule('CHUNK', 'variables are written at most K per line with K = field count of incon2', floor=1)
    prog = run.prog
    tab = load_table(prog, 't2incons', 't2incon_format_specification')
    nf = len(tab['incon2'][1])
    wr = prog.func(C + 'write')
    from .io_common import linecount_rule
    nlc = linecount_rule(run, wr, [tab], rule='CHUNK') + linecount_rule(run, prog.func(C + 'read'), [tab], rule='CHUNK')
    ll = [n for n in ast.walk(wr.node) if isinstance(n, ast.Assign) and norm(n.targets[0]) == 'linelen']
    key = 't2incon.write :: values per incon2 line'
    if len(ll) != 1:
        if nlc: return        # another chunking idiom, decided by the line-count rule above
        # stepped slices: for start in range(0, len(vals), K): write_values(vals[start: start + K], 'incon2')
        const = dict((nm, v.value) for nm, v, st in roles.assignments(wr.node) if isinstance(v, ast.Constant) and isinstance(v.value, int))
        def ival(e):
            if isinstance(e, ast.Constant) and isinstance(e.value, int): return e.value
            if isinstance(e, ast.Name): return const.get(e.id)
            return None
        for lp in [n for n in walk_no_nested(wr.node) if isinstance(n, ast.For) and isinstance(n.iter, ast.Call) and call_name(n.iter) == 'range' and len(n.iter.args) == 3]:
            wv = [c for c in ast.walk(lp) if isinstance(c, ast.Call) and call_name(c) == 'write_values' and len(c.args) == 2 and const_str(c.args[1]) == 'incon2']
            if not wv or not isinstance(lp.target, ast.Name): continue
            step = ival(lp.iter.args[2])
            sl = wv[0].args[0]
            width = None
            if isinstance(sl, ast.Subscript) and isinstance(sl.slice, ast.Slice) and sl.slice.lower is not None and sl.slice.upper is not None and \
               norm(sl.slice.lower) == lp.target.id and isinstance(sl.slice.upper, ast.BinOp) and isinstance(sl.slice.upper.op, ast.Add):
                u = sl.slice.upper
                for a_, b_ in ((u.left, u.right), (u.right, u.left)):
                    if norm(a_) == lp.target.id: width = ival(b_)
            if step is None or width is None:
                run.unknown(key, 'stepped-slice idiom with non-literal step / width', where=wr.where(lp)); return
            if step == width == nf and ival(lp.iter.args[0]) == 0: run.ok(key, {'per_line': nf, 'idiom': 'range(0, len, %d)' % nf}, where=wr.where(lp))
            else:
                run.violated(key, 'values are written in slices of %d taken every %d, but record incon2 has %d fields: values are dropped, repeated '
                             'or lines are short' % (width, step, nf), where=wr.where(lp))
            return
        run.unknown(key, 'linelen not found', where=wr.where()); return
    r = compare(ll[0].value, 'min(len(vals), %d)' % nf)
    if r == 'equal': run.ok(key, {'per_line': nf}, where=wr.where(ll[0]))
    else: run.violated(key, 'line length is `%s` but record incon2 has %d fields: values beyond the record are dropped by '
                       'write_values (zip) or lines are short' % (norm(ll[0].value), nf), where=wr.where(ll[0]))
    txt = norm(wr.node)
    run.shape("linevals = vals[:linelen] outfile.write_values(linevals, 'incon2') vals = vals[linelen:]" in txt,
              't2incon.write :: consumes the list front to back', 'idiom not recognised', where=wr.where())
    # the reader's own trimming of trailing None values (partially filled last line)
    rd = prog.func(C + 'read')
    run.shape('while linevals and linevals[-1] is None: linevals.pop()' in norm(rd.node),
              't2incon.read :: trailing blanks of the last line trimmed', 'idiom not recognised', where=rd.where())


def rule_nonetest(run):
    run.rule('NONETEST', 'real-valued fields read from a record are tested for absence with `is None`, never by truthiness '
             '(0.0 is a legal value)', floor=1)
    from .io_common import nonetest_rule
    prog = run.prog
    tab = load_table(prog, 't2incons', 't2incon_format_specification')
    nonetest_rule(run, prog.func(C + 'read'), [tab])


def rule_pair(run):
    pair_rule(run, ['t2incons'], set(['t2incon']), floor=4)


def rule_flavour(run):
    run.rule('FLAVOUR', 'read() learns the simulator flavour from the block records (a permeability triple makes the object TOUGHREACT): '
             'every decision it takes from self.simulator - the layout of the timing record - is taken after the statement that '
             'can set it, never from the flavour the object had before the file was read', floor=1)
    rd = run.prog.func(C + 'read')
    body = rd.node.body
    def loads(st): return [x for x in ast.walk(st) if is_self_attr(x, 'simulator') and isinstance(x.ctx, ast.Load)]
    def stores(st): return [x for x in ast.walk(st) if is_self_attr(x, 'simulator') and isinstance(x.ctx, ast.Store)]
    setters = [i for i, st in enumerate(body) if stores(st)]
    key = 't2incon.read :: flavour consulted only after the block records set it'
    if not setters:
        run.unknown(key, 'read() never assigns self.simulator', where=rd.where()); return
    last = max(setters)
    early = [x for st in body[:last] for x in loads(st)]
    # inside the setting statement itself, a read that textually precedes the first store
    first_store = min(x.lineno for x in stores(body[last]))
    early += [x for x in loads(body[last]) if x.lineno < first_store]
    late = [x for st in body[last + 1:] for x in loads(st)]
    if early:
        run.violated(key, 'self.simulator is read at line %d, before the loop over the block records (line %d) that sets it: the timing '
                     'record of a TOUGHREACT file read into a fresh object is parsed with the TOUGH2 columns' % (srcline(early[0]), srcline(body[last])),
                     where=rd.where(early[0]))
    else:
        run.ok(key, {'reads after': len(late)}, where=rd.where(body[last]))


def rule_pure(run):
    run.rule('PURE', 'a write_* method does not modify the model: no store through an un-copied attribute dictionary '
             '(x.__dict__ / vars(x)), no attribute assignment on an element of one of the model\'s lists', floor=1)
    from .purewrite import pure_rule
    cls = run.prog.cls('t2incons', 't2incon')
    pure_rule(run, [fi for name, fi in sorted(cls.methods.items()) if name.startswith('write')])


def rule_memo(run):
    run.rule('MEMO', 'a result remembered between calls (memo dictionary, caching decorator) is keyed by every parameter it depends on', floor=1)
    from .memo import memo_rule
    memo_rule(run, ['t2incons'])


def check(run):
    run.guarded('MEMO', rule_memo)
    run.guarded('FLAVOUR', rule_flavour)
    run.guarded('PURE', rule_pure)
    run.guarded('LAYPREFIX', rule_layprefix)
    run.guarded('RECSEQ', rule_recseq_term)
    run.guarded('FMAP', rule_fmap)
    run.guarded('CHUNK', rule_chunk)
    run.guarded('NONETEST', rule_nonetest)
    run.guarded('PAIR', rule_pair)
