"""C16 - Fortran readers never raise.  Rules EXC, WHOCALL."""
import ast
from ..core import argof, AnalysisError, norm, dotted, call_name, walk_no_nested, const_str

LEVEL = 'other'
EXPLANATION = (
    "Exception-escape analysis of fixed_format_file.fortran_float and fortran_int for a str "
    "argument: a may-raise set is computed for every expression from a table of Python "
    "primitives (float(str)/int(str) -> ValueError, s[0] -> IndexError unless s is proved "
    "non-empty, str methods and slicing -> nothing) and propagated through try/except with "
    "exact Python semantics (an exception raised in an except body is not seen by sibling "
    "handlers). The escape set at function exit must be empty. WHOCALL checks that listing "
    "cells, header time/step and t2incon values are converted by these readers and that no bare "
    "float()/int() is applied to file text outside a try that handles ValueError. The numeric "
    "value returned for each rendering style is not decided, except the structural NORMFLOW clause: every fallback "
    "conversion sees the fully normalised text and the two sign fallbacks have the same shape.")

ALL = '*'
HIER = {   # exception -> ancestors
    'ValueError': ['Exception'], 'IndexError': ['LookupError', 'Exception'],
    'KeyError': ['LookupError', 'Exception'], 'TypeError': ['Exception'],
    'ZeroDivisionError': ['ArithmeticError', 'Exception'], 'OverflowError': ['ArithmeticError', 'Exception'],
    'AttributeError': ['Exception'], 'Exception': [], 'NameError': ['Exception'],
    'UnicodeError': ['ValueError', 'Exception'],
}

# abstract string states
ANY, STRIPPED, NS = 'str', 'stripped', 'stripped-nonempty'
FLOATV = 'float'          # a float that may be nan or infinite (what fortran_float returns)


def caught_by(exc, handler_type):
    if handler_type is None: return True
    names = []
    if isinstance(handler_type, ast.Name): names = [handler_type.id]
    elif isinstance(handler_type, ast.Tuple):
        names = [e.id for e in handler_type.elts if isinstance(e, ast.Name)]
    else:
        raise AnalysisError('handler type %s not modelled' % norm(handler_type))
    for n in names:
        if n in ('Exception', 'BaseException'): return True
        if n == exc or n in HIER.get(exc, []): return True
    return False


class ExcAnalysis(object):
    def __init__(self, finfo, strparams):
        self.f = finfo
        self.strparams = strparams
        self.notes = []

    # ---- expressions: returns (raises set, abstract string state or None)
    def expr(self, e, env):
        if isinstance(e, ast.Constant):
            if isinstance(e.value, str):
                return set(), (NS if e.value.strip() == e.value and e.value else ANY)
            return set(), None
        if isinstance(e, ast.Name):
            return set(), env.get(e.id)
        if isinstance(e, ast.List) or isinstance(e, ast.Tuple):
            r = set()
            for x in e.elts: r |= self.expr(x, env)[0]
            return r, None
        if isinstance(e, ast.Subscript):
            r, st = self.expr(e.value, env)
            if st is None and not isinstance(e.value, ast.Name):
                raise AnalysisError('subscript of non-string %s not modelled' % norm(e))
            if st is None:
                raise AnalysisError('subscript of %s whose type is not known to be str' % norm(e.value))
            if isinstance(e.slice, ast.Slice):
                for p in (e.slice.lower, e.slice.upper, e.slice.step):
                    if p is not None and not isinstance(p, ast.Constant):
                        if not (isinstance(p, ast.UnaryOp) and isinstance(p.operand, ast.Constant)):
                            raise AnalysisError('slice bound %s not modelled' % norm(p))
                return r, ANY          # slicing a str never raises
            if isinstance(e.slice, ast.Constant) and e.slice.value in (0, -1):
                if st == NS: return r, ANY
                return r | {'IndexError'}, ANY
            return r | {'IndexError'}, ANY
        if isinstance(e, ast.Call):
            return self.call(e, env)
        if isinstance(e, ast.UnaryOp) and isinstance(e.op, ast.Not):
            return self.expr(e.operand, env)[0], None
        if isinstance(e, ast.BoolOp):
            r = set()
            for v in e.values: r |= self.expr(v, env)[0]
            return r, None
        raise AnalysisError('expression %s not in the may-raise model' % norm(e))

    def call(self, c, env):
        r = set()
        if c.keywords:
            raise AnalysisError('keyword call %s not modelled' % norm(c))
        f = c.func
        if isinstance(f, ast.Name) and f.id in ('fortran_float', 'fortran_int') and f.id != self.f.name and len(c.args) >= 1 and getattr(self, 'prog', None):
            # the sibling reader, summarised by its own escape set; fortran_float yields a float that may be nan or infinite
            ra, st = self.expr(c.args[0], env)
            if st is None: raise AnalysisError('%s() of a non-string value %s' % (f.id, norm(c.args[0])))
            sub = ExcAnalysis(self.prog.func('fixed_format_file.' + f.id), ['s']); sub.prog = None
            esc, _f = sub.run()
            return ra | esc, (FLOATV if f.id == 'fortran_float' else None)
        if isinstance(f, ast.Name) and f.id in ('float', 'int') and len(c.args) == 1:
            ra, st = self.expr(c.args[0], env)
            if st == FLOATV:
                # int(nan) raises ValueError, int(inf) OverflowError; float(float) does not raise
                return ra | (set(['ValueError', 'OverflowError']) if f.id == 'int' else set()), (FLOATV if f.id == 'float' else None)
            if st is None:
                raise AnalysisError('%s() of a non-string value %s' % (f.id, norm(c.args[0])))
            return ra | {'ValueError'}, None
        if isinstance(f, ast.Attribute):
            ro, st = self.expr(f.value, env)
            if st is None:
                raise AnalysisError('method call on non-string %s' % norm(c))
            r |= ro
            args = []
            for a in c.args:
                ra, sa = self.expr(a, env)
                r |= ra
                args.append(a)
            m = f.attr
            if m in ('strip', 'lstrip', 'rstrip') and not args:
                return r, STRIPPED if m == 'strip' else ANY
            if m in ('lower', 'upper') and not args:
                return r, st
            if m == 'replace' and len(args) == 2 and all(const_str(a) is not None for a in args):
                a, b = const_str(args[0]), const_str(args[1])
                if st == NS:
                    # first/last characters are not whitespace: removing blanks keeps them;
                    # replacing by a non-empty non-blank literal keeps the string non-empty
                    if (b == '' and a.strip() == '') or (b != '' and b.strip() == b):
                        return r, NS
                return r, ANY
            if m == 'join' and len(args) == 1:
                return r, ANY
            raise AnalysisError('str method .%s not in the may-raise model' % m)
        raise AnalysisError('call %s not in the may-raise model' % norm(c))

    # ---- statements: returns (escaping set, env_out or None if no fall-through)
    def block(self, stmts, env):
        esc = set()
        for st in stmts:
            if env is None: break
            e, env = self.stmt(st, env)
            esc |= e
        return esc, env

    def stmt(self, st, env):
        if isinstance(st, ast.Expr) and isinstance(st.value, ast.Constant):
            return set(), env
        if isinstance(st, ast.Return):
            r = self.expr(st.value, env)[0] if st.value is not None else set()
            return r, None
        if isinstance(st, ast.Assign) and len(st.targets) == 1 and isinstance(st.targets[0], ast.Name):
            r, s = self.expr(st.value, env)
            env2 = dict(env); env2[st.targets[0].id] = s
            return r, env2
        if isinstance(st, ast.Expr):
            return self.expr(st.value, env)[0], env
        if isinstance(st, ast.If):
            r = self.expr(st.test, env)[0]
            et, ef = dict(env), dict(env)
            t = st.test
            # `if not s:` / `if s:` on a stripped string
            neg = isinstance(t, ast.UnaryOp) and isinstance(t.op, ast.Not)
            v = t.operand if neg else t
            if isinstance(v, ast.Name) and env.get(v.id) in (STRIPPED, NS):
                (ef if neg else et)[v.id] = NS
            r1, e1 = self.block(st.body, et)
            r2, e2 = self.block(st.orelse, ef)
            out = None
            if e1 is not None and e2 is not None:
                out = dict((k, e1[k] if e1.get(k) == e2.get(k) else
                            (ANY if e1.get(k) and e2.get(k) else None)) for k in set(e1) | set(e2))
            else:
                out = e1 if e1 is not None else e2
            return r | r1 | r2, out
        if isinstance(st, ast.Try):
            if st.finalbody:
                raise AnalysisError('try/finally not modelled')
            rb, eb = self.block(st.body, env)
            # environment at handler entry: assignments in the body may or may not have happened
            henv = dict(env)
            for n in ast.walk(ast.Module(body=st.body, type_ignores=[])):
                if isinstance(n, ast.Assign):
                    for t in n.targets:
                        if isinstance(t, ast.Name):
                            # value after assignment (approximated by evaluating in env) joined with before
                            try:
                                _, s_after = self.expr(n.value, henv)
                            except AnalysisError:
                                s_after = None
                            before = henv.get(t.id)
                            henv[t.id] = before if before == s_after else (ANY if before and s_after else None)
            escaping = set()
            remaining = set(rb)
            fall_envs = [eb] if eb is not None else []
            if st.orelse and eb is not None:
                ro, eo = self.block(st.orelse, eb)
                escaping |= ro
                fall_envs = [eo] if eo is not None else []
            for h in st.handlers:
                caught = set(x for x in remaining if caught_by(x, h.type))
                remaining -= caught
                # the handler body is analysed even if nothing modelled reaches it
                rh, eh = self.block(h.body, dict(henv))
                if caught or h.type is None:
                    escaping |= rh
                    if eh is not None: fall_envs.append(eh)
            escaping |= remaining
            out = None
            for e in fall_envs:
                out = e if out is None else dict((k, out[k] if out.get(k) == e.get(k) else
                                                   (ANY if out.get(k) and e.get(k) else None))
                                                  for k in set(out) | set(e))
            return escaping, out
        if isinstance(st, ast.Pass):
            return set(), env
        raise AnalysisError('statement %s not in the may-raise model' % type(st).__name__)

    def run(self):
        env = dict((p, ANY) for p in self.strparams)
        for p in self.f.params:
            env.setdefault(p, None)
        esc, env_out = self.block(self.f.node.body, env)
        return esc, env_out is not None


def rule_exc(run):
    run.rule('EXC', 'no exception can escape fortran_float / fortran_int for any str argument '
             '(may-raise sets propagated through try/except with exact semantics)', floor=2)
    prog = run.prog
    for name in ('fortran_float', 'fortran_int'):
        fi = prog.func('fixed_format_file.' + name)
        an = ExcAnalysis(fi, ['s']); an.prog = prog
        if 's' not in fi.params:
            raise AnalysisError('%s has no parameter s' % name)
        esc, falls = an.run()
        key = 'fixed_format_file.%s :: escape-set' % name
        if esc:
            run.violated(key, 'exceptions %s can escape for some str argument' % sorted(esc), where=fi.where())
        else:
            run.ok(key, {'escape_set': [], 'implicit_return_None_path': falls}, where=fi.where())
        # every try in the function is counted as analysed
        run.count('try_statements', sum(1 for n in ast.walk(fi.node) if isinstance(n, ast.Try)))
    run.trust("float(str) and int(str) raise only ValueError; str.strip/lower/replace/join and slicing never raise; "
              "s[0] raises IndexError only for the empty string; a stripped non-empty string stays non-empty under "
              "lower(), replace(<blank>, '') and replace(x, <non-blank non-empty literal>)")
    run.assume("the argument is a str (the property quantifies over text)")


TRANSFORMS = {'strip': 'strip', 'lower': 'lower'}


def _chain_transforms(e, env):
    """transforms applied to the text an expression denotes: (set of transforms) or None if not derived from the text"""
    if isinstance(e, ast.Name):
        return env.get(e.id)
    if isinstance(e, ast.Call) and isinstance(e.func, ast.Attribute) and e.func.attr == 'join' and len(e.args) == 1 \
       and isinstance(e.args[0], (ast.List, ast.Tuple)):
        parts = [_chain_transforms(x, env) for x in e.args[0].elts]
        parts = [p for p in parts if p is not None]
        if not parts: return None
        out = set(parts[0])
        for p in parts[1:]: out &= p
        return out
    if isinstance(e, ast.Call) and isinstance(e.func, ast.Attribute):
        base = _chain_transforms(e.func.value, env)
        if base is None: return None
        m = e.func.attr
        if m == 'strip' and not e.args: return base | set(['strip'])
        if m == 'lower' and not e.args: return base | set(['lower'])
        if m == 'replace' and len(e.args) == 2 and all(const_str(a) is not None for a in e.args):
            a, b = const_str(e.args[0]), const_str(e.args[1])
            if a.lower() == 'd' and b.lower() == 'e': return base | set(['d2e'])
            if a == ' ' and b == '': return base | set(['noblank'])
            return base
        if m == 'join' and len(e.args) == 1 and isinstance(e.args[0], (ast.List, ast.Tuple)):
            parts = [_chain_transforms(x, env) for x in e.args[0].elts]
            parts = [p for p in parts if p is not None]
            if not parts: return None
            out = set(parts[0])
            for p in parts[1:]: out &= p
            return out
        return base
    if isinstance(e, ast.Subscript):
        return _chain_transforms(e.value, env)
    if isinstance(e, ast.Call) and isinstance(e.func, ast.Attribute) is False:
        return None
    return None


def rule_normflow(run):
    run.rule('NORMFLOW', 'every conversion attempt after the first sees the text stripped, lower-cased, with d->e and '
             'embedded blanks removed; the two exponent re-insertion fallbacks are siblings of one shape', floor=3)
    prog = run.prog
    need = {'fortran_float': set(['strip', 'lower', 'd2e', 'noblank']), 'fortran_int': set(['strip', 'noblank'])}
    for name in ('fortran_float', 'fortran_int'):
        fi = prog.func('fixed_format_file.' + name)
        attempts = []      # (call node, transforms)

        def cannot_raise(st):
            # assignments from str methods on the text
            if isinstance(st, ast.Assign):
                return not any(isinstance(c, ast.Call) and isinstance(c.func, ast.Name) for c in ast.walk(st.value))
            return False

        def walk(stmts, env, depth):
            """returns env after the block (None if it always leaves); records conversion attempts"""
            for st in stmts:
                if isinstance(st, ast.Try):
                    before_raising = []
                    e2 = dict(env)
                    for b in st.body:
                        if not cannot_raise(b): before_raising.append(dict(e2))
                        r = walk([b], e2, depth)
                        if r is None: break
                        e2 = r
                    # handler entry: the text as it is before any statement of the body that can raise
                    henv = None
                    for x in before_raising:
                        henv = x if henv is None else dict((k, (henv[k] & x[k]) if henv.get(k) is not None and x.get(k) is not None else None)
                                                           for k in set(henv) | set(x))
                    henv = henv if henv is not None else dict(env)
                    for h in st.handlers: walk(h.body, dict(henv), depth + 1)
                    env = e2
                    continue
                if isinstance(st, ast.If):
                    walk(st.body, dict(env), depth); r = walk(st.orelse, dict(env), depth)
                    continue
                for c in ast.walk(st):
                    if isinstance(c, ast.Call) and isinstance(c.func, ast.Name) and c.func.id in ('float', 'int') and c.args:
                        attempts.append((c, _chain_transforms(c.args[0], env), depth))
                if isinstance(st, ast.Assign) and isinstance(st.targets[0], ast.Name):
                    t = _chain_transforms(st.value, env)
                    env = dict(env); env[st.targets[0].id] = t
                if isinstance(st, ast.Return): return None
            return env
        walk(fi.node.body, {'s': set()}, 0)
        if len(attempts) < 2:
            run.unknown('fixed_format_file.%s :: conversion attempts' % name, 'only %d attempts found' % len(attempts), where=fi.where()); continue
        for i, (c, t, depth) in enumerate(attempts[1:], 1):
            key = 'fixed_format_file.%s :: attempt #%d %s' % (name, i + 1, norm(c)[:60])
            if t is None:
                run.unknown(key, 'argument is not derived from the text', where=fi.where(c)); continue
            missing = sorted(need[name] - t)
            if missing:
                run.violated(key, 'this fallback converts text that has not been through %s: a field combining an embedded blank '
                             '(or D exponent / upper case) with the form this fallback repairs reads as not-a-number' % missing, where=fi.where(c))
            else: run.ok(key, sorted(t), where=fi.where(c))
    # sibling shape of the two exponent re-insertion fallbacks
    fi = prog.func('fixed_format_file.fortran_float')
    sib = []
    for c in ast.walk(fi.node):
        if isinstance(c, ast.Call) and call_name(c) == 'replace' and len(c.args) == 2 and const_str(c.args[0]) in ('-', '+'):
            sib.append(c)
    key = 'fixed_format_file.fortran_float :: sign fallbacks protect the leading sign alike'
    if len(sib) != 2:
        run.unknown(key, '%d sign-replacing fallbacks found (2 expected)' % len(sib), where=fi.where()); return

    from .. import roles
    def protects(c):
        # the replace applies to s[1:] and the result is re-joined with s[0]  (s[1:] may be held in a local: `first, rest = s[0], s[1:]`)
        v = roles.inline_locals(c.func.value, fi.node.body)
        return isinstance(v, ast.Subscript) and isinstance(v.slice, ast.Slice) and v.slice.lower is not None and \
            isinstance(v.slice.lower, ast.Constant) and v.slice.lower.value == 1 and v.slice.upper is None
    p = [protects(c) for c in sib]
    if p[0] == p[1] == True: run.ok(key, where=fi.where(sib[0]))
    elif p[0] != p[1]:
        bad = sib[p.index(False)]
        run.violated(key, 'the %r fallback rewrites the whole text (`%s`) while its sibling leaves the first character alone: a mantissa '
                     'with an explicit leading %r is turned into an exponent marker and reads as not-a-number'
                     % (const_str(bad.args[0]), norm(bad), const_str(bad.args[0])), where=fi.where(bad))
    else:
        run.violated(key, 'neither sign fallback protects the first character: `%s`' % norm(sib[0]), where=fi.where(sib[0]))
    # and they insert an exponent marker
    for c in sib:
        a, b = const_str(c.args[0]), const_str(c.args[1])
        good = b is not None and b.lower().startswith('e') and (b[1:] in ('', a))
        run.check(good, 'fixed_format_file.fortran_float :: %r fallback inserts an exponent marker' % a,
                  'replaces %r by %r' % (a, b), where=fi.where(c))


def _is_fortran_partial(prog, modname, name, target):
    """name = partial(<target>, blank_value = None)"""
    v, w = prog.resolve_global(modname, name)
    return isinstance(v, ast.Call) and call_name(v) == 'partial' and v.args and \
        isinstance(v.args[0], ast.Name) and v.args[0].id == target


def rule_whocall(run):
    run.rule('WHOCALL', 'listing cells, header time/step and t2incon values are converted by the Fortran '
             'readers; no bare float()/int() on file text outside a try handling ValueError', floor=8)
    prog = run.prog
    fm = prog.mod('fixed_format_file')
    # 1. fortran_read_function is built from the fortran readers, per type letter
    v, _ = prog.resolve_global('fixed_format_file', 'fortran_read_function')
    ok = isinstance(v, ast.Call) and call_name(v) == 'read_function_dict' and len(v.args) >= 2 and \
        isinstance(v.args[0], ast.Name) and isinstance(v.args[1], ast.Name) and \
        _is_fortran_partial(prog, 'fixed_format_file', v.args[0].id, 'fortran_float') and \
        _is_fortran_partial(prog, 'fixed_format_file', v.args[1].id, 'fortran_int')
    run.check(ok, 'fixed_format_file.fortran_read_function :: built from fortran_float/fortran_int',
              'fortran_read_function is not read_function_dict(partial(fortran_float..), partial(fortran_int..))',
              where='fixed_format_file.py')
    rfd = prog.func('fixed_format_file.read_function_dict')
    # result = {'s': strfn, 'x': spacefn, 'd': intfn}; for typ in ['f','e','g']: result[typ] = floatfn
    params = rfd.params
    mapping = {}
    for n in walk_no_nested(rfd.node):
        if isinstance(n, (ast.Assign, ast.Return)) and isinstance(n.value, ast.Dict):
            for k, val in zip(n.value.keys, n.value.values):
                if k is not None and const_str(k) and isinstance(val, ast.Name): mapping[const_str(k)] = val.id
        if isinstance(n, ast.Assign) and len(n.targets) == 1 and isinstance(n.targets[0], ast.Subscript) and const_str(n.targets[0].slice) \
           and isinstance(n.value, ast.Name):
            mapping[const_str(n.targets[0].slice)] = n.value.id         # (a loop over a literal list arrives unrolled: N10)
        if isinstance(n, ast.For) and isinstance(n.iter, (ast.List, ast.Tuple)):
            for st in n.body:
                if isinstance(st, ast.Assign) and isinstance(st.targets[0], ast.Subscript) and \
                   isinstance(st.value, ast.Name):
                    for e in n.iter.elts:
                        if const_str(e): mapping[const_str(e)] = st.value.id
    for typ in ('e', 'f', 'g'):
        k_ = 'fixed_format_file.read_function_dict :: type %s -> float reader' % typ
        if typ not in mapping: run.unknown(k_, 'no entry for this type recognised in the conversion dictionary', where=rfd.where())
        else: run.check(len(params) > 0 and mapping.get(typ) == params[0], k_,
                        "format type %r is mapped to `%s`, not to the float reader parameter" % (typ, mapping.get(typ)), where=rfd.where())
    k_ = 'fixed_format_file.read_function_dict :: type d -> int reader'
    if 'd' not in mapping: run.unknown(k_, 'no entry for this type recognised in the conversion dictionary', where=rfd.where())
    else: run.check(len(params) > 1 and mapping.get('d') == params[1], k_,
                    "format type 'd' is mapped to `%s`, not to the int reader parameter" % mapping.get('d'), where=rfd.where())
    # 2. defaults of the t2incon parser / class
    for qual in ('t2incons.t2incon_parser.__init__', 't2incons.t2incon.__init__'):
        fi = prog.func(qual)
        a = fi.node.args
        names = [x.arg for x in a.args]
        dflt = dict(zip(names[len(names) - len(a.defaults):], a.defaults))
        d = dflt.get('read_function')
        run.check(isinstance(d, ast.Name) and d.id == 'fortran_read_function',
                  '%s :: default read_function' % fi.short,
                  'default read_function is %s, not fortran_read_function' % (norm(d) if d is not None else None),
                  where=fi.where())
    # parser passes it on; t2incon.read passes self.read_function
    rd = prog.func('t2incons.t2incon.read')
    okp = False
    for c in walk_no_nested(rd.node):
        if isinstance(c, ast.Call) and call_name(c) == 't2incon_parser':
            a_ = argof(c, 'read_function')
            if a_ is not None and dotted(a_) == 'self.read_function': okp = True
    run.check(okp, 't2incon.read :: parser gets self.read_function',
              't2incon.read does not construct its parser with read_function = self.read_function', where=rd.where())
    # 3. listing cells
    for qual, what in (('t2listing.t2listing.read_table_line_AUTOUGH2', 'cell'),
                       ('t2listing.t2listing.read_table_line_TOUGH2', 'cell')):
        fi = prog.func(qual)
        comps = [n for n in walk_no_nested(fi.node) if isinstance(n, ast.ListComp)]
        good = any(isinstance(c.elt, ast.Call) and call_name(c.elt) == 'fortran_float' for c in comps)
        run.check(good, '%s :: cells via fortran_float' % fi.short,
                  'table cells are not converted with fortran_float', where=fi.where())
    for qual in ('t2listing.t2listing.read_header_AUTOUGH2', 't2listing.t2listing.read_header_TOUGH2'):
        fi = prog.func(qual)
        t = s = False
        for n in walk_no_nested(fi.node):
            if isinstance(n, ast.Assign):
                tg = n.targets[0]
                pairs = []
                if isinstance(tg, ast.Tuple) and isinstance(n.value, ast.Tuple):
                    pairs = list(zip(tg.elts, n.value.elts))
                else:
                    pairs = [(tg, n.value)]
                for a, b in pairs:
                    if dotted(a) == 'self._time' and isinstance(b, ast.Call) and call_name(b) == 'fortran_float': t = True
                    if dotted(a) == 'self._step' and isinstance(b, ast.Call) and call_name(b) == 'fortran_int': s = True
        run.check(t and s, '%s :: time/step via fortran readers' % fi.short,
                  'header time/step not read with fortran_float/fortran_int', where=fi.where())
    # 4. no bare float()/int() applied to text taken from a file line, outside try/except ValueError
    nbare = 0
    for modname in ('t2listing', 't2incons'):
        m = prog.mod(modname)
        for fi in m.all_functions():
            # scope: the listing reader proper and the incon reader (not the tecplot/history helpers)
            if modname == 't2listing' and (fi.cls is None or fi.cls.name not in ('t2listing', 'listingtable')):
                continue

            # file text: results of readline(), parameters called line/headerline, and anything
            # sliced / stripped / split / iterated from those (intra-procedural taint, to fixpoint)
            tainted = set(p for p in fi.params if p in ('line', 'headerline', 'headline'))
            changed = True
            while changed:
                changed = False
                for n in ast.walk(fi.node):
                    tgt, val = None, None
                    if isinstance(n, ast.Assign): tgt, val = n.targets, n.value
                    elif isinstance(n, (ast.For, ast.comprehension)): tgt, val = [n.target], n.iter
                    if tgt is None: continue
                    src = any((isinstance(x, ast.Name) and x.id in tainted) or
                              (isinstance(x, ast.Call) and call_name(x) == 'readline') for x in ast.walk(val))
                    if src:
                        for t in tgt:
                            for x in ast.walk(t):
                                if isinstance(x, ast.Name) and x.id not in tainted:
                                    tainted.add(x.id); changed = True

            def visit(node, guarded):
                nonlocal nbare
                if isinstance(node, ast.Try):
                    g = guarded or any(caught_by('ValueError', h.type) for h in node.handlers)
                    for s in node.body: visit(s, g)
                    for h in node.handlers:
                        for s in h.body: visit(s, guarded)
                    for s in node.orelse + node.finalbody: visit(s, guarded)
                    return
                if isinstance(node, ast.Call) and isinstance(node.func, ast.Name) and \
                   node.func.id in ('float', 'int') and len(node.args) == 1:
                    a = node.args[0]
                    textual = any((isinstance(x, ast.Name) and x.id in tainted) or
                                  (isinstance(x, ast.Call) and call_name(x) == 'readline')
                                  for x in ast.walk(a))
                    if textual:
                        key = '%s :: %s' % (fi.short, norm(node))
                        if guarded:
                            run.ok(key, 'inside try handling ValueError', where=fi.where(node))
                        else:
                            nbare += 1
                            run.violated(key, 'bare %s() applied to listing/incon text: a Fortran rendering '
                                         '(D exponent, ****, blanks) raises ValueError here' % node.func.id,
                                         where=fi.where(node))
                if isinstance(node, (ast.FunctionDef, ast.Lambda)) and node is not fi.node:
                    pass
                for ch in ast.iter_child_nodes(node):
                    visit(ch, guarded)
            visit(fi.node, False)
    run.count('bare_conversions', nbare)


def rule_memo(run):
    run.rule('MEMO', 'a result remembered between calls (memo dictionary, caching decorator) is keyed by every parameter it depends on', floor=1)
    from .memo import memo_rule
    memo_rule(run, ['fixed_format_file', 't2listing'])


def check(run):
    run.guarded('MEMO', rule_memo)
    run.guarded('EXC', rule_exc)
    run.guarded('NORMFLOW', rule_normflow)
    run.guarded('WHOCALL', rule_whocall)
