"""C01 - t2data write/read round trip.  Rules DISP, KW, RECSEQ, TERM, TWINSPEC, CHUNK, FMAP,
NAMEFIX, BYNAME, PRESENT, NOLOSS, BIN, PAIRIO."""
import ast
import re
from ..core import AnalysisError, norm, dotted, call_name, walk_no_nested, const_str, Folder, TOP, parent_map, is_self_attr
from ..iomodel import IOBuilder, dispatch_table, layout_equiv
from ..layout import load_table, fields_of, layout
from ..fmap import ReaderEval, WriterEval, reader_ctor_map, Sym
from ..formula import compare
from .io_common import recseq_pair, term_rule, first_keyword, chunk_rule, single_string_kinds

LEVEL = 'other'
EXPLANATION = (
    "Writer/reader agreement of every t2data record, decided from the code's own two halves: (DISP) the "
    "positional dispatch tables pair section i with handlers of section i and have equal lengths; (KW) the "
    "first line a section writer emits, cut to 5 columns, is its dispatch key; (RECSEQ) for each of the 23 "
    "sections the tree of record kinds the writer can emit (loops, options, alternatives, helpers inlined) "
    "is included in the tree the reader parses, up to layout-equal kinds; (TERM) where the reader repeats "
    "until a blank line the writer ends with one on every path; (CHUNK) K-per-line lists use one K = field "
    "count of the record in line count, slice bounds and padding, with slice bounds defined on every path; "
    "(FMAP/NAMEFIX) for positional records field i is read into the attribute it is written from, block "
    "names are fixed on the way in and un-fixed on the way out; (BYNAME) by-name records use the same "
    "dictionary kind on both sides; (TWINSPEC) the extra-precision table has the same fields as its twin; "
    "(PRESENT) section presence predicates look at the state the section reader fills; (NOLOSS) write() "
    "skips a section in the main file only where it wrote it to a side file; (BIN) MESHA/MESHB record "
    "sequences agree. Digit-exact equality and the byte-for-byte fixpoint are not decided.")

T = 't2data.t2data.'
ASSUMPTIONS = [
    'MESHM/RZ2D: the sub-section list ends with `layer` (TOUGH2 input rule; the reader stops at LAYER)',
    'DIFFU: len(self.diffusion) == multi[num_components] (the reader takes the count from MULTI)',
    'TIMES / SELEC / PARAM time steps: the header count equals the list length (user data)',
    'write(): a non-empty extra_precision implies type == AUTOUGH2',
    'PARAM: the first default_incons read accepts the blank line the writer emits when there are no default '
    'initial conditions; the writer\'s chunk loop runs at least once (guarded by num_vars > 0)',
    'SHORT: the header record lives on the keyword line and is parsed from the line the driver passes in',
]


def tables(prog):
    return load_table(prog, 't2data', 't2data_format_specification'), \
        load_table(prog, 't2data', 't2data_extra_precision_format_specification')


def rule_disp_kw_recseq_term(run):
    prog = run.prog
    tab, xtab = tables(prog)
    equiv = layout_equiv([tab])
    drop = [equiv[k] for k in single_string_kinds(tab)]
    sections = prog.fold_global('t2data', 't2data_sections')
    xsections = prog.fold_global('t2data', 't2_extra_precision_sections')
    up = prog.func(T + 'update_read_write_functions')
    rd, wr, sk = dispatch_table(prog, up, 'read_fn'), dispatch_table(prog, up, 'write_fn'), dispatch_table(prog, up, 'skip_fn')
    run.rule('DISP', 'positional dispatch tables have one handler per section key, of the right section', floor=6)
    for name, d, keys in (('read_fn', rd, sections), ('write_fn', wr, sections), ('skip_fn', sk, xsections)):
        if d is None:
            run.unknown('t2data.update_read_write_functions :: %s' % name, 'table does not fold', where=up.where()); continue
        if '__length_mismatch__' in d or sorted(k for k in d if k != '__length_mismatch__') != sorted(keys) or None in d.values():
            run.violated('t2data.update_read_write_functions :: %s length' % name,
                         'the list of handlers does not have one resolvable method per section key (%d keys): zip() silently '
                         'drops the tail and later sections get the wrong handler' % len(keys), where=up.where())
        else:
            run.ok('t2data.update_read_write_functions :: %s length' % name, {'entries': len(d)}, where=up.where())
    for q, vname, keys in ((T + 'read_extra_precision', 'read_fn', xsections), (T + 'write_extra_precision', 'write_fn', xsections),
                           (T + 'read_meshfile', 'read_fn', ['ELEME', 'CONNE'])):
        fi = prog.func(q)
        d = dispatch_table(prog, fi, vname)
        key = '%s :: %s' % (fi.short, vname)
        if d is None: run.unknown(key, 'table does not fold', where=fi.where()); continue
        main = rd if vname == 'read_fn' else wr
        bad = [k for k in keys if d.get(k) is None or main.get(k) is None or d[k].name != main[k].name]
        if '__length_mismatch__' in d or bad:
            run.violated(key, 'side-file handlers for %s differ from the main-file handlers of those sections' % (bad or keys), where=fi.where())
        else: run.ok(key, {'entries': len(keys)}, where=fi.where())
    if rd is None or wr is None: return
    run.rule('KW', 'the first line a section writer emits, cut to 5 columns, is its dispatch key', floor=23)
    run.rule('RECSEQ', 'the tree of record kinds the writer can emit is included in the tree the reader parses '
             '(helpers inlined, layout-equal kinds identified)', floor=23)
    run.rule('TERM', 'where the reader repeats until a blank line, the writer ends with a blank line on every path', floor=10)
    for sec in sections:
        r, w = rd.get(sec), wr.get(sec)
        if r is None or w is None: continue
        wvar, rvar = w.params[1], r.params[1]
        kw, node = first_keyword(w, wvar)
        key = 't2data.%s :: keyword for %s' % (w.name, sec)
        if kw is None:
            run.unknown(key, 'first emitted line is not a literal', where=w.where(node), rule='KW')
        elif kw[:5].strip() == sec:
            run.ok(key, kw, where=w.where(node), rule='KW')
        else:
            run.violated(key, 'the section writer for %s starts with `%s`: the reader dispatches on line[0:5].strip() and '
                         'will hand the section to another handler or skip it' % (sec, kw), where=w.where(node), rule='KW')
        run.current_rule = 'RECSEQ'
        recseq_pair(run, 't2data %s :: %s vs %s' % (sec, w.name, r.name), prog, r, rvar, w, wvar, equiv, drop,
                    blank_kind='default_incons' if sec == 'PARAM' else None)
        run.current_rule = 'TERM'
        term_rule(run, 't2data %s :: %s terminator' % (sec, w.name), prog, r, w, wvar)
        s = sk.get(sec) if sk else None
        if s is not None:
            run.current_rule = 'RECSEQ'
            # skip handler consumes what the writer emits: a blank-terminated skip needs TERM, a counted skip needs the count
            loops = [n for n in ast.walk(s.node) if isinstance(n, ast.While)]
            counted = [n for n in ast.walk(s.node) if isinstance(n, ast.For) and isinstance(n.iter, ast.Call) and call_name(n.iter) == 'range']
            key = 't2data %s :: %s consumes the section' % (sec, s.name)
            if loops and any(call_name(c) == 'strip' for c in ast.walk(loops[0].test) if isinstance(c, ast.Call)):
                term_rule(run, key, prog, s, w, wvar)
            elif counted:
                nrec = Folder(prog, 't2data').fold(counted[0].iter.args[0])
                b = IOBuilder(prog, 'write'); tw = b.tree(w, wvar)
                def count(t):
                    if t is None: return 0
                    if t[0] == 'rec': return 1
                    if t[0] == 'seq': return sum(count(x) for x in t[1])
                    if t[0] == 'alt': return max(count(x) for x in t[1])
                    if t[0] == 'loop': return 10 ** 6
                    return 0
                run.check(count(tw) == nrec, key, 'skip reads %s lines but the writer emits %s records' % (nrec, count(tw)), where=s.where())
            else:
                run.unknown(key, 'skip idiom not recognised', where=s.where())
    run.assume(*ASSUMPTIONS)
    # SHORT header: '%2d' after the 5-column keyword equals the spec of record `short`
    so = prog.func(T + 'write_short_output')
    fmts = [norm(n.left) for n in ast.walk(so.node) if isinstance(n, ast.BinOp) and isinstance(n.op, ast.Mod) and const_str(n.left)]
    sp = tab.get('short')
    run.current_rule = 'RECSEQ'
    run.check(sp is not None and fmts == ["'%2d'"] and list(sp[1]) == ['5x', '2d'], 't2data SHORT :: header field format',
              'SHORT frequency is written with %s but parsed with %s' % (fmts, sp and sp[1]), where=so.where())
    # the drivers iterate the same ordered section list
    rdr, wrr = prog.func(T + 'read'), prog.func(T + 'write')
    run.rule('ORDER', 'read() appends each section keyword in file order to _sections; write() iterates _sections; only '
             'the listed functions may modify _sections', floor=2)
    app = [c for c in ast.walk(rdr.node) if isinstance(c, ast.Call) and call_name(c) == 'append' and norm(c.func.value) == 'self._sections']
    run.check(len(app) == 1 and norm(app[0].args[0]) == 'keyword', 't2data.read :: appends each keyword to _sections',
              'read() does not record the section order', where=rdr.where())
    loops = [n for n in walk_no_nested(wrr.node) if isinstance(n, ast.For) and norm(n.iter) == 'self._sections']
    run.check(len(loops) == 1, 't2data.write :: iterates _sections', 'write() does not iterate self._sections', where=wrr.where())
    writers = sorted(set(fi.name for fi in prog.cls('t2data', 't2data').methods.values()
                         for n in ast.walk(fi.node)
                         if (isinstance(n, ast.Attribute) and n.attr == '_sections' and isinstance(n.ctx, ast.Store)) or
                         (isinstance(n, ast.Call) and isinstance(n.func, ast.Attribute) and n.func.attr in ('append', 'insert', 'remove', 'sort', 'reverse', 'pop')
                          and norm(n.func.value) == 'self._sections')))
    allowed = set(['__init__', 'read', 'read_meshfile', 'insert_section', 'delete_section', 'write_extra_precision'])
    extra = [w for w in writers if w not in allowed]
    if extra: run.violated('t2data :: who may modify _sections', '%s modify the section order list' % extra, where='t2data.py')
    else: run.ok('t2data :: who may modify _sections', writers)


def rule_endkw(run):
    run.rule('ENDKW', 'a reader loop that stops on keyword lines and hands the line back to the driver stops on every '
             'keyword the driver dispatches on (sections and end keywords)', floor=1)
    prog = run.prog
    drv = prog.func(T + 'read')
    dset = set()
    for n in ast.walk(drv.node):
        if isinstance(n, ast.Compare) and norm(n.left) == 'keyword' and isinstance(n.ops[0], ast.In):
            v = Folder(prog, 't2data').fold(n.comparators[0])
            if v is not TOP: dset |= set(v)
    rp = prog.func(T + 'read_parameters')
    stop = None
    node = None
    unknown_elts = 0
    for n in ast.walk(rp.node):
        if isinstance(n, ast.ListComp) and isinstance(n.elt, ast.Call) and call_name(n.elt) == 'startswith':
            v = Folder(prog, 't2data').fold(n.generators[0].iter)
            if v is not TOP: stop, node = set(v), n
            else:
                # a concatenation of lists some of whose elements are run-time values: each such element is ONE string, whatever it is
                def parts(e):
                    if isinstance(e, ast.BinOp) and isinstance(e.op, ast.Add):
                        a, b = parts(e.left), parts(e.right)
                        return None if a is None or b is None else (a[0] | b[0], a[1] + b[1])
                    w = Folder(prog, 't2data').fold(e)
                    if w is not TOP and isinstance(w, (list, tuple)): return (set(w), 0)
                    if isinstance(e, (ast.List, ast.Tuple)):
                        known, unk = set(), 0
                        for x in e.elts:
                            wx = Folder(prog, 't2data').fold(x)
                            if wx is not TOP and isinstance(wx, str): known.add(wx)
                            elif isinstance(x, ast.Starred): return None
                            else: unk += 1
                        return (known, unk)
                    return None
                pr = parts(n.generators[0].iter)
                if pr is not None: stop, node, unknown_elts = pr[0], n, pr[1]
    key = 't2data.read_parameters :: continuation loop stops on every driver keyword'
    if stop is None or not dset:
        run.unknown(key, 'keyword sets not resolved', where=rp.where()); return
    missing = sorted(dset - stop)
    if missing and unknown_elts and len(missing) <= unknown_elts:
        run.unknown(key, '%d run-time element(s) in the stop list could be the missing %s' % (unknown_elts, missing), where=rp.where(node)); return
    if missing:
        run.violated(key, 'the loop reading extra default-incon lines does not stop on %s: when PARAM is the last section written '
                     '(mesh in a MESH file) the end keyword line is parsed as a record and lost (ENDFI becomes ENDCY)' % missing,
                     where=rp.where(node))
    else: run.ok(key, {'keywords': len(stop)}, where=rp.where(node))


def rule_twinspec(run):
    run.rule('TWINSPEC', 'every kind of the extra-precision table has the same field names and types, in order, as its '
             'namesake (only width/precision differ), because one read_X/write_X serves both parsers', floor=12)
    prog = run.prog
    tab, xtab = tables(prog)
    for kind, (names, fmts) in sorted(xtab.items()):
        key = 't2data_extra_precision_format_specification :: %s' % kind
        if kind not in tab:
            run.violated(key, 'no such record kind in the main table', where='t2data.py'); continue
        n0, f0 = tab[kind]
        t0 = [f[-1] for f in f0]; t1 = [f[-1] for f in fmts]
        # f vs e differ only in notation
        eqt = lambda a, b: a == b or set((a, b)) <= set('efg')
        if list(n0) != list(names):
            run.violated(key, 'field names %s differ from the main table %s: by-name records land in other attributes' % (list(names), list(n0)), where='t2data.py')
        elif len(t0) != len(t1) or not all(eqt(a, b) for a, b in zip(t0, t1)):
            run.violated(key, 'field types %s differ from the main table %s' % (t1, t0), where='t2data.py')
        else: run.ok(key, {'fields': len(names)})


def rule_chunk(run):
    run.rule('CHUNK', 'K-per-line lists: line count, slice bounds and padding use one K = field count of the record; '
             'slice bounds are defined on every path', floor=18)
    prog = run.prog
    tab, xtab = tables(prog)
    n = 0
    for m, fi in sorted(prog.cls('t2data', 't2data').methods.items()):
        if m.startswith('write_'): n += chunk_rule(run, prog, fi, [tab], 'write')
        elif m.startswith('read_'): n += chunk_rule(run, prog, fi, [tab], 'read')
    run.count('chunk_loops', n)
    from .io_common import linecount_rule
    m = 0
    for name, fi in sorted(prog.cls('t2data', 't2data').methods.items()):
        if name.startswith(('write_', 'read_')): m += linecount_rule(run, fi, [tab], rule='CHUNK')
    run.count('line_count_expressions', m)


# ---------------------------------------------------------------------------
# FMAP

from ..fmap import find_destructure as _find_destructure, _blocks, reader_map


def reader_field_map(prog, fi, kind, clsname, nfields, unit_names=('self.unit_scale',)):
    m, st, consumed = reader_map(prog, fi, kind, clsname, nfields, unit_names)
    return m, st


def writer_field_syms(prog, fi, kind, nfields, unit_names=('self.unit_scale',), which=0):
    calls = [c for c in walk_no_nested(fi.node) if isinstance(c, ast.Call) and call_name(c) == 'write_values'
             and len(c.args) == 2 and const_str(c.args[1]) == kind]
    if len(calls) <= which: raise AnalysisError('%s: no write_values(..., %r)' % (fi.short, kind))
    we = WriterEval(prog, fi, unit_names)
    we.collect_aliases()
    f = we.fields(calls[which].args[0], nfields, at_line=calls[which].lineno)
    if f is None: raise AnalysisError('%s: value list for %s has more than one part of unknown length' % (fi.short, kind))
    return f, calls[which]


def _strip_cls(path, clsname):
    return path[len(clsname) + 1:] if path.startswith(clsname + '.') else path


def compare_maps(run, keybase, rmap, wsyms, fields, clsname, rfi, wfi, rnode, wnode):
    """per field: reader destination == writer source; Fix <-> Unfix"""
    for i, fld in enumerate(fields):
        key = '%s.%s[%d]' % (keybase, fld.name or '_', i)
        dests = rmap.get(i, [])
        w = wsyms[i] if i < len(wsyms) else Sym('none')
        if fld.typ == 'x':
            run.ok(key, 'spacer'); continue
        if w.kind == 'top' or any(d is None for d in dests):
            run.unknown(key, 'writer source %r not resolved' % (w,), where=wfi.where(wnode)); continue
        if not dests and w.kind in ('none',):
            run.ok(key, 'not stored / not written'); continue
        if not dests and w.kind == 'const':
            run.ok(key, 'constant'); continue
        if not dests:
            run.violated(key, 'field %d (%s) is written from %r but the reader stores it nowhere: the value is lost on reading'
                         % (i, fld.name, w), where=rfi.where(rnode)); continue
        if w.kind in ('none', 'const'):
            run.violated(key, 'field %d (%s) is read into %s but the writer always writes %r' % (i, fld.name, dests[0][0], w),
                         where=wfi.where(wnode)); continue
        rpath, rwr = dests[0]
        rp = rpath + ('.name' if 'ByName' in rwr else '')
        wp = _strip_cls(w.path, clsname)
        if rp != wp:
            run.violated(key, 'field %d (%s) is written from `%s` but read into `%s`' % (i, fld.name, wp, rp), where=wfi.where(wnode))
        else:
            run.ok(key, {'attr': rp, 'read': list(rwr), 'write': list(w.wr)})
        # NAMEFIX on block-name fields
        if ('Fix' in rwr) != ('Unfix' in w.wr):
            run.violated(key + ' namefix', 'block name field %s: reader %s fix_blockname, writer %s unfix_blockname: names of the '
                         'form "AB  1" change on every cycle' % (fld.name, 'applies' if 'Fix' in rwr else 'does not apply',
                                                                'applies' if 'Unfix' in w.wr else 'does not apply'),
                         where=wfi.where(wnode), rule='NAMEFIX')
        elif 'Fix' in rwr:
            run.ok(key + ' namefix', rule='NAMEFIX')
        _verbatim(run, key, fld, rwr, w.wr, rfi, rnode)


def _verbatim(run, key, fld, rwr, wwr, rfi, rnode):
    """a character field is stored as read: blanks stripped by the reader are not put back by the `%Ns` conversion, which
    pads on the left, so a left-justified value comes back different and is rewritten shifted"""
    if fld.typ != 's': return
    if 'Strip' in rwr and not ('Ljust' in wwr or 'Rjust' in wwr):
        run.violated(key + ' verbatim', 'character field %s is stripped of blanks by the reader but written without re-justifying: a value '
                     'like "AIR " is read back as "AIR" and rewritten as " AIR"' % fld.name, where=rfi.where(rnode), rule='FMAP', robust=True)
    else:
        run.ok(key + ' verbatim', rule='FMAP')


def rule_fmap(run):
    run.rule('FMAP', 'for positional records, field i is read into the attribute it is written from', floor=30)
    run.rule_doc['NAMEFIX'] = 'block-name fields are fixed on the read path and un-fixed on the write path'
    prog = run.prog
    tab, xtab = tables(prog)
    sites = [('rocks1', 'read_rocktypes', 'write_rocktypes', 'rocktype'),
             ('blocks', 'read_blocks', 'write_blocks', 't2block'),
             ('connections', 'read_connections', 'write_connections', 't2connection')]
    for kind, rname, wname, cls in sites:
        rfi, wfi = prog.func(T + rname), prog.func(T + wname)
        flds = fields_of(tab[kind])
        try:
            rmap, rnode = reader_field_map(prog, rfi, kind, cls, len(flds))
            wsyms, wnode = writer_field_syms(prog, wfi, kind, len(flds))
        except AnalysisError as e:
            run.unknown('t2data %s' % kind, str(e), where=rfi.where()); continue
        compare_maps(run, 't2data %s' % kind, rmap, wsyms, flds, cls, rfi, wfi, rnode, wnode)
    # generator: reader constructs by keyword, writer writes by name from a copy of gen.__dict__
    rfi, wfi = prog.func(T + 'read_generator'), prog.func(T + 'write_generator')
    flds = fields_of(tab['generator'])
    try:
        rmap, rnode = reader_field_map(prog, rfi, 'generator', 't2generator', len(flds))
        wl = [c for c in walk_no_nested(wfi.node) if isinstance(c, ast.Call) and call_name(c) == 'write_value_line' and const_str(c.args[1]) == 'generator']
        if not wl: raise AnalysisError('write_generator: no by-name write of record generator')
        dname = norm(wl[0].args[0])
        src = [n for n in walk_no_nested(wfi.node) if isinstance(n, ast.Assign) and norm(n.targets[0]) == dname]
        okdict = src and norm(src[0].value) in ('copy(gen.__dict__)', 'gen.__dict__', 'dict(gen.__dict__)')
        if not okdict: raise AnalysisError('write_generator: dictionary %s is not (a copy of) gen.__dict__' % dname)
        unfixed = set(const_str(n.targets[0].slice) for n in walk_no_nested(wfi.node) if isinstance(n, ast.Assign) and
                      isinstance(n.targets[0], ast.Subscript) and norm(n.targets[0].value) == dname and
                      isinstance(n.value, ast.Call) and call_name(n.value) == 'unfix_blockname')
        for i, f in enumerate(flds):
            key = 't2data generator.%s[%d]' % (f.name or '_', i)
            if f.typ == 'x' or not f.name:
                run.ok(key, 'spacer'); continue
            d = rmap.get(i, [])
            if not d: run.violated(key, 'field %s is written from gen.%s but the reader does not pass it to t2generator()' % (f.name, f.name), where=rfi.where(rnode)); continue
            if d[0][0] != f.name:
                run.violated(key, 'field %d is written from gen.%s (by name) but read into gen.%s' % (i, f.name, d[0][0]), where=rfi.where(rnode))
            else: run.ok(key, {'attr': f.name})
            rf, wf = 'Fix' in d[0][1], f.name in unfixed
            if rf != wf:
                run.violated(key + ' namefix', 'generator.%s: reader %s fix_blockname, writer %s unfix_blockname'
                             % (f.name, 'applies' if rf else 'does not apply', 'applies' if wf else 'does not apply'), where=wfi.where(), rule='NAMEFIX')
            elif rf: run.ok(key + ' namefix', rule='NAMEFIX')
            _verbatim(run, key, f, d[0][1], (), rfi, rnode)
    except AnalysisError as e:
        run.unknown('t2data generator', str(e), where=rfi.where())
    # the fix is made on every path to the hand-over, not only under some option
    from .io_common import fix_dominates_rule
    nfix = 0
    for rname in ('read_blocks', 'read_connections', 'read_generator', 'read_incons'):
        nfix += fix_dominates_rule(run, prog.func(T + rname), ('t2block', 't2connection', 't2generator', 't2blockincon', 'add_block', 'add_connection',
                                                               'add_generator', 'add_incon', 'block_exists'))
    if nfix < 4: run.unknown('t2data readers :: block names fixed before the hand-over', 'only %d hand-overs found' % nfix, rule='NAMEFIX')
    # slice records: type + parameters
    for rname, wname, pairs in (('read_rocktypes', 'write_rocktypes', [('rocks1.2', 'rocks1.2', 0), ('rocks1.3', 'rocks1.2', 1)]),
                                ('read_rpcap', 'write_rpcap', [('relative_permeability', 'relative_permeability', 0), ('capillarity', 'capillarity', 0)])):
        rfi, wfi = prog.func(T + rname), prog.func(T + wname)
        for rkind, wkind, which in pairs:
            flds = fields_of(tab[rkind])
            key = 't2data %s (%s)' % (rkind, rname)
            try:
                st, blk = _find_destructure(rfi, rkind)
                if st is None: raise AnalysisError('no read of %s' % rkind)
                ev = ReaderEval(prog, rfi)
                ev.bind_fields(st.targets[0], len(flds))
                dest = {}
                for s in blk[blk.index(st) + 1:]:
                    if isinstance(s, ast.Assign) and isinstance(s.value, ast.Call) and call_name(s.value) in ('read_values', 'parse_string'): break
                    if isinstance(s, ast.Assign) and isinstance(s.targets[0], ast.Subscript):
                        v = ev.expr(s.value)
                        tgt = re.sub(r"^.*\.(\w+\[)", r"\1", norm(s.targets[0]))     # relative_permeability['type']
                        if v.kind == 'field': dest[v.index] = tgt
                        elif v.kind == 'list':
                            for j, it in enumerate(v.items):
                                if it.kind == 'field': dest[it.index] = '%s[%d]' % (tgt, j)
                wsyms, wnode = writer_field_syms(prog, wfi, wkind, len(flds), which=which)
            except AnalysisError as e:
                run.unknown(key, str(e), where=rfi.where()); continue
            for i, f in enumerate(flds):
                k = '%s.%s[%d]' % (key, f.name or '_', i)
                w = wsyms[i] if i < len(wsyms) else Sym('none')
                if f.typ == 'x': run.ok(k, 'spacer'); continue
                wp = re.sub(r"^.*\.(\w+\[)", r"\1", w.path) if w.kind == 'attr' else None
                rp = dest.get(i)
                if w.kind == 'top': run.unknown(k, 'writer source %r' % (w,), where=wfi.where(wnode))
                elif rp is None and wp is not None:
                    run.violated(k, 'field %d is written from `%s` but the reader keeps a slice that stops before it: the value is '
                                 'lost on reading (the sibling reader keeps vals[2:])' % (i, wp), where=rfi.where(st))
                elif rp != wp:
                    run.violated(k, 'field %d is written from `%s` but read into `%s`' % (i, wp, rp), where=rfi.where(st))
                else: run.ok(k, {'attr': rp})
    # incon (within the data file)
    rfi, wfi = prog.func(T + 'read_incons'), prog.func(T + 'write_incons')
    flds = fields_of(tab['incon1'])
    try:
        st, blk = _find_destructure(rfi, 'incon1')
        ev = ReaderEval(prog, rfi); ev.bind_fields(st.targets[0], len(flds))
        stores = []
        for s in blk[blk.index(st) + 1:]:
            for a in ([s] if isinstance(s, ast.Assign) else [x for x in ast.walk(s) if isinstance(x, ast.Assign)]):
                if isinstance(a.targets[0], ast.Subscript) and norm(a.targets[0].value) == 'self.incon':
                    keysym = ev.expr(a.targets[0].slice)
                    stores.append((keysym, ev.expr(a.value), a))
            ev.assign(s)
        if not stores: raise AnalysisError('read_incons: no store into self.incon')
        wsyms, wnode = writer_field_syms(prog, wfi, 'incon1', len(flds))
        # reader: widest store gives item index per field
        keysym, val, node = max(stores, key=lambda s_: len(s_[1].items) if s_[1].kind == 'list' else 0)
        item_of = {}
        if val.kind == 'list':
            for j, it in enumerate(val.items):
                if it.kind == 'field': item_of[it.index] = j
        for i, f in enumerate(flds):
            k = 't2data incon1.%s[%d]' % (f.name, i)
            w = wsyms[i]
            if i == 0:
                good = keysym.kind == 'field' and keysym.index == 0 and 'Fix' in keysym.wr and 'Unfix' in w.wr
                run.check(good, k, 'block name: reader key %r, writer %r (fix/unfix pairing)' % (keysym, w), where=wfi.where(wnode), rule='NAMEFIX')
                continue
            if w.kind == 'top': run.unknown(k, repr(w), where=wfi.where(wnode)); continue
            m = re.search(r'\[(\d+)\]$', w.path) if w.kind == 'attr' else None
            wi = int(m.group(1)) if m else None
            if item_of.get(i) != wi:
                run.violated(k, 'field %d (%s) is read into item %s of the incon entry but written from item %s'
                             % (i, f.name, item_of.get(i), wi), where=wfi.where(wnode))
            else: run.ok(k, {'item': wi})
    except AnalysisError as e:
        run.unknown('t2data incon1', str(e), where=rfi.where())


def rule_byname(run):
    run.rule('BYNAME', 'by-name records are read into and written from the same kind of dictionary', floor=10)
    prog = run.prog
    tab, xtab = tables(prog)
    up = prog.func(T + 'update_read_write_functions')
    rd, wr = dispatch_table(prog, up, 'read_fn'), dispatch_table(prog, up, 'write_fn')
    extra = [('read_title', 'write_title'), ('read_meshmaker_rz2d', 'write_meshmaker_rz2d'), ('read_meshmaker_xyz', 'write_meshmaker_xyz')]
    pairs = [(rd[s], wr[s]) for s in rd if rd.get(s) and wr.get(s)] + [(prog.func(T + a), prog.func(T + b)) for a, b in extra]

    def canon(fi, e):
        """what the dictionary is, independent of how locals are called: 'self' (self.__dict__), '<kind>.__dict__' for the
        attribute dictionary of an element of self.grid.<kind>list / self.grid.<kind>[...] / self.<kind>list, or 'local dict'"""
        # aliases: a local copy of a dictionary stands for the dictionary
        if isinstance(e, ast.Name):
            for n in walk_no_nested(fi.node):
                if isinstance(n, ast.Assign) and norm(n.targets[0]) == e.id and isinstance(n.value, ast.Call) and \
                   call_name(n.value) in ('copy', 'deepcopy', 'dict') and n.value.args:
                    return canon(fi, n.value.args[0])
            return 'local dict'
        if isinstance(e, ast.Call) and call_name(e) == 'vars' and e.args: e = ast.Attribute(value=e.args[0], attr='__dict__', ctx=ast.Load())
        if isinstance(e, ast.Attribute) and e.attr == '__dict__':
            o = e.value
            if isinstance(o, ast.Name) and o.id == 'self': return 'self'
            kind = None
            if isinstance(o, ast.Subscript) and isinstance(o.value, ast.Attribute): kind = o.value.attr            # self.grid.rocktype[name]
            if isinstance(o, ast.Name):
                for n in ast.walk(fi.node):
                    if isinstance(n, ast.For) and isinstance(n.target, ast.Name) and n.target.id == o.id and isinstance(n.iter, ast.Attribute):
                        kind = n.iter.attr[:-4] if n.iter.attr.endswith('list') else n.iter.attr                    # for rt in self.grid.rocktypelist
                    if isinstance(n, ast.Assign) and norm(n.targets[0]) == o.id and isinstance(n.value, ast.Subscript) and \
                       isinstance(n.value.value, ast.Attribute): kind = n.value.value.attr
                    # rt = rocktype(...)  (the object is built into a local and then added to the model): the class name is the kind
                    if isinstance(n, ast.Assign) and norm(n.targets[0]) == o.id and isinstance(n.value, ast.Call) and isinstance(n.value.func, ast.Name) \
                       and prog.find_class(n.value.func.id) is not None:
                        kind = n.value.func.id[2:] if n.value.func.id.startswith('t2') else n.value.func.id
                if kind is None and o.id in fi.params: kind = 'param'
            if kind: return kind + '.__dict__'
        return norm(e)
    for r, w in pairs:
        rk, wk = {}, {}
        for fi, d, meth in ((r, rk, 'read_value_line'), (w, wk, 'write_value_line')):
            fns = [fi] + [fi.cls.methods[c.func.attr] for c in walk_no_nested(fi.node) if isinstance(c, ast.Call) and
                          isinstance(c.func, ast.Attribute) and dotted(c.func.value) == 'self' and c.func.attr in fi.cls.methods
                          and c.func.attr.startswith(('read_', 'write_'))]
            for f in fns:
                for c in walk_no_nested(f.node):
                    if isinstance(c, ast.Call) and call_name(c) == meth and len(c.args) == 2:
                        kinds = IOBuilder(prog, 'read').kinds_of(f, c.args[1], IOBuilder(prog, 'read').local_kind_env(f))
                        for k in (kinds or ()): d[k] = (canon(f, c.args[0]), c, f)
        for k in sorted(set(rk) & set(wk)):
            key = 't2data %s :: dictionary of by-name record' % k
            if rk[k][0] == wk[k][0]: run.ok(key, rk[k][0])
            else:
                run.violated(key, 'record %s is read into `%s` but written from `%s`' % (k, rk[k][0], wk[k][0]), where=wk[k][2].where(wk[k][1]))
        for k in sorted(set(wk) - set(rk)):
            if k in ('generator', 'blocks'): continue      # reader is positional: checked by FMAP
            # reader destructures positionally into entries of the same dictionary: keys must be the spec names
            st, blk = _find_destructure(r, k)
            if st is None:
                for f in [r.cls.methods[c.func.attr] for c in ast.walk(r.node) if isinstance(c, ast.Call) and isinstance(c.func, ast.Attribute)
                          and dotted(c.func.value) == 'self' and c.func.attr in r.cls.methods]:
                    st, blk = _find_destructure(f, k)
                    if st is not None: break
            if st is not None and isinstance(st.targets[0], (ast.List, ast.Tuple)):
                names = list(tab[k][0])
                keys = []
                for t in st.targets[0].elts:
                    if isinstance(t, ast.Subscript) and const_str(t.slice) is not None and canon(r, t.value) == wk[k][0]: keys.append(const_str(t.slice))
                    else: keys.append('')
                key = 't2data %s :: positional read into the keys written by name' % k
                if keys == names: run.ok(key, keys)
                else: run.violated(key, 'record %s is written by name with fields %s but read into keys %s of `%s`' % (k, names, keys, wk[k][0]), where=r.where(st))
                continue
            run.violated('t2data %s :: dictionary of by-name record' % k, 'record %s is written by name but never read by name in the sibling reader' % k,
                         where=wk[k][2].where(wk[k][1]))


def rule_present(run):
    run.rule('PRESENT', 'get_present_sections pairs section i with state that read_fn[i] fills', floor=23)
    prog = run.prog
    sections = prog.fold_global('t2data', 't2data_sections')
    gp = prog.func(T + 'get_present_sections')
    lst = None
    for n in walk_no_nested(gp.node):
        if isinstance(n, ast.Call) and call_name(n) == 'zip' and len(n.args) == 2 and isinstance(n.args[1], ast.List):
            lst = n.args[1].elts
    if lst is None: raise AnalysisError('get_present_sections: dict(zip(sections, [...])) not found')
    if len(lst) != len(sections):
        run.violated('t2data.get_present_sections :: length', '%d presence expressions for %d sections' % (len(lst), len(sections)), where=gp.where())
        return
    up = prog.func(T + 'update_read_write_functions')
    rd = dispatch_table(prog, up, 'read_fn')
    cls = prog.cls('t2data', 't2data')
    for sec, e in zip(sections, lst):
        r = rd.get(sec)
        # attributes of self the reader (and its self-helpers) writes
        written = set()
        todo, seen = [r], set()
        while todo:
            f = todo.pop()
            if f is None or f.name in seen: continue
            seen.add(f.name)
            for n in ast.walk(f.node):
                if isinstance(n, (ast.Attribute,)) and isinstance(n.ctx, ast.Store) and dotted(n.value) == 'self': written.add(n.attr)
                if isinstance(n, ast.Subscript) and isinstance(n.ctx, ast.Store) and isinstance(n.value, ast.Attribute) and dotted(n.value.value) == 'self': written.add(n.value.attr)
                if isinstance(n, ast.Call) and isinstance(n.func, ast.Attribute):
                    v = n.func.value
                    if isinstance(v, ast.Attribute) and dotted(v.value) == 'self': written.add(v.attr)       # self.x.append / add_*
                    if dotted(v) == 'self.grid': written.add('grid')
                    if dotted(v) == 'self' and n.func.attr in cls.methods and n.func.attr.startswith(('read_', 'add_')): todo.append(cls.methods[n.func.attr])
                if isinstance(n, ast.Attribute) and isinstance(n.ctx, ast.Load) and dotted(n.value) == 'self' and \
                   n.attr in cls.methods and n.attr.startswith('read_') and n.attr != f.name:
                    todo.append(cls.methods[n.attr])       # handlers referenced through a dispatch dictionary
                if isinstance(n, ast.Call) and isinstance(n.func, ast.Attribute):
                    if call_name(n) in ('read_value_line',) and n.args:
                        a = n.args[0]
                        if isinstance(a, ast.Attribute) and dotted(a.value) == 'self': written.add(a.attr)
                        if norm(a) == 'self.__dict__':
                            # names of the spec: resolved kinds
                            k = const_str(n.args[1])
                            tab = load_table(prog, 't2data', 't2data_format_specification')
                            if k in tab: written.update(tab[k][0])
                if isinstance(n, ast.Attribute) and dotted(n.value) == 'self.grid' and isinstance(n.ctx, ast.Store): written.add('grid')
        used = set(n.attr for n in ast.walk(e) if isinstance(n, ast.Attribute) and dotted(n.value) == 'self')
        key = 't2data.get_present_sections :: %s <- %s' % (sec, norm(e))
        if used & written: run.ok(key, sorted(used & written))
        elif not written:
            run.unknown(key, 'reader %s writes no resolvable state' % (r.name if r else None), where=gp.where(e))
        else:
            run.violated(key, 'presence of section %s is decided from %s, but its reader %s fills %s: a section that was read is '
                         'not written back (or an empty one is)' % (sec, sorted(used), r.name, sorted(written)), where=gp.where(e))


def rule_noloss(run):
    run.rule('NOLOSS', 'write() skips a section in the main file only where the same call wrote it to the mesh file '
             'or the extra-precision file', floor=3)
    prog = run.prog
    w = prog.func(T + 'write')
    # mesh_sections is ['ELEME','CONNE'] only after both mesh writers (or the binary writer) ran
    for blk in [b for n in ast.walk(w.node) for b in (getattr(n, 'body', None), getattr(n, 'orelse', None)) if isinstance(b, list)]:
        for i, st in enumerate(blk):
            if isinstance(st, ast.Assign) and norm(st.targets[0]) == 'mesh_sections' and isinstance(st.value, ast.List) and st.value.elts:
                before = [norm(s) for s in blk[:i]]
                txt = ' '.join(before)
                ok = ('self.write_blocks(meshfile)' in txt and 'self.write_connections(meshfile)' in txt) or 'self.write_binary_meshfiles()' in txt
                key = 't2data.write :: mesh sections skipped only after being written (%s)' % ('ascii' if 'meshfile' in txt else 'binary')
                if ok: run.ok(key, where=w.where(st))
                else: run.violated(key, 'mesh_sections is set to %s without the mesh having been written to the side file in that branch: '
                                   'ELEME/CONNE appear in no file' % norm(st.value), where=w.where(st))
    init = [st for st in walk_no_nested(w.node) if isinstance(st, ast.Assign) and norm(st.targets[0]) == 'mesh_sections' and
            isinstance(st.value, ast.List) and not st.value.elts]
    run.check(bool(init), 't2data.write :: mesh_sections starts empty', 'mesh_sections is not initialised empty', where=w.where())
    # the skip guard, enumerated over its three boolean atoms
    loops = [n for n in walk_no_nested(w.node) if isinstance(n, ast.For) and norm(n.iter) == 'self._sections']
    key = 't2data.write :: main-file guard'
    if len(loops) != 1 or not isinstance(loops[0].target, ast.Name):
        run.unknown(key, 'loop over self._sections not found', where=w.where()); return
    # one iteration of the loop body is interpreted for each of the 8 combinations of its three boolean inputs; the
    # section writer is a marker, so the shape of the guard (one condition, guard clauses with continue, ...) does not matter
    from ..consteval import Interp, Obj, _Continue, _Break
    kwvar = loops[0].target.id
    msvars = sorted(set(n.targets[0].id for n in walk_no_nested(w.node) if isinstance(n, ast.Assign) and isinstance(n.targets[0], ast.Name)
                        and isinstance(n.value, ast.List) and (not n.value.elts or all(const_str(e) in ('ELEME', 'CONNE') for e in n.value.elts))))
    if len(msvars) != 1:
        run.unknown(key, 'the list of sections written to the mesh file is not identified (%s)' % msvars, where=w.where()); return
    ok = True
    cases = []
    g = loops[0]
    for in_mesh in (False, True):
        for in_xp in (False, True):
            for echo in (False, True):
                written = []
                def marker(*a, **k): written.append(1)
                so = Obj()
                so.attrs.update({'extra_precision': ['K'] if in_xp else [], 'echo_extra_precision': echo, 'write_fn': {'K': marker}})
                it = Interp({kwvar: 'K', msvars[0]: ['K'] if in_mesh else [], 'self': so, 'outfile': None}, extra={'marker': marker})
                try:
                    try: it.block(g.body)
                    except (_Continue, _Break): pass
                except AnalysisError as e:
                    run.unknown(key, str(e), where=w.where(g)); return
                v = bool(written)
                want = (not in_mesh) and ((not in_xp) or echo)
                cases.append((in_mesh, in_xp, echo, v))
                if v != want: ok = False
    if ok: run.ok(key, {'cases': 8}, where=w.where(g))
    else:
        badc = [c for c in cases if c[3] != ((not c[0]) and ((not c[1]) or c[2]))]
        run.violated(key, 'for (in mesh file, in extra precision, echo) = %s the section is %s the main file'
                     % (badc[0][:3], 'written to' if badc[0][3] else 'skipped in'), where=w.where(g))
    # extra-precision file is written before the main file in the same call (for AUTOUGH2)
    xp = [n for n in walk_no_nested(w.node) if isinstance(n, ast.Call) and call_name(n) == 'write_extra_precision']
    run.check(bool(xp) and xp[0].lineno < loops[0].lineno, 't2data.write :: extra-precision file written in the same call',
              'write_extra_precision is not called before the main file is written', where=w.where())
    wx = prog.func(T + 'write_extra_precision')
    lp = [n for n in walk_no_nested(wx.node) if isinstance(n, ast.For) and norm(n.iter) == 'self.extra_precision']
    run.check(len(lp) == 1 and any(isinstance(c, ast.Call) and norm(c.func) == 'write_fn[section]' for c in ast.walk(lp[0])),
              't2data.write_extra_precision :: every extra-precision section is written to the side file',
              'loop over self.extra_precision writing each section not found', where=wx.where())
    ek = [n for n in walk_no_nested(w.node) if isinstance(n, ast.Call) and call_name(n) == 'write' and n.args and
          compare(n.args[0], "self.end_keyword + '\\n'") == 'equal']
    run.check(bool(ek), 't2data.write :: end keyword written', 'ENDCY/ENDFI is not written', where=w.where())


def rule_bin(run):
    run.rule('BIN', 'MESHA/MESHB: the sequence of (file, record format, variable) written has the sequence read as a '
             'per-file prefix, and each array is stored to the attribute it was packed from', floor=2)
    prog = run.prog
    rd, wr = prog.func(T + 'read_binary_meshfiles'), prog.func(T + 'write_binary_meshfiles')

    def fmt_shape(e):
        """'%dd' % nel -> ('d', 'nel') ; '8s' * nel -> ('8s', 'nel') ; 'i' -> ('i','1') ; '2i' -> ('2i','1')"""
        if isinstance(e, ast.BinOp) and isinstance(e.op, ast.Mod) and const_str(e.left):
            return (const_str(e.left).replace('%d', ''), norm(e.right))
        if isinstance(e, ast.BinOp) and isinstance(e.op, ast.Mult) and const_str(e.left):
            return (const_str(e.left), norm(e.right))
        if const_str(e): return (const_str(e), '1')
        return None

    def unroll(fi, method):
        """ordered list of (file var, fmt shape, value text or None) with literal loops unrolled"""
        seq = []

        def visit(stmts, env):
            for st in stmts:
                if isinstance(st, ast.For) and isinstance(st.iter, (ast.List, ast.Tuple)) and isinstance(st.target, ast.Name):
                    for e in st.iter.elts:
                        visit(st.body, dict(env, **{st.target.id: const_str(e)}))
                    continue
                if isinstance(st, (ast.If,)):
                    visit(st.body, env); visit(st.orelse, env); continue
                if isinstance(st, ast.For):
                    visit(st.body, env); continue
                for c in sorted([c for c in ast.walk(st) if isinstance(c, ast.Call) and call_name(c) == method],
                                key=lambda c: (c.lineno, c.col_offset)):
                    rep = 1
                    # generator expression `( ... for i in range(k))` around the call
                    for g in ast.walk(st):
                        if isinstance(g, (ast.GeneratorExp, ast.ListComp)) and c in list(ast.walk(g)):
                            it = g.generators[0].iter
                            if isinstance(it, ast.Call) and call_name(it) == 'range' and isinstance(it.args[0], ast.Constant):
                                rep = it.args[0].value
                    sh = fmt_shape(c.args[0])
                    val = None
                    if len(c.args) > 1:
                        val = norm(c.args[1])
                        for k, v in env.items():
                            val = val.replace('[%s]' % k, "['%s']" % v)
                    for _ in range(rep): seq.append((norm(c.func.value), sh, val))
        visit(fi.node.body, {})
        return seq
    rs, ws = unroll(rd, 'readrec'), unroll(wr, 'writerec')

    def file_roles(fi):
        """{local name: 'A' | 'B'} from `fa, fb = (open(filename) for filename in self.meshfilename)`"""
        for st in walk_no_nested(fi.node):
            if isinstance(st, ast.Assign) and isinstance(st.targets[0], ast.Tuple) and len(st.targets[0].elts) == 2 and \
               isinstance(st.value, (ast.GeneratorExp, ast.ListComp)) and 'self.meshfilename' in norm(st.value.generators[0].iter):
                return dict((e.id, r_) for e, r_ in zip(st.targets[0].elts, 'AB') if isinstance(e, ast.Name))
        raise AnalysisError('%s: the two mesh files are not opened as `a, b = (... for filename in self.meshfilename)`' % fi.short)

    def count_tokens(fi, method, roles_):
        """{local name: 'A.0.0'}: the count variables, named by the header record they travel in (file, record, position)"""
        tok, nrec = {}, {}
        calls = sorted([c for c in ast.walk(fi.node) if isinstance(c, ast.Call) and call_name(c) == method and isinstance(c.func.value, ast.Name)
                        and c.func.value.id in roles_], key=lambda c: (c.lineno, c.col_offset))
        asg = dict((id(st.value), st) for st in ast.walk(fi.node) if isinstance(st, ast.Assign))
        for c in calls:
            r_ = roles_[c.func.value.id]
            k = nrec.get(r_, 0); nrec[r_] = k + 1
            if k > 0: continue                      # only the header record of each file carries counts
            names = []
            if method == 'readrec' and id(c) in asg and isinstance(asg[id(c)].targets[0], (ast.Tuple, ast.List)):
                names = [e.id if isinstance(e, ast.Name) else None for e in asg[id(c)].targets[0].elts]
            if method == 'writerec' and len(c.args) > 1:
                v = c.args[1]
                els = v.elts if isinstance(v, (ast.Tuple, ast.List)) else [v]
                for e in els:
                    if isinstance(e, ast.UnaryOp): e = e.operand
                    names.append(e.id if isinstance(e, ast.Name) else None)
            for j, nm in enumerate(names):
                if nm is not None and nm not in tok: tok[nm] = '%s.%d.%d' % (r_, k, j)
        return tok
    rroles, wroles = file_roles(rd), file_roles(wr)
    rtok, wtok = count_tokens(rd, 'readrec', rroles), count_tokens(wr, 'writerec', wroles)

    def canon_seq(seq, roles_, tok):
        out = []
        for fv, sh, v in seq:
            if sh is not None: sh = (sh[0], tok.get(sh[1], sh[1]))
            out.append((roles_.get(fv, fv), sh, v))
        return out
    rs, ws = canon_seq(rs, rroles, rtok), canon_seq(ws, wroles, wtok)
    for f in ('A', 'B'):
        r = [(sh,) for fv, sh, v in rs if fv == f]
        w = [(sh,) for fv, sh, v in ws if fv == f]
        key = 't2data binary mesh :: record sequence of %s' % ('MESHA' if f == 'A' else 'MESHB')
        if None in [x[0] for x in r + w]:
            run.unknown(key, 'a record format is not literal', where=wr.where()); continue
        # reader may take alternative branches (rock names vs indices): compare the longest common prefix and require
        # every record the reader reads to be written in that order
        rseq = [x[0] for x in r]
        wseq = [x[0] for x in w]
        # drop the reader's alternative (5s names) if the writer writes indices
        rseq2 = [x for x in rseq if not (x[0] == '5s' and ('5s', x[1]) not in wseq)]
        if wseq[:len(rseq2)] == rseq2:
            run.ok(key, {'read': rseq2, 'written': wseq}, where=wr.where())
        else:
            i = next((k for k, (a, b) in enumerate(zip(rseq2, wseq)) if a != b), min(len(rseq2), len(wseq)))
            run.violated(key, 'record %d is read as %s but written as %s: every later array is misinterpreted'
                         % (i, rseq2[i] if i < len(rseq2) else None, wseq[i] if i < len(wseq) else None), where=wr.where())
    # array order in MESHA: volume, ahtx, pmx, cx, cy, cz | d1, d2, area, dircos, sigma | dirn
    wa = [v for fv, sh, v in ws if fv == 'A'][1:]
    want = ["blkdata[:]['volume']", "blkdata[:]['ahtx']", "blkdata[:]['pmx']", "blkdata[:]['cx']", "blkdata[:]['cy']", "blkdata[:]['cz']",
            "condata[:]['d1']", "condata[:]['d2']", "condata[:]['area']", "condata[:]['dircos']", "condata[:]['sigma']", "condata[:]['dirn']"]
    key = 't2data binary mesh :: MESHA array order matches the reader (evol, aht, pmx, gcoord x3, del1, del2, area, beta, sig, isox)'
    if wa[:12] == want: run.ok(key, where=wr.where())
    elif sorted(wa[:12]) == sorted(want): run.violated(key, 'arrays are written in the order %s' % wa[:12], where=wr.where())
    else: run.unknown(key, 'array expressions not recognised: %s' % wa[:12], where=wr.where())
    rtxt = norm(rd.node)
    run.shape('evol, aht, pmx = (np.array(fa.readrec(' in rtxt and 'del1, del2, area, beta, sig = (np.array(fa.readrec(' in rtxt
              and "t2block(name, evol[i], rtype[i], centre=gcoord[i, :], ahtx=aht[i], pmx=pmx[i])" in rtxt
              and 't2connection([blk1, blk2], isox[i], [del1[i], del2[i]], area[i], beta[i], sig[i])' in rtxt,
              't2data binary mesh :: reader binds arrays to constructor arguments in that order', 'reader shape not recognised', where=rd.where())
    run.trust('struct format shapes are compared textually after unrolling literal loops and `for i in range(k)` generators')


def rule_nonetest(run):
    run.rule('NONETEST', 'real-valued fields read from a record are tested for absence with `is None`, never by truthiness', floor=3)
    from .io_common import nonetest_rule
    prog = run.prog
    tab, xtab = tables(prog)
    for name, fi in sorted(prog.cls('t2data', 't2data').methods.items()):
        if name.startswith('read_'): nonetest_rule(run, fi, [tab])
    from .optnum import optnum_rule
    optnum_rule(run, ['t2data', 't2grids'])


def rule_pure(run):
    run.rule('PURE', 'a write_* method does not modify the model: no store through an un-copied attribute dictionary '
             '(x.__dict__ / vars(x)), no attribute assignment on an element of one of the model\'s lists', floor=1)
    from .purewrite import pure_rule
    cls = run.prog.cls('t2data', 't2data')
    pure_rule(run, [fi for name, fi in sorted(cls.methods.items()) if name.startswith('write')])


def rule_shared(run):
    run.rule('SHARED', 'module-level tables of defaults holding mutable values are deep-copied into each t2data object; no class-level container '
             'is filled through self', floor=1)
    from .shared import default_copy_rule, shared_rule
    default_copy_rule(run, ['t2data'])
    shared_rule(run, ['t2data', 't2grids'])


def rule_echo(run):
    run.rule('ECHO', 'whether the extra-precision sections are echoed in the main file is a fact about the complete main file: an '
             'echo flag computed from self._sections inside a section handler (while read() is still appending to that list) is '
             'premature unless read() re-evaluates it after its section loop', floor=1)
    prog = run.prog
    cls = prog.cls('t2data', 't2data')
    rd = prog.func(T + 'read')
    key = 't2data.read :: echo flag decided from the complete section list'

    def echo_from_sections(fi):
        out = []
        for n in walk_no_nested(fi.node):
            if isinstance(n, ast.Assign) and any(is_self_attr(t) and t.attr in ('echo_extra_precision', '_echo_extra_precision') for t in n.targets) \
               and any(is_self_attr(x, '_sections') for x in ast.walk(n.value)): out.append(n)
        return out
    # handlers reachable from the dispatch inside the loop
    up = prog.func(T + 'update_read_write_functions')
    table = dispatch_table(prog, up, 'read_fn') or {}
    todo, seen, early = [m for m in table.values() if m is not None], set(), []
    while todo:
        m = todo.pop()
        if m.name in seen: continue
        seen.add(m.name)
        for st in echo_from_sections(m): early.append((m, st))
        for c in walk_no_nested(m.node):
            if isinstance(c, ast.Call) and is_self_attr(c.func) and c.func.attr in cls.methods and c.func.attr.startswith('read'):
                todo.append(cls.methods[c.func.attr])
    loops = [n for n in rd.node.body if isinstance(n, ast.While)]
    if len(loops) != 1:
        run.unknown(key, 'section loop of read() not found', where=rd.where()); return
    after = rd.node.body[rd.node.body.index(loops[0]) + 1:]
    late = [n for st in after for n in ast.walk(st) if isinstance(n, ast.Assign) and
            any(is_self_attr(t) and t.attr in ('echo_extra_precision', '_echo_extra_precision') for t in n.targets) and
            any(is_self_attr(x, '_sections') for x in ast.walk(n.value))]
    if not late:
        # the flag assigned from a local that a loop over the section list computed (the explicit form of any([...])): the
        # re-evaluation is there; its quantifier is not decided from this shape
        late_loop = [n for st in after for n in ast.walk(st) if isinstance(n, ast.Assign) and
                     any(is_self_attr(t) and t.attr in ('echo_extra_precision', '_echo_extra_precision') for t in n.targets) and
                     any(is_self_attr(x, '_sections') for x in ast.walk(st))]
        if late_loop:
            run.ok(key, 're-evaluated after the section loop (statement form): %s' % norm(late_loop[0])[:90], where=rd.where(late_loop[0])); return
    if early and not late:
        m, st = early[0]
        run.violated(key, '%s sets the echo flag from self._sections (`%s`) while read() has only appended the sections seen so far (it runs '
                     'from the SIMUL handler, the first section), and read() never re-evaluates it: a file written with echoed extra-precision '
                     'sections is read back as not echoed, and the next write drops ROCKS/ELEME/CONNE/GENER from the main file'
                     % (m.short, norm(st)[:90]), where=m.where(st))
    elif late and _universal(late[-1].value):
        # the writer leaves a section out of the main file for reasons of its own besides the echo flag (ELEME / CONNE go to a
        # separate MESH file), so "echoed" is "some extra-precision section is also in the main file", not "all of them are"
        run.violated(key, 'the echo flag is `%s`: universal over the extra-precision sections. write() keeps the mesh sections out of the main '
                     'file when the mesh is in a separate file, so an echoed data file with a separate mesh is read back as not echoed and '
                     'the next write drops the other sections from the main file' % norm(late[-1].value)[:110], where=rd.where(late[-1]))
    elif late: run.ok(key, 're-evaluated after the section loop: %s' % norm(late[0])[:90], where=rd.where(late[0]))
    else: run.ok(key, 'no handler decides the echo flag from the partial section list', where=rd.where())


def rule_pair(run):
    from .c08 import pair_rule
    pair_rule(run, ['t2data'], set(['t2data']), floor=4,
              only=lambda fi, owner: fi.name.startswith('read_') or fi.name in ('__init__', 'add_generator', 'delete_generator', 'clear_generators'))


def rule_memo(run):
    run.rule('MEMO', 'a result remembered between calls (memo dictionary, caching decorator) is keyed by every parameter it depends on', floor=1)
    from .memo import memo_rule
    memo_rule(run, ['t2data'])


def _universal(e):
    """is the reduction in e universal over its items?  all(P) / not any(not P) are; any(P) / not all(not P) are not; None-safe: False
    when no reduction is found"""
    for c in ast.walk(e):
        if isinstance(c, ast.Call) and isinstance(c.func, ast.Name) and c.func.id in ('all', 'any') and c.args:
            elt = c.args[0].elt if isinstance(c.args[0], (ast.ListComp, ast.GeneratorExp)) else None
            neg_in = isinstance(elt, ast.UnaryOp) and isinstance(elt.op, ast.Not) or \
                (isinstance(elt, ast.Compare) and len(elt.ops) == 1 and isinstance(elt.ops[0], ast.NotIn))
            neg_out = any(isinstance(u, ast.UnaryOp) and isinstance(u.op, ast.Not) and u.operand is c for u in ast.walk(e))
            if elt is None: return False
            return (c.func.id == 'all') != (neg_in and neg_out) if (neg_in == neg_out) else False
    return False


def rule_gentab(run):
    run.rule('GENTAB', 'the generator line is followed by time / rate / enthalpy tables for the same generator types in write_generator() as '
             'read_generator() expects: the type tests standing next to `ltab` in the two functions are the same set', floor=1)
    prog = run.prog
    def type_tests(fi):
        out = None
        for n in walk_no_nested(fi.node):
            if not isinstance(n, (ast.If, ast.IfExp)): continue
            names = set(x.id for x in ast.walk(n.test) if isinstance(x, ast.Name)) | set(x.attr for x in ast.walk(n.test) if isinstance(x, ast.Attribute))
            if 'ltab' not in names: continue
            if isinstance(n, ast.If) and len(n.body) == 1 and isinstance(n.body[0], ast.If) and not n.orelse and not n.body[0].orelse and \
               not any(isinstance(x, (ast.Name, ast.Attribute)) and 'type' in norm(x).lower() for x in ast.walk(n.test)):
                # `if ltab: if <type test>:` is the conjunction
                n = ast.copy_location(ast.If(test=ast.BoolOp(op=ast.And(), values=[n.test, n.body[0].test]), body=n.body[0].body, orelse=[]), n)
            tests = set()
            def atoms(t, pos):
                if isinstance(t, ast.UnaryOp) and isinstance(t.op, ast.Not): atoms(t.operand, not pos); return
                if isinstance(t, ast.BoolOp):
                    for v in t.values: atoms(v, pos)
                    return
                if isinstance(t, ast.Compare) and len(t.ops) == 1 and 'type' in norm(t.left).lower():
                    op, rhs = type(t.ops[0]), t.comparators[0]
                    if op in (ast.In, ast.NotIn) and isinstance(rhs, (ast.List, ast.Tuple, ast.Set)) and all(isinstance(x, ast.Constant) for x in rhs.elts):
                        vals = sorted(repr(x.value) for x in rhs.elts); eq = (op is ast.In)
                    elif op in (ast.Eq, ast.NotEq) and isinstance(rhs, ast.Constant):
                        vals = [repr(rhs.value)]; eq = (op is ast.Eq)
                    else: return
                    tests.add(('is one of' if eq == pos else 'is none of', ' '.join(vals)))
                if isinstance(t, ast.Call) and isinstance(t.func, ast.Attribute) and t.func.attr in ('startswith', 'endswith') and 'type' in norm(t.func.value).lower():
                    tests.add((('' if pos else 'not ') + t.func.attr, norm(t.args[0]) if t.args else ''))
            atoms(n.test, True)
            out = (n, tests) if out is None else out
        return out
    rd, wr = prog.func(T + 'read_generator'), prog.func(T + 'write_generator')
    a, b = type_tests(rd), type_tests(wr)
    key = 't2data.read_generator / write_generator :: tables follow for the same generator types'
    if a is None or b is None:
        run.unknown(key, 'no `ltab` test found in %s' % (rd.short if a is None else wr.short), where=(rd if a is None else wr).where()); return
    if a[1] == b[1]: run.ok(key, sorted(a[1]), where=wr.where(b[0]))
    else:
        run.violated(key, 'read_generator() expects tables unless %s, write_generator() writes them unless %s: for a generator type on which the '
                     'two disagree the table lines are missing from (or surplus in) the file while `ltab` still announces them, and the reader '
                     'takes the following records for table lines' % (sorted(a[1]), sorted(b[1])), where=wr.where(b[0]))


def check(run):
    run.guarded('GENTAB', rule_gentab)
    run.guarded('MEMO', rule_memo)
    run.guarded('SHARED', rule_shared)
    run.guarded('ECHO', rule_echo)
    run.guarded('PAIR', rule_pair)
    run.guarded('PURE', rule_pure)
    run.guarded('DISP', rule_disp_kw_recseq_term)
    run.guarded('ENDKW', rule_endkw)
    run.guarded('TWINSPEC', rule_twinspec)
    run.guarded('CHUNK', rule_chunk)
    run.guarded('FMAP', rule_fmap)
    run.guarded('BYNAME', rule_byname)
    run.guarded('PRESENT', rule_present)
    run.guarded('NOLOSS', rule_noloss)
    run.guarded('BIN', rule_bin)
    run.guarded('NONETEST', rule_nonetest)
