"""C14 - IAPWS-97.  Rules CHAIN, USE, DERIV, GUARD, TRANSP."""
import ast
from ..core import AnalysisError, norm, dotted, call_name, walk_no_nested, Folder, TOP
from ..formula import check_formula, compare
from ..intervals import constraints, negate_last, Interval, fold_num

LEVEL = 'other'
EXPLANATION = (
    "Structure of IAPWS97.py decided from folded tables and expression shapes: (CHAIN) each power table "
    "is a valid addition chain for power_array (operands sum to the key and are 0, +-1 or keys defined "
    "earlier); (USE) every exponent index a formula evaluates, for every tuple of its exponent arrays, is "
    "produced by its chain - otherwise np.zeros silently supplies 0 - and lies inside the array; (DERIV) "
    "the two sums of each region are the two partial derivatives of one monomial set; (GUARD) interval "
    "logic shows the classifier's return of region k implies the validity guard of region k's equation, "
    "sat() is only called inside its own closed interval [<=0.01, tcritical], tsat's is closed up to "
    "pcritical; (TRANSP) sat/tsat use one bi-quadratic coefficient matrix and its transpose. Every "
    "numerical clause (inverse accuracy, monotonicity, positivity, tolerances) is not decided.")

MOD = 'IAPWS97'
TABLES = ['pc1', 'tc1', 'tc2', 'pc2', 'tsc2', 'tc3', 'dc3', 'ticv', 'tscv', 'dscv']


def chain_defined(tab):
    return set(k for k, _ in tab) | set([0, 1, -1])


def rule_chain(run):
    run.rule('CHAIN', 'each power table is a valid addition chain: operands sum to the key and are 0, +-1 or '
             'keys defined earlier in the tuple', floor=140)
    prog = run.prog
    # the consumer really is the chain evaluator: p[c[0]] = p[c[1][0]]; for mult in c[1][1:]: p[c[0]] *= p[mult]
    pa = prog.func('IAPWS97.power_array')
    txt = norm(pa.node)
    shape_ok = 'p[c[0]] = p[c[1][0]]' in txt and 'p[c[0]] *= p[mult]' in txt and \
        'p[0], p[1], p[-1] = (1.0, value, 1.0 / value)' in txt
    if not shape_ok:
        run.unknown('IAPWS97.power_array :: evaluator shape', 'power_array is no longer the product-chain evaluator '
                    'this rule models', where=pa.where())
    else:
        run.ok('IAPWS97.power_array :: evaluator shape', where=pa.where())
    n = 0
    for t in TABLES:
        tab = prog.fold_global(MOD, t)
        if tab is TOP: raise AnalysisError('table %s does not fold' % t)
        defined = set([0, 1, -1])
        for entry in tab:
            k, ops = entry
            n += 1
            key = 'IAPWS97.%s :: %d' % (t, k)
            where = 'IAPWS97.py (%s entry %r)' % (t, entry)
            if sum(ops) != k:
                run.violated(key, 'operands %r sum to %d, so p[%d] holds value**%d' % (ops, sum(ops), k, sum(ops)), where=where)
            elif any(o not in defined for o in ops):
                bad = [o for o in ops if o not in defined]
                run.violated(key, 'operand(s) %r are not yet computed when p[%d] is formed (np.zeros supplies 0)' % (bad, k), where=where)
            else:
                run.ok(key, {'ops': list(ops)})
            defined.add(k)
    run.count('chain_entries', n)


def _powvars(prog, fi):
    """name -> table for V = power_array(expr, TABLE)"""
    out = {}
    for n in walk_no_nested(fi.node):
        if isinstance(n, ast.Assign) and isinstance(n.value, ast.Call) and call_name(n.value) == 'power_array' \
           and isinstance(n.targets[0], ast.Name) and len(n.value.args) == 2 and isinstance(n.value.args[1], ast.Name):
            out[n.targets[0].id] = n.value.args[1].id
    return out


def rule_use(run):
    run.rule('USE', 'every exponent index evaluated by a formula, for every tuple of its exponent arrays, is '
             'produced by the chain of that power array and lies inside it', floor=200)
    prog = run.prog
    total = 0
    for fname in ('cowat', 'supst', 'super', 'visc'):
        fi = prog.func('IAPWS97.' + fname)
        pv = _powvars(prog, fi)
        if not pv: raise AnalysisError('no power_array variables in %s' % fname)
        tabs = dict((v, prog.fold_global(MOD, t)) for v, t in pv.items())
        handled = set()
        for comp in [n for n in walk_no_nested(fi.node) if isinstance(n, ast.ListComp)]:
            g = comp.generators[0]
            if not (isinstance(g.iter, ast.Call) and call_name(g.iter) == 'zip'): continue
            arrays = []
            for a in g.iter.args:
                v = Folder(prog, MOD).fold(a)
                if v is TOP: raise AnalysisError('array %s does not fold' % norm(a))
                arrays.append(list(v))
            if len(set(len(a) for a in arrays)) != 1:
                run.violated('IAPWS97.%s :: zip lengths %s' % (fname, norm(g.iter)),
                             'zipped arrays have lengths %s: terms are silently dropped' % [len(a) for a in arrays],
                             where=fi.where(comp))
            tnames = [e.id for e in g.target.elts] if isinstance(g.target, ast.Tuple) else [g.target.id]
            for sub in [s for s in ast.walk(comp.elt) if isinstance(s, ast.Subscript)]:
                if not (isinstance(sub.value, ast.Name) and sub.value.id in pv): continue
                handled.add(sub)
                tab = tabs[sub.value.id]
                defined = chain_defined(tab)
                npos = max([k for k, _ in tab if k > 0] or [1])
                nneg = -min([k for k, _ in tab if k < 0] + [-1])
                for tup in zip(*arrays):
                    env = dict(zip(tnames, tup))
                    idx = Folder(prog, MOD, env).fold(sub.slice)
                    total += 1
                    key = 'IAPWS97.%s :: %s with %s' % (fname, norm(sub), ','.join('%s=%s' % (k, env[k]) for k in tnames if k in [x.id for x in ast.walk(sub.slice) if isinstance(x, ast.Name)]))
                    if idx is TOP or not isinstance(idx, int):
                        run.unknown(key, 'index does not fold', where=fi.where(sub)); continue
                    if idx > npos or idx < -nneg:
                        run.violated(key, 'index %d outside the power array of %s (range %d..%d): wraps or raises'
                                     % (idx, pv[sub.value.id], -nneg, npos), where=fi.where(sub))
                    elif idx not in defined:
                        run.violated(key, 'power %d is never computed by table %s; np.zeros supplies 0.0 and the term '
                                     'vanishes silently' % (idx, pv[sub.value.id]), where=fi.where(sub))
                    else:
                        run.ok(key)
        # direct subscripts outside comprehensions
        for sub in [s for s in walk_no_nested(fi.node) if isinstance(s, ast.Subscript)]:
            if sub in handled or not (isinstance(sub.value, ast.Name) and sub.value.id in pv): continue
            tab = tabs[sub.value.id]; defined = chain_defined(tab)
            if isinstance(sub.slice, ast.Slice):
                lo = Folder(prog, MOD).fold(sub.slice.lower) if sub.slice.lower else 0
                hi = Folder(prog, MOD).fold(sub.slice.upper) if sub.slice.upper else None
                idxs = list(range(lo, hi)) if isinstance(hi, int) and isinstance(lo, int) else None
            else:
                v = Folder(prog, MOD).fold(sub.slice)
                idxs = [v] if isinstance(v, int) else None
            key = 'IAPWS97.%s :: %s' % (fname, norm(sub))
            total += 1
            if idxs is None: run.unknown(key, 'index does not fold', where=fi.where(sub))
            elif any(i not in defined for i in idxs):
                run.violated(key, 'power(s) %s never computed by table %s' % ([i for i in idxs if i not in defined], pv[sub.value.id]), where=fi.where(sub))
            else: run.ok(key)
    run.count('index_uses', total)


def _factors(e):
    if isinstance(e, ast.BinOp) and isinstance(e.op, ast.Mult):
        return _factors(e.left) + _factors(e.right)
    return [e]


def rule_deriv(run):
    run.rule('DERIV', 'the two sums of each region are the partial derivatives of one monomial set: factors '
             '{n, a, X[a-1], Y[b]} and {n, b, X[a], Y[b-1]} over the same zipped arrays', floor=3)
    prog = run.prog
    for fname in ('cowat', 'supst', 'super'):
        fi = prog.func('IAPWS97.' + fname)
        pv = _powvars(prog, fi)
        comps = []
        for comp in [n for n in walk_no_nested(fi.node) if isinstance(n, ast.ListComp)]:
            g = comp.generators[0]
            if not (isinstance(g.iter, ast.Call) and call_name(g.iter) == 'zip'): continue
            if not isinstance(g.target, ast.Tuple) or len(g.target.elts) != 3: continue
            tn = [e.id for e in g.target.elts]
            facs = _factors(comp.elt)
            names = sorted(norm(f) for f in facs)
            subs = [f for f in facs if isinstance(f, ast.Subscript) and isinstance(f.value, ast.Name) and f.value.id in pv]
            scal = sorted(f.id for f in facs if isinstance(f, ast.Name))
            comps.append((comp, norm(g.iter), tn, subs, scal, names))
        # pair comps over the same zip
        byzip = {}
        for c in comps: byzip.setdefault(c[1], []).append(c)
        if not byzip: raise AnalysisError('no derivative sums found in %s' % fname)
        for z, cs in byzip.items():
            key = 'IAPWS97.%s :: sums over %s' % (fname, z)
            if len(cs) != 2:
                run.unknown(key, '%d sums over this zip (2 expected)' % len(cs), where=fi.where(cs[0][0])); continue
            cs = sorted(cs, key=lambda c: c[0].lineno)
            (c1, _, t1, s1, k1, n1), (c2, _, t2, s2, k2, n2) = cs
            # the d/dX sum is the one that indexes an array with `a - 1` (a = first exponent name)
            if any(norm(x.slice) == '%s - 1' % t1[0] for x in s2) and not any(norm(x.slice) == '%s - 1' % t1[0] for x in s1):
                (c1, t1, s1, k1, n1), (c2, t2, s2, k2, n2) = (c2, t2, s2, k2, n2), (c1, t1, s1, k1, n1)
            if t1 != t2:
                run.violated(key, 'the two sums unpack the zipped arrays as %s and %s' % (t1, t2), where=fi.where(c2)); continue
            a, b, n = t1
            def shape(subs, scal):
                # returns dict arrayname -> index text, plus scalar names
                return dict((s.value.id, norm(s.slice)) for s in subs), scal
            d1, sc1 = shape(s1, k1)
            d2, sc2 = shape(s2, k2)
            ok = False
            why = ''
            if set(d1) == set(d2) and len(d1) == 2 and len(s1) == 2 and len(s2) == 2:
                X = [v for v in d1 if d1[v] == '%s - 1' % a]
                Y = [v for v in d1 if d1[v] == b]
                if len(X) == 1 and len(Y) == 1 and X[0] != Y[0] and sorted(sc1) == sorted([n, a]) and \
                   d2.get(X[0]) == a and d2.get(Y[0]) == '%s - 1' % b and sorted(sc2) == sorted([n, b]):
                    ok = True
                else:
                    why = 'first sum %s, second sum %s' % (n1, n2)
            else:
                why = 'factor arrays differ: %s vs %s' % (sorted(d1), sorted(d2))
            if ok: run.ok(key, {'d/dX': n1, 'd/dY': n2}, where=fi.where(c1))
            else:
                run.violated(key, 'the sums are not d/dX and d/dY of one monomial set n*X^%s*Y^%s: %s' % (a, b, why),
                             where=fi.where(c1))
    # ideal-gas part of region 2: n * j * taupow[j-1]
    fi = prog.func('IAPWS97.supst')
    for comp in [n for n in walk_no_nested(fi.node) if isinstance(n, ast.ListComp)]:
        g = comp.generators[0]
        if isinstance(g.target, ast.Tuple) and len(g.target.elts) == 2:
            j, n = [e.id for e in g.target.elts]
            facs = sorted(norm(f) for f in _factors(comp.elt))
            subs = [f for f in _factors(comp.elt) if isinstance(f, ast.Subscript)]
            ok = len(subs) == 1 and norm(subs[0].slice) == '%s - 1' % j and \
                sorted(f.id for f in _factors(comp.elt) if isinstance(f, ast.Name)) == sorted([j, n])
            run.check(ok, 'IAPWS97.supst :: ideal-gas sum over %s' % norm(g.iter),
                      'sum is not d/dtau of n*tau^j: factors %s' % facs, where=fi.where(comp))


def _guard_of(prog, fi):
    """(test, env) of the top-level validity guard: `if <test>: ... else: return None`"""
    for st in fi.node.body:
        if isinstance(st, ast.If):
            el = st.orelse
            if len(el) == 1 and isinstance(el[0], ast.Return) and \
               (el[0].value is None or (isinstance(el[0].value, ast.Constant) and el[0].value.value is None)):
                env, rest = constraints(prog, MOD, st.test)
                if rest: raise AnalysisError('guard of %s has non-interval part %s' % (fi.short, [norm(r) for r in rest]))
                return st.test, env
    raise AnalysisError('no validity guard found in %s' % fi.short)


def region_walk(prog, modname, fi):
    """yields ('return', value node, env) and ('call', call node, env) with interval envs"""
    out = []

    def exprs(e, env):
        for c in ast.walk(e):
            if isinstance(c, ast.Call) and isinstance(c.func, ast.Name):
                out.append(('call', c, env))

    def walk(stmts, env):
        for st in stmts:
            if isinstance(st, ast.If):
                et, rest = constraints(prog, modname, st.test, env)
                exprs(st.test, env)
                walk(st.body, et)
                ef = negate_last(prog, modname, st.test, env) if not rest or True else env
                walk(st.orelse, ef)
                # statements after an if whose both branches return are unreachable; keep simple
                if _all_return(st.body) and _all_return(st.orelse): return
            elif isinstance(st, (ast.Assign, ast.AugAssign, ast.Expr)):
                exprs(st.value, env)
            elif isinstance(st, ast.Return):
                if st.value is not None:
                    if isinstance(st.value, ast.IfExp):
                        exprs(st.value.test, env)
                        out.append(('return', st.value.body, env, st.value.test, True))
                        out.append(('return', st.value.orelse, env, st.value.test, False))
                    else:
                        exprs(st.value, env)
                        out.append(('return', st.value, env, None, None))
                return
    walk(fi.node.body, {})
    return out


def _all_return(stmts):
    if not stmts: return False
    last = stmts[-1]
    if isinstance(last, ast.Return): return True
    if isinstance(last, ast.If): return _all_return(last.body) and _all_return(last.orelse)
    return False


def _implies(env, guard_env, mapping):
    """every variable constrained by the guard is at least as constrained in env"""
    bad = []
    for gv, giv in guard_env.items():
        v = mapping.get(gv, gv)
        iv = env.get(v, Interval())
        if not giv.contains(iv):
            bad.append('%s in %r does not imply %s in %r' % (v, iv, gv, giv))
    return bad


def rule_guard(run):
    run.rule('GUARD', 'region()==k implies the validity guard of region k\'s equation; sat() is called only '
             'inside its own interval; sat/tsat intervals are closed with the critical constants', floor=6)
    prog = run.prog
    reg = prog.func('IAPWS97.region')
    facts = region_walk(prog, MOD, reg)
    eq = {1: 'cowat', 2: 'supst'}
    guards = {}
    for k, fn in eq.items():
        guards[k] = _guard_of(prog, prog.func('IAPWS97.' + fn))
    sat_test, sat_env = _guard_of(prog, prog.func('IAPWS97.sat'))
    tsat_test, tsat_env = _guard_of(prog, prog.func('IAPWS97.tsat'))
    nret = 0
    for f in facts:
        if f[0] == 'return':
            _, val, env, cond, pol = f
            if isinstance(val, ast.Constant) and val.value in eq:
                nret += 1
                k = val.value
                fi = prog.func('IAPWS97.' + eq[k])
                mapping = dict(zip(fi.params, reg.params))
                bad = _implies(env, guards[k][1], mapping)
                key = 'IAPWS97.region :: returns %d under %s' % (k, '; '.join('%s in %r' % (v, env[v]) for v in sorted(env)))
                if bad:
                    run.violated(key, 'the classifier names region %d for states where %s returns None: %s' % (k, eq[k], bad),
                                 where=reg.where(val))
                else: run.ok(key, where=reg.where(val))
        else:
            _, call, env = f[:3]
            if call.func.id == 'sat' and len(call.args) == 1 and isinstance(call.args[0], ast.Name):
                mapping = {'t': call.args[0].id}
                bad = _implies(env, sat_env, mapping)
                key = 'IAPWS97.region :: calls sat under %s' % '; '.join('%s in %r' % (v, env[v]) for v in sorted(env))
                if bad:
                    run.violated(key, 'sat() returns None here and the comparison p > None is meaningless/raises: %s' % bad,
                                 where=reg.where(call))
                else: run.ok(key, where=reg.where(call))
    # which boundary where: the saturation line separates regions 1/2 up to 350 degC only, the B23 curve regions 2/3 from there to 590
    for f in facts:
        if f[0] != 'call': continue
        _, call, env = f[:3]
        if call.func.id in ('sat', 'b23p') and len(call.args) == 1 and isinstance(call.args[0], ast.Name):
            iv = env.get(call.args[0].id, Interval())
            key = 'IAPWS97.region :: %s(t) used as a region boundary for t in %r' % (call.func.id, iv)
            if call.func.id == 'sat':
                if iv.hi <= 350.0: run.ok(key, where=reg.where(call))
                else:
                    run.violated(key, 'the saturation line is consulted for temperatures up to %s degC; above 350 degC the boundary between '
                                 'regions 2 and 3 is the B23 curve, which lies below saturation there, so states between the two curves are '
                                 'given the wrong region' % iv.hi, where=reg.where(call))
            else:
                if iv.lo >= 350.0 and iv.hi <= 590.0: run.ok(key, where=reg.where(call))
                else:
                    run.violated(key, 'the 2/3 boundary curve is consulted for t in %r; it is defined from 350 to 590 degC' % iv, where=reg.where(call))
    if nret < 3: run.unknown('IAPWS97.region :: returns', 'only %d classified returns found' % nret, where=reg.where())
    # closed saturation interval, exact constants
    t_iv = sat_env.get('t')
    tcrit = fold_num(prog, MOD, ast.Name(id='tcritical', ctx=ast.Load()))
    ok = t_iv is not None and t_iv.lo_closed and t_iv.hi_closed and t_iv.lo <= 0.01 and t_iv.hi == tcrit and t_iv.hi_src == 'tcritical'
    run.check(ok, 'IAPWS97.sat :: closed interval [<=0.01, tcritical]',
              'saturation interval is %r (upper bound source %s): an end point of the saturation line is excluded'
              % (t_iv, t_iv.hi_src if t_iv else None), where='IAPWS97.py (sat)')
    p_iv = tsat_env.get('p')
    pcrit = fold_num(prog, MOD, ast.Name(id='pcritical', ctx=ast.Load()))
    ok = p_iv is not None and p_iv.lo_closed and p_iv.hi_closed and p_iv.hi == pcrit and p_iv.hi_src == 'pcritical' and 600. < p_iv.lo < 620.
    run.check(ok, 'IAPWS97.tsat :: closed interval [~611.2, pcritical]',
              'tsat interval is %r' % (p_iv,), where='IAPWS97.py (tsat)')
    # the region box itself
    top = [f for f in facts if f[0] == 'return' and isinstance(f[1], ast.Constant) and f[1].value in (1, 2, 3)]
    if top:
        env = top[0][2]
        t, p = env.get('t'), env.get('p')
        ok = t is not None and p is not None and t.hi <= 800. and p.hi <= 100.e6 and t.lo >= 0.0 and p.lo >= 0.0
        run.check(ok, 'IAPWS97.region :: classified box within 0..800 degC, 0..100 MPa',
                  'box is t %r, p %r' % (t, p), where=reg.where())
    # tcritical derived from tcriticalk and tc_k
    v, _ = prog.resolve_global(MOD, 'tcritical')
    if isinstance(v, ast.AST):
        r = compare(v, 'tcriticalk - tc_k')
        kk = 'IAPWS97.tcritical :: tcriticalk - tc_k'
        if r == 'equal': run.ok(kk)
        elif r == 'different': run.violated(kk, 'tcritical is `%s`, not tcriticalk - tc_k' % norm(v), where='IAPWS97.py')
        else: run.unknown(kk, 'tcritical is `%s`' % norm(v), where='IAPWS97.py')


def _quad_rows(fi, names):
    """for assignments NAME = T2 + n[k]*T + n[m] (any order, coefficient optional):
    returns {name: (c2, c1, c0)} with c* = coefficient index or '1', and the (square, linear) var names"""
    rows = {}
    sq = lin = None
    for n in walk_no_nested(fi.node):
        if isinstance(n, ast.Assign) and isinstance(n.targets[0], ast.Name):
            v = n.value
            # theta2 = theta * theta
            if isinstance(v, ast.BinOp) and isinstance(v.op, ast.Mult) and isinstance(v.left, ast.Name) and \
               isinstance(v.right, ast.Name) and v.left.id == v.right.id:
                sq, lin = n.targets[0].id, v.left.id
            # beta = sqrt(beta2)
            if isinstance(v, ast.Call) and call_name(v) == 'sqrt' and len(v.args) == 1 and isinstance(v.args[0], ast.Name) \
               and n.targets[0].id in names.get('lin', [n.targets[0].id]):
                pass
    return sq, lin


def _terms(e):
    if isinstance(e, ast.BinOp) and isinstance(e.op, ast.Add):
        return _terms(e.left) + _terms(e.right)
    return [e]


def _coef_row(e, sq, lin):
    """(c2, c1, c0) from a sum of terms in sq / lin"""
    row = {}
    for t in _terms(e):
        fs = _factors(t)
        var = [f.id for f in fs if isinstance(f, ast.Name)]
        co = [f for f in fs if isinstance(f, ast.Subscript)]
        deg = 2 if sq in var else (1 if lin in var else 0)
        if len(var) > 1 or len(co) > 1 or (len(var) + len(co)) != len(fs): return None
        c = '1' if not co else norm(co[0])
        if deg in row: return None
        row[deg] = c
    if set(row) != set([0, 1, 2]): return None
    return (row[2], row[1], row[0])


def rule_transp(run):
    run.rule('TRANSP', 'the coefficient-index matrix of (a,b,c) in sat is the transpose of (e,f,g) in tsat '
             '(one bi-quadratic form solved for either variable)', floor=1)
    prog = run.prog
    def matrix(fname, sqlin):
        fi = prog.func('IAPWS97.' + fname)
        sq, lin = sqlin
        rows = []
        for n in fi.node.body if False else list(walk_no_nested(fi.node)):
            if isinstance(n, ast.Assign) and isinstance(n.targets[0], ast.Name):
                r = _coef_row(n.value, sq, lin)
                if r: rows.append((n.lineno, n.targets[0].id, r))
        rows.sort()
        return fi, rows
    # variable pairs: sat uses theta2/theta; tsat uses beta2/beta
    fs, rs = matrix('sat', ('theta2', 'theta'))
    ft, rt = matrix('tsat', ('beta2', 'beta'))
    if len(rs) != 3 or len(rt) != 3:
        run.unknown('IAPWS97.sat/tsat :: quadratic rows', 'found %d and %d quadratic coefficient rows (3 each expected)'
                    % (len(rs), len(rt)), where=fs.where()); return
    M = [r[2] for r in rs]
    N = [r[2] for r in rt]
    MT = [tuple(M[j][i] for j in range(3)) for i in range(3)]
    key = 'IAPWS97.sat/tsat :: coefficient matrices transposed'
    if [tuple(x) for x in N] == MT:
        run.ok(key, {'sat': M, 'tsat': N}, where=fs.where())
    else:
        run.violated(key, 'sat uses %s, whose transpose is %s, but tsat uses %s: tsat does not invert sat'
                     % (M, MT, N), where=ft.where())
    # theta2 really is theta*theta, beta really is sqrt(beta2)
    check_formula(run, 'IAPWS97.sat :: theta2 = theta*theta', fs, 'theta2', 'theta * theta', 'theta2 is not the square of theta')
    check_formula(run, 'IAPWS97.tsat :: beta = sqrt(beta2)', ft, 'beta', 'sqrt(beta2)', 'beta is not the square root of beta2')
    check_formula(run, 'IAPWS97.tsat :: beta2 = sqrt(p / pstar4)', ft, 'beta2', 'sqrt(p / pstar4)', 'beta2 is not sqrt(p/p*)')
    from ..formula import assignments_to
    if assignments_to(fs.node, 'p'):
        check_formula(run, 'IAPWS97.sat :: p = pstar4 * x**4', fs, 'p', 'pstar4 * x * x', 'pressure is not p* times the fourth power of the root')
    else:
        rets = [r_ for r_ in walk_no_nested(fs.node) if isinstance(r_, ast.Return) and r_.value is not None and
                not (isinstance(r_.value, ast.Constant) and r_.value.value is None)]
        if len(rets) == 1:
            check_formula(run, 'IAPWS97.sat :: p = pstar4 * x**4', fs, None, 'pstar4 * x * x', 'pressure is not p* times the fourth power of the root', node=rets[0].value)
        else: run.unknown('IAPWS97.sat :: p = pstar4 * x**4', 'returned pressure expression not found', where=fs.where())
    check_formula(run, 'IAPWS97.sat :: x squared in place', fs, 'x', 'x * x', 'root is not squared', which=-1)


def rule_endpoint(run):
    run.rule('ENDPOINT', 'the two end points of the closed saturation interval map into tsat\'s own validity interval: '
             'sat(lower t of region()) >= tsat lower bound and sat(tcritical) <= pcritical (constant folding of sat at two constants)', floor=2)
    import math
    from ..consteval import Interp
    prog = run.prog
    sat = prog.func('IAPWS97.sat')
    env = {}
    for name in ('nr4', 'tc_k', 'pstar4', 'tcritical', 'tcriticalk', 'pcritical'):
        v = prog.fold_global(MOD, name)
        if v is TOP: raise AnalysisError('constant %s does not fold' % name)
        env[name] = v
    _t, tsat_env = _guard_of(prog, prog.func('IAPWS97.tsat'))
    p_iv = tsat_env.get('p')
    reg = prog.func('IAPWS97.region')
    facts = region_walk(prog, MOD, reg)
    tlo = min([f[2]['t'].lo for f in facts if 't' in f[2]] or [0.01])
    for label, t in (('lower end t = %s' % tlo, tlo), ('upper end t = tcritical', env['tcritical'])):
        key = 'IAPWS97.sat/tsat :: %s' % label
        try:
            p = Interp(env, extra={'sqrt': math.sqrt}).call_function(sat.node, [t])
        except AnalysisError as e:
            run.unknown(key, 'sat() not evaluable by constant folding: %s' % e, where=sat.where()); continue
        if p is None:
            run.violated(key, 'sat(%r) returns None: the end point is outside sat\'s own interval' % t, where=sat.where()); continue
        inside = (p_iv.lo <= p if p_iv.lo_closed else p_iv.lo < p) and (p <= p_iv.hi if p_iv.hi_closed else p < p_iv.hi)
        if inside: run.ok(key, {'sat': p, 'tsat_interval': repr(p_iv)})
        else:
            run.violated(key, 'sat(%r) = %r lies outside tsat\'s validity interval %r, so tsat(sat(t)) returns None at this end point: '
                         'the two are not inverses on the closed saturation interval' % (t, p, p_iv), where='IAPWS97.py (tsat)')
    # the 2/3 boundary pair: b23t must accept b23p(t) at both ends of the boundary used by region() (when b23t restricts its range)
    b23p_, b23t_ = prog.func('IAPWS97.b23p'), prog.func('IAPWS97.b23t')
    genv = dict(env)
    for name in ('nr23',):
        v = prog.fold_global(MOD, name)
        if v is TOP: raise AnalysisError('constant %s does not fold' % name)
        genv[name] = v
    guards = [st for st in b23t_.node.body if isinstance(st, ast.If)]
    tends = sorted(set([f[2]['t'].lo for f in facts if f[1] == 3 and 't' in f[2]] + [f[2]['t'].hi for f in facts if f[1] == 3 and 't' in f[2]])) or [350.0, 590.0]
    for t in tends:
        key = 'IAPWS97.b23p/b23t :: end point t = %s of the 2/3 boundary' % t
        if not guards:
            run.ok(key, 'b23t does not restrict its argument'); continue
        try:
            funcs = {'sat': sat.node, 'b23p': b23p_.node}
            p = Interp(genv, extra={'sqrt': math.sqrt}, funcs=funcs).call_function(b23p_.node, [t])
            inside = Interp(dict(genv, **{b23t_.params[0]: p}), extra={'sqrt': math.sqrt}, funcs=funcs).expr(guards[0].test)
        except AnalysisError as e:
            run.unknown(key, 'not evaluable by constant folding: %s' % e, where=b23t_.where()); continue
        if inside: run.ok(key, {'b23p': p})
        else:
            run.violated(key, 'b23p(%r) = %r does not pass b23t\'s own range test `%s`: b23t(b23p(t)) returns no value at this end of the boundary, '
                         'so the two forms are not inverses on the closed interval' % (t, p, norm(guards[0].test)), where=b23t_.where(guards[0]))
    run.trust('whitelist interpreter evaluating the pure arithmetic function sat() at two constants (exact constant folding, math.sqrt allowed)')


def rule_divsafe(run):
    run.rule('DIVSAFE', 'over the whole guarded input range of sat(), tsat() and b23t() no denominator can be zero and no square-root '
             'argument negative: outward-rounded interval evaluation of the routine on a subdivision of the range excludes it; a '
             'denominator whose sign differs at the two ends of the range has a zero inside it (intermediate value theorem)', floor=2)
    from ..ivarith import IV, IVEval, Hazard
    from ..intervals import constraints
    prog = run.prog
    ccache = {}
    for fname, N in (('sat', 4096), ('tsat', 8192)):
        fi = prog.func(MOD + '.' + fname)
        var = fi.params[0]
        guard = [st for st in fi.node.body if isinstance(st, ast.If)]
        key = 'IAPWS97.%s :: divisions and square roots defined on the whole range' % fname
        if len(guard) != 1:
            run.unknown(key, 'range guard not found', where=fi.where()); continue
        env, rest = constraints(prog, MOD, guard[0].test)
        iv = env.get(var)
        if iv is None or rest or not (iv.lo > -1e300 and iv.hi < 1e300):
            run.unknown(key, 'guard `%s` is not a closed range of %s' % (norm(guard[0].test), var), where=fi.where(guard[0])); continue
        body = guard[0].body

        def evaluate(lo, hi):
            ev = IVEval(prog, MOD, {var: IV(lo, hi)}, ccache)
            try:
                ev.run(body); return ev, None
            except Hazard as h:
                return ev, h
        # 1. point evaluation at the two ends: the sign of every denominator
        try:
            e_lo, h_lo = evaluate(iv.lo, iv.lo)
            e_hi, h_hi = evaluate(iv.hi, iv.hi)
        except AnalysisError as e:
            run.unknown(key, str(e), where=fi.where()); continue
        flipped = None
        for k, (kind, node, opnd) in e_lo.sites.items():
            if kind == 'division' and k in e_hi.sites:
                s0, s1 = opnd.sign(), e_hi.sites[k][2].sign()
                if s0 * s1 == -1: flipped = (node, opnd, e_hi.sites[k][2])
        if flipped:
            node, a, b = flipped
            run.violated(key, 'the denominator `%s` is %s at %s = %g and %s at %s = %g: it passes through zero inside the range, where '
                         '`%s` is 0/0 or infinite (an algebraically equivalent rearrangement of the quadratic root that is singular where '
                         'its leading coefficient changes sign)' % (norm(node.right), 'negative' if a.sign() < 0 else 'positive', var, iv.lo,
                                                                    'negative' if b.sign() < 0 else 'positive', var, iv.hi, norm(node)),
                         where=fi.where(node))
            continue
        # 2. enclosure on an adaptive subdivision (a piece on which an operand is not yet enclosed away from the hazard is bisected)
        bad, n_eval = None, 0
        try:
            work = [(iv.lo + (iv.hi - iv.lo) * i / 64.0, iv.lo + (iv.hi - iv.lo) * (i + 1) / 64.0 if i < 63 else iv.hi, 0) for i in range(64)]
            while work:
                lo, hi, depth = work.pop()
                n_eval += 1
                ev, h = evaluate(lo, hi)
                if h is None: continue
                if depth >= 40 or n_eval > 60000 or not (lo < (lo + hi) / 2 < hi):
                    bad = (h, lo, hi); break
                mid = (lo + hi) / 2
                work.append((lo, mid, depth + 1)); work.append((mid, hi, depth + 1))
        except AnalysisError as e:
            run.unknown(key, str(e), where=fi.where()); continue
        if bad is None:
            run.ok(key, {'range': '%s in [%g, %g]' % (var, iv.lo, iv.hi), 'interval evaluations': n_eval, 'sites': len(e_lo.sites)}, where=fi.where())
        else:
            hz, l2, h2 = bad
            run.unknown(key, 'for %s in [%.12g, %.12g] the %s operand `%s` is only enclosed by %s' % (var, l2, h2, hz.kind, norm(hz.node)[:60], hz.iv),
                        where=fi.where(hz.node))
    run.trust('interval evaluator ivarith.py (outward rounding by nextafter; +, -, *, /, sqrt, squares)')


def rule_memo(run):
    run.rule('MEMO', 'a result remembered between calls (memo dictionary, caching decorator) is keyed by every parameter it depends on', floor=1)
    from .memo import memo_rule
    memo_rule(run, ['IAPWS97'])


def check(run):
    run.guarded('MEMO', rule_memo)
    run.guarded('DIVSAFE', rule_divsafe)
    run.guarded('CHAIN', rule_chain)
    run.guarded('USE', rule_use)
    run.guarded('DERIV', rule_deriv)
    run.guarded('GUARD', rule_guard)
    run.guarded('TRANSP', rule_transp)
    run.guarded('ENDPOINT', rule_endpoint)
