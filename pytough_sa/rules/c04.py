"""C04 - geometry -> TOUGH2 grid.  Rules TWIN, PRED, DIM."""
import ast
import copy
from ..core import parent_map, AnalysisError, norm, dotted, call_name, walk_no_nested, Folder, TOP as FTOP
from ..formula import compare, canon
from ..dim import DimEval, V, TOP, POS, LEN, AREA, VOL, NUM, require
from .pred_common import rule_pred
from .. import roles

LEVEL = 'other'
EXPLANATION = (
    "(TWIN) the geometry's own enumeration of blocks and connections (setup_block_name_index, "
    "setup_block_connection_name_index) and the grid builder (add_atmosphereblocks, add_underground_blocks, "
    "add_connections, add_vertical/horizontal_layer_connections) are compared fact by fact after renaming the "
    "receiver: same layer loop, same column filter, vertical before horizontal, same top-of-column predicate "
    "(with the index algebra ilay == 0 <=> layerlist.index(lay) == 1 and layerlist[ilay] == layerlist[index-1]), "
    "same atmosphere-type switch, same pair orientation, same horizontal filter. (PRED) the block-existence "
    "predicate is one relation at all 12 sites. (DIM) every volume, area, distance and centre formula on the "
    "path from geometry to grid is typed in a dimension + affine-weight domain: sums need equal dimensions, a "
    "position may not be multiplied by a length or passed to norm(), sinks (constructor arguments, returns, "
    "seeded attributes) need volume / area / length / position - which is invariance under rescaling the "
    "length unit and moving the origin. Dimension-preserving slips (max for min, top for surface) are not decided.")

G, T2 = 'mulgrids.mulgrid.', 't2grids.t2grid.'


def _ren(text):
    return text.replace('geo.', 'self.')


def _same(run, key, a_node, b_node, where_a, where_b, what):
    """compare two expressions after renaming geo -> self"""
    if a_node is None or b_node is None:
        run.unknown(key, 'expression not found on %s side' % ('geometry' if a_node is None else 'grid'), where=where_b or where_a); return
    a = ast.parse(_ren(norm(a_node)), mode='eval').body
    from ..formula import compare as _cmp
    r = _cmp(a, _ren(norm(b_node)))
    if r == 'equal': run.ok(key, _ren(norm(a_node)), where=where_b)
    elif r == 'incomparable':
        # different vocabulary (a local variable called differently on the two sides, ...): not decided, never a violation
        run.unknown(key, '%s: `%s` (geometry) and `%s` (grid builder) do not use the same names' % (what, norm(a_node), norm(b_node)), where=where_b)
    else:
        run.violated(key, '%s: the geometry uses `%s`, the grid builder `%s`: the grid does not have the blocks/connections in the '
                     'order and orientation the geometry announces' % (what, norm(a_node), norm(b_node)), where=where_b)


def rule_twin(run):
    run.rule('TWIN', 'the geometry\'s block / connection enumeration and the grid builder agree fact by fact '
             '(loops, filters, predicate, atmosphere switch, orientation)', floor=14)
    prog = run.prog
    sb = prog.func(G + 'setup_block_name_index')
    sc = prog.func(G + 'setup_block_connection_name_index')
    aa = prog.func(T2 + 'add_atmosphereblocks')
    au = prog.func(T2 + 'add_underground_blocks')
    ac = prog.func(T2 + 'add_connections')
    av = prog.func(T2 + 'add_vertical_layer_connections')
    ah = prog.func(T2 + 'add_horizontal_layer_connections')
    ab = prog.func(T2 + 'add_blocks')
    fg = prog.func(T2 + 'fromgeo')

    def find_if(fi, test_text):
        for n in ast.walk(fi.node):
            if isinstance(n, ast.If) and _ren(norm(n.test)) == test_text: return n
        return None

    def first_call(stmts, name):
        for s in stmts:
            for c in ast.walk(s):
                if isinstance(c, ast.Call) and call_name(c) == name: return c
        return None
    # ---- atmosphere blocks
    for t in ('0', '1'):
        gi, ti = find_if(sb, 'self.atmosphere_type == ' + t), find_if(aa, 'self.atmosphere_type == ' + t)
        key = 'atmosphere type %s :: block name' % t
        if gi is None or ti is None:
            run.unknown(key, 'atmosphere branch not found', where=aa.where()); continue
        gc, tc = first_call(gi.body, 'block_name'), first_call(ti.body, 'block_name')
        # the grid passes the block map as an extra argument
        if tc is not None:
            tc2 = copy.deepcopy(tc); tc2.args = tc2.args[:2]
        else: tc2 = None
        _same(run, key, gc, tc2, sb.where(gi), aa.where(ti), 'atmosphere block name')
        if t == '1':
            gl = [n for n in gi.body if isinstance(n, ast.For)]
            tl = [n for n in ti.body if isinstance(n, ast.For)]
            _same(run, 'atmosphere type 1 :: one block per column in column order', gl[0].iter if gl else None, tl[0].iter if tl else None,
                  sb.where(gi), aa.where(ti), 'atmosphere blocks loop')
    # number of atmosphere blocks
    na = prog.func(G + 'get_num_atmosphere_blocks')
    rets = [r for r in walk_no_nested(na.node) if isinstance(r, ast.Return)]
    good = rets and compare(rets[0].value, '[1, self.num_columns, 0][self.atmosphere_type]') == 'equal'
    if good: run.ok('num_atmosphere_blocks :: [1, num_columns, 0][atmosphere_type]', where=na.where())
    elif rets and compare(rets[0].value, '[1, self.num_columns, 0][self.atmosphere_type]') == 'different':
        run.violated('num_atmosphere_blocks :: [1, num_columns, 0][atmosphere_type]', 'returns %s' % norm(rets[0].value), where=na.where())
    else: run.unknown('num_atmosphere_blocks :: [1, num_columns, 0][atmosphere_type]', 'shape not recognised', where=na.where())
    # underground blocks: the grid iterates the geometry's own list after the atmosphere blocks
    lp = [n for n in walk_no_nested(au.node) if isinstance(n, ast.For)]
    key = 'underground blocks :: grid iterates geo.block_name_list[num_atmosphere_blocks:]'
    if lp and compare(lp[0].iter, 'geo.block_name_list[geo.num_atmosphere_blocks:]') == 'equal': run.ok(key, where=au.where(lp[0]))
    elif lp: run.violated(key, 'iterates `%s`' % norm(lp[0].iter), where=au.where(lp[0]))
    else: run.unknown(key, 'loop not found', where=au.where())
    if lp:
        # the block constructed per name: its arguments with every local of the loop body substituted by its definition
        bn = lp[0].target.id
        geo_, bmap = au.params[1], (au.params[2] if len(au.params) > 2 else 'blockmap')
        defs = {}
        for n in lp[0].body:
            if isinstance(n, ast.Assign) and len(n.targets) == 1 and isinstance(n.targets[0], ast.Name):
                defs[n.targets[0].id] = None if n.targets[0].id in defs else n.value        # defined twice: not substituted

        def inline(e, depth=0):
            class R(ast.NodeTransformer):
                def visit_Name(self, x):
                    if isinstance(x.ctx, ast.Load) and defs.get(x.id) is not None and depth < 6:
                        return inline(copy.deepcopy(defs[x.id]), depth + 1)
                    return x
            return R().visit(copy.deepcopy(e))
        mk = [c for c in ast.walk(lp[0]) if isinstance(c, ast.Call) and isinstance(c.func, ast.Name) and c.func.id == 't2block']
        LAY, COL = '%s.layer[%s.layer_name(%s)]' % (geo_, geo_, bn), '%s.column[%s.column_name(%s)]' % (geo_, geo_, bn)
        want = (('name', lambda c: c.args[0] if c.args else None, '%s[%s] if %s in %s else %s' % (bmap, bn, bn, bmap, bn)),
                ('vol', lambda c: c.args[1] if len(c.args) > 1 else None, '%s.block_volume(%s, %s)' % (geo_, LAY, COL)),
                ('centre', lambda c: dict((k.arg, k.value) for k in c.keywords).get('centre', c.args[3] if len(c.args) > 3 else None),
                 '%s.block_centre(%s, %s)' % (geo_, LAY, COL)))
        for var, pick, expected in want:
            k = 'underground blocks :: %s' % var
            if len(mk) != 1 or pick(mk[0]) is None:
                run.unknown(k, 't2block(...) construction not found in the loop', where=au.where(lp[0])); continue
            got = inline(pick(mk[0]))
            r = compare(got, expected)
            if r == 'equal': run.ok(k, where=au.where(mk[0]))
            elif r == 'different': run.violated(k, 'the block is built with %s = %s (expected %s)' % (var, norm(got), expected), where=au.where(mk[0]))
            else: run.unknown(k, norm(got), where=au.where(mk[0]))
        added = [c for c in ast.walk(lp[0]) if isinstance(c, ast.Call) and call_name(c) == 'add_block' and dotted(c.func.value) == 'self']
        run.shape(len(added) == 1, 'underground blocks :: each constructed block is added', 'self.add_block(...) not found once in the loop', where=au.where(lp[0]))
    # order: atmosphere blocks, then underground ; blocks then connections
    def call_order(fi):
        return [call_name(c) for c in walk_no_nested(fi.node) if isinstance(c, ast.Call) and isinstance(c.func, ast.Attribute) and dotted(c.func.value) == 'self']
    o = call_order(ab)
    run.check(o == ['add_atmosphereblocks', 'add_underground_blocks'], 'add_blocks :: atmosphere blocks first', 'calls %s' % o, where=ab.where())
    o = [c for c in call_order(fg) if c in ('add_blocks', 'add_connections')]
    run.check(o == ['add_blocks', 'add_connections'], 'fromgeo :: blocks before connections', 'calls %s' % o, where=fg.where())
    # ---- connections
    gl = [n for n in walk_no_nested(sc.node) if isinstance(n, ast.For)]
    tl = [n for n in walk_no_nested(ac.node) if isinstance(n, ast.For)]
    g_iter = gl[0].iter if gl else None
    if isinstance(g_iter, ast.Call) and call_name(g_iter) == 'enumerate': g_iter = g_iter.args[0]
    _same(run, 'connections :: outer loop over the underground layers', g_iter, tl[0].iter if tl else None, sc.where(), ac.where(), 'layer loop')
    def layercols(fi):
        for n in ast.walk(fi.node):
            if isinstance(n, ast.Assign) and norm(n.targets[0]) == 'layercols': return n.value
        return None
    _same(run, 'connections :: columns present in the layer', layercols(sc), layercols(ac), sc.where(), ac.where(), 'column filter')
    # vertical before horizontal
    if tl:
        order = [call_name(c) for c in ast.walk(tl[0]) if isinstance(c, ast.Call) and call_name(c) in ('add_vertical_layer_connections', 'add_horizontal_layer_connections')]
        gbody = gl[0].body if gl else []
        gfor = [n for n in gbody if isinstance(n, ast.For)]
        g_order = ['vertical' if norm(f.iter) == 'layercols' else 'horizontal' for f in gfor]
        t_order = ['vertical' if 'vertical' in c else 'horizontal' for c in order]
        if g_order == t_order == ['vertical', 'horizontal']: run.ok('connections :: vertical then horizontal within a layer', where=ac.where())
        elif g_order and t_order and g_order != t_order:
            run.violated('connections :: vertical then horizontal within a layer', 'geometry lists %s, grid adds %s' % (g_order, t_order), where=ac.where())
        else: run.unknown('connections :: vertical then horizontal within a layer', 'geometry %s grid %s' % (g_order, t_order), where=ac.where())
        # arguments handed down
        vc = [c for c in ast.walk(tl[0]) if isinstance(c, ast.Call) and call_name(c) == 'add_vertical_layer_connections']
        if vc: run.check([norm(a) for a in vc[0].args[:3]] == ['geo', 'lay', 'layercols'], 'connections :: vertical helper gets (geo, lay, layercols)',
                         'called with %s' % [norm(a) for a in vc[0].args], where=ac.where())
        hc = [c for c in ast.walk(tl[0]) if isinstance(c, ast.Call) and call_name(c) == 'add_horizontal_layer_connections']
        if hc: run.check([norm(a) for a in hc[0].args[:3]] == ['geo', 'lay', 'layercols'], 'connections :: horizontal helper gets (geo, lay, layercols)',
                         'called with %s' % [norm(a) for a in hc[0].args], where=ac.where())
    # vertical: loop, predicate (index algebra), atmosphere switch, above layer, orientation
    gv = [n for n in ast.walk(sc.node) if isinstance(n, ast.For) and norm(n.iter) == 'layercols']
    tv = [n for n in walk_no_nested(av.node) if isinstance(n, ast.For) and norm(n.iter) == 'layercols']
    if not gv or not tv:
        run.unknown('vertical connections :: loops', 'loop over layercols not found', where=av.where()); return
    gi = [n for n in gv[0].body if isinstance(n, ast.If)]
    ti = [n for n in tv[0].body if isinstance(n, ast.If)]
    key = 'vertical connections :: top-of-column predicate'
    if gi and ti:
        # index algebra.  L = position of `lay` in layerlist.  Geometry: `for I, lay in enumerate(self.layerlist[1:], start=s)` gives
        # I = L - 1 + s.  Grid: geo.layerlist.index(lay) = L (held in a local or written in place).
        en = [n for n in walk_no_nested(sc.node) if isinstance(n, ast.For) and isinstance(n.iter, ast.Call) and call_name(n.iter) == 'enumerate'
              and n.iter.args and norm(n.iter.args[0]) == 'self.layerlist[1:]' and isinstance(n.target, ast.Tuple) and len(n.target.elts) == 2
              and all(isinstance(e, ast.Name) for e in n.target.elts)]
        gstart = None
        if len(en) == 1:
            st_ = en[0].iter.args[1] if len(en[0].iter.args) > 1 else next((k.value for k in en[0].iter.keywords if k.arg == 'start'), None)
            gstart = 0 if st_ is None else (st_.value if isinstance(st_, ast.Constant) and isinstance(st_.value, int) else None)
        run.shape(gstart is not None, 'vertical connections :: ilay enumerates layerlist[1:] from 0', 'enumeration not recognised', where=sc.where())
        I = en[0].target.elts[0].id if len(en) == 1 else None
        LAYV = en[0].target.elts[1].id if len(en) == 1 else 'lay'

        def offset(e, is_base):
            """c with e == base + c, or None"""
            if is_base(e): return 0
            if isinstance(e, ast.BinOp) and isinstance(e.op, (ast.Add, ast.Sub)) and isinstance(e.right, ast.Constant) and isinstance(e.right.value, int):
                o = offset(e.left, is_base)
                if o is not None: return o + (e.right.value if isinstance(e.op, ast.Add) else -e.right.value)
            return None
        g_base = lambda e: isinstance(e, ast.Name) and e.id == I
        t_base = lambda e: norm(e) == 'geo.layerlist.index(lay)'

        def split_pred(test, stmts, is_base, shift):
            """(true layer index the index test selects, the other disjuncts as text) of `<index> == c or <rest>`"""
            test = roles.inline_locals(test, stmts)
            parts = list(test.values) if isinstance(test, ast.BoolOp) and isinstance(test.op, ast.Or) else [test]
            Ls, rest = [], []
            for p_ in parts:
                if isinstance(p_, ast.Compare) and len(p_.ops) == 1 and isinstance(p_.ops[0], ast.Eq):
                    for a_, b_ in ((p_.left, p_.comparators[0]), (p_.comparators[0], p_.left)):
                        o = offset(a_, is_base)
                        if o is not None and isinstance(b_, ast.Constant) and isinstance(b_.value, int):
                            Ls.append(b_.value - o + shift); break
                    else: rest.append(_ren(norm(p_)))
                else: rest.append(_ren(norm(p_)))
            return Ls, sorted(rest)
        if gstart is None or I is None:
            run.unknown(key, 'geometry-side enumeration not resolved', where=av.where(ti[0]))
        else:
            gL, grest = split_pred(gi[0].test, gv[0].body, g_base, 1 - gstart)
            tL, trest = split_pred(ti[0].test, av.node.body, t_base, 0)
            if len(gL) != 1 or len(tL) != 1:
                run.unknown(key, 'index test not recognised: geometry `%s`, grid `%s`' % (norm(gi[0].test), norm(ti[0].test)), where=av.where(ti[0]))
            elif gL == tL == [1] and grest == trest: run.ok(key, {'layer': 1, 'or': trest}, where=av.where(ti[0]))
            elif gL != tL or gL != [1]:
                run.violated(key, 'geometry connects a block to the atmosphere in layer %d (`%s`), the grid in layer %d (`%s`); the first layer below the '
                             'atmosphere is layer 1' % (gL[0], norm(gi[0].test), tL[0], norm(ti[0].test)), where=av.where(ti[0]))
            elif set(x for r_ in grest + trest for x in __import__('re').findall(r'[A-Za-z_]+', r_)) <= set(x for r_ in grest for x in __import__('re').findall(r'[A-Za-z_]+', r_)) \
                    and len(grest) == len(trest):
                run.violated(key, 'geometry connects a block to the atmosphere when `%s`, the grid when `%s`' % (norm(gi[0].test), norm(ti[0].test)), where=av.where(ti[0]))
            else: run.unknown(key, 'geometry `%s`, grid `%s`' % (norm(gi[0].test), norm(ti[0].test)), where=av.where(ti[0]))
        # atmosphere switch inside the true branch
        for t, want_g, want_t in (('0', 'self.block_name_list[0]', 'self.blocklist[0]'), ('1', None, None)):
            g_if = [n for n in ast.walk(gi[0]) if isinstance(n, ast.If) and norm(n.test) == 'self.atmosphere_type == ' + t and n is not gi[0]]
            t_if = [n for n in ast.walk(ti[0]) if isinstance(n, ast.If) and norm(roles.inline_locals(n.test, tv[0].body)) == 'geo.atmosphere_type == ' + t and n is not ti[0]]
            k = 'vertical connections :: atmosphere type %s above block' % t
            if not g_if or not t_if: run.unknown(k, 'branch not found', where=av.where(ti[0])); continue
            ga = [s.value for s in g_if[0].body if isinstance(s, ast.Assign) and norm(s.targets[0]) == 'aboveblkname']
            ta = [s.value for s in t_if[0].body if isinstance(s, ast.Assign) and norm(s.targets[0]) == 'aboveblk']
            if not ga or not ta: run.unknown(k, 'assignment not found', where=av.where(t_if[0])); continue
            if t == '0':
                good = norm(ga[0]) == want_g and norm(ta[0]) == want_t
                run.check(good, k, 'geometry uses %s, grid %s (the single atmosphere block is first in both lists)' % (norm(ga[0]), norm(ta[0])), where=av.where(t_if[0]))
            else:
                tcall = ta[0].slice if isinstance(ta[0], ast.Subscript) else None
                if tcall is not None and isinstance(tcall, ast.Call):
                    tcall = copy.deepcopy(tcall); tcall.args = tcall.args[:2]
                _same(run, k, ga[0], tcall, sc.where(g_if[0]), av.where(t_if[0]), 'per-column atmosphere block')
        # no-atmosphere case skips the connection on both sides
        gcont = any(isinstance(s, ast.Continue) for n in ast.walk(gi[0]) if isinstance(n, ast.If) for s in n.orelse)
        tcont = any(isinstance(s, ast.Continue) for n in ast.walk(ti[0]) if isinstance(n, ast.If) for s in n.orelse)
        if not tcont:
            # the same through a default: `aboveblk = None` before the switch and the connection built under `if aboveblk is not None:`
            cons_ = [c_ for c_ in ast.walk(tv[0]) if isinstance(c_, ast.Call) and isinstance(c_.func, ast.Name) and c_.func.id == 't2connection']
            pm_ = parent_map(tv[0])
            for c_ in cons_:
                cur_ = c_
                while cur_ in pm_:
                    cur_ = pm_[cur_]
                    if isinstance(cur_, ast.If) and isinstance(cur_.test, ast.Compare) and len(cur_.test.ops) == 1 and isinstance(cur_.test.ops[0], ast.IsNot) \
                       and isinstance(cur_.test.comparators[0], ast.Constant) and cur_.test.comparators[0].value is None and isinstance(cur_.test.left, ast.Name) \
                       and any(isinstance(a_, ast.Assign) and norm(a_.targets[0]) == cur_.test.left.id and isinstance(a_.value, ast.Constant) and a_.value.value is None
                               for a_ in ast.walk(tv[0])):
                        tcont = True
        gsw = any(isinstance(n, ast.If) and n is not gi[0] and 'atmosphere_type' in norm(n.test) for n in ast.walk(gi[0]))
        tsw = any(isinstance(n, ast.If) and n is not ti[0] and 'atmosphere_type' in norm(roles.inline_locals(n.test, tv[0].body)) for n in ast.walk(ti[0]))
        if not (gsw and tsw):
            run.unknown('vertical connections :: no atmosphere -> no connection on both sides', 'atmosphere-type switch not found in the '
                        'surface branch (moved into a helper?)', where=av.where(ti[0]))
        else:
            run.check(gcont and tcont, 'vertical connections :: no atmosphere -> no connection on both sides',
                      'geometry %s, grid %s the top connection when there are no atmosphere blocks' % ('skips' if gcont else 'keeps', 'skips' if tcont else 'keeps'), where=av.where(ti[0]))
        # above layer (else branch)
        gab = [s.value for s in gi[0].orelse if isinstance(s, ast.Assign) and norm(s.targets[0]) == 'abovelayer']
        tab_ = [s.value for s in ti[0].orelse if isinstance(s, ast.Assign) and norm(s.targets[0]) == 'abovelayer']
        k = 'vertical connections :: layer above'
        if gab and tab_ and gstart is not None and I is not None:
            ga_ = roles.inline_locals(gab[0], gv[0].body)
            ta_ = roles.inline_locals(tab_[0], av.node.body)
            go = offset(ga_.slice, g_base) if isinstance(ga_, ast.Subscript) and norm(ga_.value) == 'self.layerlist' else None
            to = offset(ta_.slice, t_base) if isinstance(ta_, ast.Subscript) and norm(ta_.value) == 'geo.layerlist' else None
            if go is None or to is None: run.unknown(k, 'geometry takes %s, grid %s' % (norm(ga_), norm(ta_)), where=av.where(ti[0]))
            else:
                gl_, tl_ = go - 1 + gstart, to            # offsets relative to the true index L (I = L - 1 + s)
                if gl_ == tl_ == -1: run.ok(k, 'layer L - 1 on both sides', where=av.where(ti[0]))
                else:
                    run.violated(k, 'for a block in layer L the geometry takes layer L%+d (`%s`), the grid layer L%+d (`%s`) as the layer above'
                                 % (gl_, norm(gab[0]), tl_, norm(ta_)), where=av.where(ti[0]))
        else: run.unknown(k, 'assignments not found', where=av.where(ti[0]))
    else:
        run.unknown(key, 'predicate not found', where=av.where())
    # orientation of the vertical pair
    gapp = [c for c in ast.walk(gv[0]) if isinstance(c, ast.Call) and call_name(c) == 'append']
    tcon = [c for c in ast.walk(tv[0]) if isinstance(c, ast.Call) and isinstance(c.func, ast.Name) and c.func.id == 't2connection']
    k = 'vertical connections :: orientation (this block, block above)'
    if gapp and tcon:
        good = norm(gapp[0].args[0]) == '(thisblkname, aboveblkname)' and norm(tcon[0].args[0]) == '[thisblk, aboveblk]'
        if good: run.ok(k, where=av.where(tcon[0]))
        else: run.violated(k, 'geometry lists %s, grid builds %s' % (norm(gapp[0].args[0]), norm(tcon[0].args[0])), where=av.where(tcon[0]))
        run.check(len(tcon[0].args) >= 2 and norm(tcon[0].args[1]) == '3', 'vertical connections :: permeability direction 3', 'direction %s' % norm(tcon[0].args[1]), where=av.where(tcon[0]))
    else: run.unknown(k, 'not found', where=av.where())
    tb = [s.value for s in tv[0].body if isinstance(s, ast.Assign) and norm(s.targets[0]) == 'thisblk']
    gb = [s.value for s in gv[0].body if isinstance(s, ast.Assign) and norm(s.targets[0]) == 'thisblkname']
    if tb and gb and isinstance(tb[0], ast.Subscript) and isinstance(tb[0].slice, ast.Call):
        c = copy.deepcopy(tb[0].slice); c.args = c.args[:2]
        _same(run, 'vertical connections :: this block', gb[0], c, sc.where(), av.where(), 'block name')
    # horizontal
    gh = [n for n in ast.walk(sc.node) if isinstance(n, ast.Assign) and norm(n.targets[0]) == 'cons']
    th = [n for n in walk_no_nested(ah.node) if isinstance(n, ast.For)]
    k = 'horizontal connections :: connections whose two columns are in the layer'
    if gh and th and isinstance(th[0].iter, ast.ListComp):
        _same(run, k, gh[0].value, th[0].iter, sc.where(gh[0]), ah.where(th[0]), 'horizontal connection filter')
    else: run.unknown(k, 'not found', where=ah.where())
    gn = [n for n in ast.walk(sc.node) if isinstance(n, ast.Assign) and norm(n.targets[0]) == 'conblocknames']
    tn = [n for n in ast.walk(ah.node) if isinstance(n, ast.Assign) and norm(n.targets[0]) == 'conblocks']
    k = 'horizontal connections :: orientation follows con.column'
    if gn and tn:
        gcomp = [c for c in ast.walk(gn[0].value) if isinstance(c, ast.ListComp)]
        tcomp = [c for c in ast.walk(tn[0].value) if isinstance(c, ast.ListComp)]
        good = gcomp and tcomp and norm(gcomp[0].generators[0].iter) == norm(tcomp[0].generators[0].iter) == 'con.column'
        if good: run.ok(k, where=ah.where(tn[0]))
        else: run.violated(k, 'geometry iterates %s, grid %s' % (norm(gcomp[0].generators[0].iter) if gcomp else None, norm(tcomp[0].generators[0].iter) if tcomp else None), where=ah.where(tn[0]))
        hc = [c for c in ast.walk(ah.node) if isinstance(c, ast.Call) and isinstance(c.func, ast.Name) and c.func.id == 't2connection']
        if hc: run.check(norm(hc[0].args[0]) == 'conblocks', 'horizontal connections :: connection built from conblocks in order', 'built from %s' % norm(hc[0].args[0]), where=ah.where(hc[0]))
    else: run.unknown(k, 'not found', where=ah.where())


# ---------------------------------------------------------------------------
SCOPE = [
    # (qualname, param seeds, return type or None)
    (G + 'block_surface', {}, POS), (G + 'block_volume', {}, VOL), (G + 'block_centre', {}, POS),
    (G + 'connection_params', {}, None),
    ('mulgrids.layer.translate', {'shift': LEN}, None), ('mulgrids.layer.get_thickness', {}, LEN),
    (G + 'add_layers', {'top_elevation': POS, 'thickness': LEN, 'thicknesses': LEN}, None),
    (G + 'identify_layer_tops', {}, None), (G + 'set_default_surface', {}, None),
    (G + 'read_layers', {}, None), (G + 'snap_columns_to_layers', {'min_thickness': LEN}, None),
    (G + 'snap_columns_to_nearest_layers', {}, None), (G + 'get_min_surface_block_thickness', {}, None),
    (T2 + 'add_atmosphereblocks', {}, None), (T2 + 'add_underground_blocks', {}, None),
    (T2 + 'add_vertical_layer_connections', {}, None), (T2 + 'add_horizontal_layer_connections', {}, None),
    ('mulgrids.column.get_area', {}, None), ('geometry.line_projection', {'a': POS}, None),
]
CTORS = {
    't2block': {1: ('volume', VOL), 'centre': ('centre', POS)},
    't2connection': {2: ('distances', 'LENPAIR'), 3: ('area', AREA), 4: ('dircos', NUM)},
    'layer': {1: ('bottom', POS), 2: ('centre', POS), 3: ('top', POS)},
}


def dim_function(run, prog, q, seeds, ret):
    fi = prog.func(q)
    ev = DimEval(dict((k, V(v[0], v[1])) for k, v in seeds.items()))
    sink_probs = []
    nsinks = [0]

    seen_sinks = set()

    def sink(node, v, want, what):
        r = require(ev, node, v, want, what, sink_probs)
        k = (getattr(node, 'lineno', 0), getattr(node, 'col_offset', 0), what)
        if r is not None and k not in seen_sinks:
            seen_sinks.add(k); nsinks[0] += 1

    def merge(a, b):
        out = {}
        for k in set(a) | set(b):
            va, vb = a.get(k, TOP), b.get(k, TOP)
            if va is TOP or vb is TOP: out[k] = TOP
            elif va.seq is not None or vb.seq is not None: out[k] = va if repr(va) == repr(vb) else TOP
            elif va.L == vb.L and va.w == vb.w: out[k] = V(va.L, va.w)
            elif va.lit is not None and va.lit == 0: out[k] = vb
            elif vb.lit is not None and vb.lit == 0: out[k] = va
            else: out[k] = TOP
        return out

    def exprs_in(st):
        for c in ([st] if isinstance(st, ast.expr) else []) + list(walk_no_nested(st)):
            if isinstance(c, ast.Call) and isinstance(c.func, ast.Name) and c.func.id in CTORS:
                spec = CTORS[c.func.id]
                for i, a in enumerate(c.args):
                    if i in spec: check_arg(a, spec[i])
                for k in c.keywords:
                    if k.arg in spec: check_arg(k.value, spec[k.arg])

    def check_arg(a, spec):
        what, want = spec
        v = ev.expr(a)
        if want == 'LENPAIR':
            if v is not TOP and v.seq is not None:
                for j, x in enumerate(v.seq):
                    sink(a.elts[j] if isinstance(a, (ast.List, ast.Tuple)) else a, x, LEN, 'connection distance %d' % (j + 1))
            return
        sink(a, v, want, what)

    budget = [4000]

    def walk(stmts):
        """path-sensitive: branches fork with their own environment and run on to the end of the function"""
        i = 0
        while i < len(stmts):
            st = stmts[i]
            budget[0] -= 1
            if budget[0] < 0: raise AnalysisError('%s: path budget exceeded' % fi.short)
            rest = stmts[i + 1:]
            if isinstance(st, ast.If):
                ev.expr(st.test)
                save = dict(ev.env)
                walk(list(st.body) + rest)
                ev.env = dict(save)
                walk(list(st.orelse) + rest)
                return
            if isinstance(st, (ast.For, ast.While)):
                if isinstance(st, ast.For):
                    ev.expr(st.iter)
                    if isinstance(st.target, ast.Name):
                        if isinstance(st.iter, ast.Name) and st.iter.id in ev.env and ev.env[st.iter.id] is not TOP: ev.env[st.target.id] = ev.env[st.iter.id]
                        else: ev.env[st.target.id] = TOP
                    elif isinstance(st.target, ast.Tuple):
                        for t in st.target.elts:
                            if isinstance(t, ast.Name): ev.env[t.id] = TOP
                save = dict(ev.env)
                # one iteration, then on; `continue`/`break` simply end that path's iteration
                walk([s for s in st.body] + rest)
                ev.env = dict(save)
                i += 1
                continue
            if isinstance(st, (ast.Continue, ast.Break)):
                i += 1
                continue
            if isinstance(st, ast.Try):
                save = dict(ev.env)
                walk(list(st.body) + rest)
                for h in st.handlers:
                    ev.env = dict(save)
                    walk(list(h.body) + rest)
                return
            simple(st)
            if isinstance(st, (ast.Return, ast.Raise)): return
            i += 1

    def simple(st):
            if isinstance(st, ast.Return):
                if st.value is not None:
                    exprs_in(st.value)
                    v = ev.expr(st.value)
                    if ret is not None and not (isinstance(st.value, ast.Constant) and st.value.value is None):
                        sink(st.value, v, ret, 'the value returned by %s' % fi.name)
                    if fi.name == 'connection_params' and v is not TOP and v.seq is not None and len(v.seq) == 2:
                        d, a = v.seq
                        if d is not TOP and d.seq is not None:
                            for j, x in enumerate(d.seq): sink(st.value, x, LEN, 'connection distance %d' % (j + 1))
                        elif d is not TOP: sink(st.value, d, LEN, 'connection distances')
                        sink(st.value, a, AREA, 'interface area')
            elif isinstance(st, ast.Assign):
                exprs_in(st.value)
                for t in st.targets:
                    v = ev.assign(t, st.value)
                    if isinstance(t, ast.Attribute) and t.attr in ev.attr and dotted(t.value) != 'self.__class__':
                        sink(st.value, v, ev.attr[t.attr], 'attribute .%s' % t.attr)
                    # list comprehension producing distances
                    if isinstance(t, ast.Name) and isinstance(st.value, ast.ListComp):
                        sub = DimEval(ev.env, ev.attr, ev.calls)
                        for g in st.value.generators:
                            if isinstance(g.target, ast.Name): sub.env[g.target.id] = TOP
                        x = sub.expr(st.value.elt)
                        ev.problems += sub.problems
                        ev.env[t.id] = x
            elif isinstance(st, ast.AugAssign):
                v = ev.expr(st.value)
                tgt = ev.expr(st.target) if not isinstance(st.target, ast.Name) else ev.env.get(st.target.id, TOP)
                if isinstance(st.op, (ast.Add, ast.Sub)) and tgt is not TOP and v is not TOP and tgt.seq is None and v.seq is None:
                    # x += d keeps the kind of x only if d is a displacement of the same dimension
                    if not (v.lit is not None and v.lit == 0):
                        if v.L != tgt.L: sink_probs.append((st, '`%s` adds a %r to a %r' % (norm(st), v, tgt)))
                        elif v.w not in (0, None): sink_probs.append((st, '`%s` adds a %r to a %r: the result is no longer a %r' % (norm(st), v, tgt, tgt)))
                        else: nsinks[0] += 1
                elif isinstance(st.op, (ast.Mult, ast.Div)) and tgt is not TOP and v is not TOP and v.seq is None and tgt.seq is None:
                    if v.L != 0 and isinstance(st.target, ast.Attribute) and st.target.attr in ev.attr:
                        sink_probs.append((st, '`%s` scales the %r attribute .%s by a %r' % (norm(st), tgt, st.target.attr, v)))
                    elif tgt.w not in (0, None) and v.lit is None and v.L != 0:
                        sink_probs.append((st, '`%s` multiplies a %r by a %r' % (norm(st), tgt, v)))
                    else: nsinks[0] += 1
                    if isinstance(st.target, ast.Name): ev.env[st.target.id] = V(tgt.L + (v.L if isinstance(st.op, ast.Mult) else -v.L), tgt.w if v.L == 0 else None)
            elif isinstance(st, ast.Expr):
                exprs_in(st.value)
                ev.expr(st.value)
    walk(fi.node.body)
    probs = list(ev.problems) + sink_probs
    seen = set()
    for node, msg in probs:
        k = '%s :: %s' % (fi.short, norm(node)[:70])
        if k in seen: continue
        seen.add(k)
        run.violated(k, msg + ' - the formula is not invariant under a change of length unit / origin', where=fi.where(node))
    run.ok('%s :: %d typed sinks consistent' % (fi.short, nsinks[0]) if not probs else '%s :: other sinks' % fi.short,
           {'sinks': nsinks[0]}, where=fi.where())
    return nsinks[0]


def rule_dim(run):
    run.rule('DIM', 'every volume / area / distance / centre formula from geometry to grid is dimension- and affine-'
             'type correct (invariance under unit rescaling and origin translation)', floor=15)
    prog = run.prog
    total = 0
    for q, seeds, ret in SCOPE:
        try:
            total += dim_function(run, prog, q, seeds, ret)
        except AnalysisError as e:
            run.unknown('%s :: analysis' % q, str(e))
    run.count('typed_sinks', total)
    if total < 25:
        run.unknown('DIM :: sinks', 'only %d typed sinks were reached (25 confirmed by hand)' % total)
    # positive control: the fixture must be flagged
    import os
    from ..core import ModuleInfo, VERIF
    m = ModuleInfo('dim_fixture', os.path.join(VERIF, 'fixtures'))

    class P(object):
        def __init__(self, f): self.f = f
        def func(self, q): return self.f
    from ..report import Run
    bad_found = good_clean = True
    for name, f in m.classes['fixture'].methods.items():
        r = Run('fixture', 'quick', None)
        dim_function(r, P(f), 'x', {}, VOL if 'volume' in name else POS)
        v = [o for o in r.obs if o.status == 'violated']
        if name.startswith('bad_') and not v: bad_found = False
        if name.startswith('good_') and v: good_clean = False
    run.shape(bad_found and good_clean, 'fixture :: dim_fixture.py', 'positive control failed (bad found: %s, good clean: %s)' % (bad_found, good_clean))
    run.trust('attribute / helper type table of dim.py (area L2, surface/top/bottom/centre/pos positions, thickness/distance lengths, volume L3)')


def rule_sumdist(run):
    run.rule('SUMDIST', 'vertical connection distances add up to the centre separation: below an ordinary block '
             '(lay.top - lay.centre) + (centre of the block above - its layer bottom), with top(lay) = bottom(layer above); to the '
             'atmosphere: (surface - block centre, atmosphere_connection); block heights of horizontal connections come from the '
             'same block_surface() that block_volume uses', floor=5)
    prog = run.prog
    av = prog.func(T2 + 'add_vertical_layer_connections')
    tv = [n for n in walk_no_nested(av.node) if isinstance(n, ast.For) and norm(n.iter) == 'layercols']
    ti = [n for n in tv[0].body if isinstance(n, ast.If)] if tv else []
    if not ti:
        run.unknown('vertical connections :: distances', 'top-of-column branch not found', where=av.where()); return
    top, inner = ti[0].body, ti[0].orelse
    def asg(stmts, name):
        v = [s.value for s in stmts if isinstance(s, ast.Assign) and norm(s.targets[0]) == name]
        if v: return v[0]
        # `belowdist, abovedist = pair` with `pair` a local bound once to a two-element literal (hoisted out of the loop)
        for s_ in stmts:
            if isinstance(s_, ast.Assign) and isinstance(s_.targets[0], (ast.Tuple, ast.List)) and isinstance(s_.value, ast.Name):
                names_ = [norm(e) for e in s_.targets[0].elts]
                src = [x for nm, x, st_ in roles.assignments(av.node) if nm == s_.value.id]
                if name in names_ and len(src) == 1 and isinstance(src[0], (ast.List, ast.Tuple)) and len(src[0].elts) == len(names_):
                    return src[0].elts[names_.index(name)]
        return None
    # interior
    b, a = asg(inner, 'belowdist'), asg(inner, 'abovedist')
    key = 'vertical connections :: interior distances add up to the centre separation'
    if b is None or a is None: run.unknown(key, 'assignments not found', where=av.where(ti[0]))
    else:
        total = ast.parse(('(%s) + (%s)' % (norm(b), norm(a))).replace('abovelayer.bottom', 'lay.top'), mode='eval').body
        r = compare(total, 'aboveblk.centre[2] - lay.centre')
        names_a = set(x.id for x in ast.walk(a) if isinstance(x, ast.Name))
        if r == 'equal': run.ok(key, norm(total), where=av.where(ti[0]))
        elif 'aboveblk' not in names_a:
            run.violated(key, 'the upper distance `%s` does not depend on the block above: when that block is a truncated surface block its '
                         'centre is not the layer centre, and the two distances no longer add up to the centre-to-centre separation' % norm(a),
                         where=av.where(ti[0]))
        elif r == 'different':
            run.violated(key, 'below + above = `%s`, which is not centre(above) - centre(this) = aboveblk.centre[2] - lay.centre' % norm(total), where=av.where(ti[0]))
        else: run.unknown(key, 'sum `%s` not comparable' % norm(total), where=av.where(ti[0]))
    # atmosphere
    b, a = asg(top, 'belowdist'), asg(top, 'abovedist')
    key = 'vertical connections :: atmosphere distances (surface - block centre, atmosphere_connection)'
    if b is None or a is None: run.unknown(key, 'assignments not found', where=av.where(ti[0]))
    else:
        r1 = compare(b, 'col.surface - thisblk.centre[2]')
        r2 = compare(a, 'geo.atmosphere_connection')
        if r1 == 'equal' and r2 == 'equal': run.ok(key, where=av.where(ti[0]))
        elif 'different' in (r1, r2): run.violated(key, 'distances are (`%s`, `%s`)' % (norm(b), norm(a)), where=av.where(ti[0]))
        else:
            nb = set(x.id for x in ast.walk(b) if isinstance(x, ast.Name))
            if 'thisblk' not in nb and 'col' in nb:
                run.violated(key, 'the lower distance `%s` does not use the block centre' % norm(b), where=av.where(ti[0]))
            else: run.unknown(key, '(`%s`, `%s`)' % (norm(b), norm(a)), where=av.where(ti[0]))
    # vertical area and gravity cosine
    con = [c for c in ast.walk(tv[0]) if isinstance(c, ast.Call) and isinstance(c.func, ast.Name) and c.func.id == 't2connection']
    if con and len(con[0].args) >= 5:
        r = compare(con[0].args[3], 'col.area')
        run.check(r == 'equal', 'vertical connections :: area is the column area', 'area is `%s`' % norm(con[0].args[3]), where=av.where(con[0]))
        r = compare(con[0].args[4], 'tilt[2]')
        run.check(r == 'equal', 'vertical connections :: gravity cosine is the vertical tilt component', 'dircos is `%s`' % norm(con[0].args[4]), where=av.where(con[0]))
        r = compare(con[0].args[2], '[belowdist, abovedist]')
        run.check(r == 'equal', 'vertical connections :: distances ordered (this block, block above)', 'distances `%s`' % norm(con[0].args[2]), where=av.where(con[0]))
    # block height used for the interface area
    cp = prog.func(G + 'connection_params')
    h = [n for n in walk_no_nested(cp.node) if isinstance(n, ast.Assign) and norm(n.targets[0]) == 'height']
    key = 'connection_params :: block height from block_surface(), as in block_volume'
    bv = prog.func(G + 'block_volume')
    uses_bv = any(isinstance(c, ast.Call) and call_name(c) == 'block_surface' for c in ast.walk(bv.node))
    all_calls = [c for c in ast.walk(cp.node) if isinstance(c, ast.Call) and call_name(c) == 'block_surface']
    direct = [x for x in ast.walk(cp.node) if isinstance(x, ast.Attribute) and x.attr == 'surface' and isinstance(x.ctx, ast.Load)]
    if uses_bv and not all_calls and direct:
        # whatever the locals are called: the block top is rebuilt from col.surface instead of being asked of block_surface()
        run.violated(key, 'connection_params reads `%s` itself and never calls block_surface(), which block_volume uses for the top of a block: the '
                     'two disagree for a top-layer block whose column surface lies above the top of the model (block_surface extends the block up to '
                     'the surface), so the interface area is no longer edge length times the lower block height' % norm(direct[0]), where=cp.where(direct[0]), robust=True)
    elif not h or not uses_bv: run.unknown(key, 'height assignment / block_volume shape not found', where=cp.where())
    else:
        calls = [c for c in ast.walk(h[0].value) if isinstance(c, ast.Call) and call_name(c) == 'block_surface']
        r = compare(h[0].value, 'min([self.block_surface(lay, c) - lay.bottom for c in con.column])')
        if r == 'equal': run.ok(key, where=cp.where(h[0]))
        elif not calls:
            run.violated(key, 'height is `%s`: the top of the block is not taken from block_surface(), which block_volume uses; the two '
                         'disagree for a column whose surface lies above the top layer, so area x distance no longer matches the volumes'
                         % norm(h[0].value), where=cp.where(h[0]))
        elif r == 'different': run.violated(key, 'height is `%s`' % norm(h[0].value), where=cp.where(h[0]))
        else: run.unknown(key, norm(h[0].value), where=cp.where(h[0]))
    ar = [n for n in walk_no_nested(cp.node) if isinstance(n, ast.Assign) and norm(n.targets[0]) == 'area']
    if ar:
        r = compare(ar[0].value, 'sidelength * height')
        k = 'connection_params :: area = shared edge length x height'
        if r == 'equal': run.ok(k, where=cp.where(ar[0]))
        elif r == 'different': run.violated(k, 'area is `%s`' % norm(ar[0].value), where=cp.where(ar[0]))
        else: run.unknown(k, norm(ar[0].value), where=cp.where(ar[0]))
    sl = [n for n in walk_no_nested(cp.node) if isinstance(n, ast.Assign) and norm(n.targets[0]) == 'sidelength']
    if sl:
        r = compare(sl[0].value, 'norm(con.node[0].pos - con.node[1].pos)', ['norm(con.node[1].pos - con.node[0].pos)'])
        k = 'connection_params :: shared edge length'
        if r == 'equal': run.ok(k, where=cp.where(sl[0]))
        elif r == 'different': run.violated(k, 'edge length is `%s`' % norm(sl[0].value), where=cp.where(sl[0]))
        else: run.unknown(k, norm(sl[0].value), where=cp.where(sl[0]))
    # the distances, by role: first element of the returned [distances, area] pair (a local, or the expression itself)
    k = 'connection_params :: perpendicular distance from each column centre to the edge, in con.column order'
    pairs = [r_ for r_ in walk_no_nested(cp.node) if isinstance(r_, ast.Return) and isinstance(r_.value, (ast.List, ast.Tuple)) and len(r_.value.elts) == 2
             and not isinstance(r_.value.elts[0], (ast.List, ast.Tuple, ast.Constant))]
    if len(pairs) != 1: run.unknown(k, 'return of the [distances, area] pair not found exactly once', where=cp.where())
    else:
        dexp = pairs[0].value.elts[0]
        if isinstance(dexp, ast.Name):
            dv = [n.value for n in walk_no_nested(cp.node) if isinstance(n, ast.Assign) and norm(n.targets[0]) == dexp.id]
            dexp = dv[0] if len(dv) == 1 else None
        if dexp is None: run.unknown(k, 'distance expression not resolved', where=cp.where(pairs[0]))
        else:
            # the projection point is found through a local `nodeline` or written in place
            nl = [n.value for n in walk_no_nested(cp.node) if isinstance(n, ast.Assign) and norm(n.targets[0]) == 'nodeline']
            alts = ['[norm(line_projection(c.centre, %s) - c.centre) for c in con.column]' % norm(nl[0])] if len(nl) == 1 else []
            r = compare(dexp, '[norm(line_projection(c.centre, nodeline) - c.centre) for c in con.column]', alts)
            if r == 'equal': run.ok(k, where=cp.where(pairs[0]))
            elif r == 'different':
                run.violated(k, 'distances are `%s`: the grid places the block centres at the column `centre` (which for a column with a specified '
                             'centre is not its centroid), so the connection distances must be measured from the same point' % norm(dexp), where=cp.where(pairs[0]))
            else:
                # same shape with another attribute of the column in place of `centre`?
                class _A(ast.NodeTransformer):
                    def __init__(self): self.seen = set()
                    def visit_Attribute(self, n):
                        self.generic_visit(n)
                        if isinstance(n.value, ast.Name) and n.value.id == 'c' and n.attr != 'centre':
                            self.seen.add(n.attr); return ast.copy_location(ast.Attribute(value=n.value, attr='centre', ctx=n.ctx), n)
                        return n
                tr = _A(); sub = tr.visit(copy.deepcopy(dexp))
                if tr.seen and compare(sub, '[norm(line_projection(c.centre, nodeline) - c.centre) for c in con.column]', alts) == 'equal':
                    run.violated(k, 'distances are measured from `c.%s`, not from `c.centre`: the grid places the block centres at the column `centre` '
                                 '(for a column with a specified centre that is not its centroid), so the distances no longer are those from the block '
                                 'centres to the shared edge' % sorted(tr.seen)[0], where=cp.where(pairs[0]), robust=True)
                else: run.unknown(k, norm(dexp), where=cp.where(pairs[0]))
    # horizontal gravity cosine: d . tilt / |d|
    ah = prog.func(T2 + 'add_horizontal_layer_connections')
    dc = [n for n in ast.walk(ah.node) if isinstance(n, ast.Assign) and norm(n.targets[0]) == 'dircos']
    dd = [n for n in ast.walk(ah.node) if isinstance(n, ast.Assign) and norm(n.targets[0]) == 'd']
    if dc and dd:
        r1 = compare(dc[0].value, 'np.dot(d, tilt) / np.linalg.norm(d)')
        r2 = compare(dd[0].value, 'conblocks[1].centre - conblocks[0].centre')
        k = 'horizontal connections :: gravity cosine of the centre-to-centre line, first to second block'
        if r1 == 'equal' and r2 == 'equal': run.ok(k, where=ah.where(dc[0]))
        elif 'different' in (r1, r2): run.violated(k, 'd = `%s`, dircos = `%s`' % (norm(dd[0].value), norm(dc[0].value)), where=ah.where(dc[0]))
        else:
            # cosine = (d . tilt) / |d| : the vector normalised must be the vector projected
            v_ = dc[0].value
            dots = [c for c in ast.walk(v_) if isinstance(c, ast.Call) and call_name(c) == 'dot' and len(c.args) == 2]
            nrms = [c for c in ast.walk(v_) if isinstance(c, ast.Call) and call_name(c) == 'norm' and len(c.args) == 1]
            if r2 == 'equal' and isinstance(v_, ast.BinOp) and isinstance(v_.op, ast.Div) and len(dots) == 1 and len(nrms) == 1 and \
               isinstance(nrms[0].args[0], ast.Name) and norm(nrms[0].args[0]) not in [norm(a) for a in dots[0].args]:
                run.violated(k, 'dircos = `%s`: the projection of `%s` on the gravity direction is divided by the length of another vector, `%s` - that is '
                             'not the cosine of the centre-to-centre line' % (norm(v_), norm(dots[0].args[0]), norm(nrms[0].args[0])), where=ah.where(dc[0]), robust=True)
            else: run.unknown(k, 'd = `%s`, dircos = `%s`' % (norm(dd[0].value), norm(dc[0].value)), where=ah.where(dc[0]))


def rule_nonetest(run):
    run.rule('NONETEST', 'in the functions that turn the geometry into blocks and connections, an optional number (a column surface: None '
             'means "the default") is never tested by truthiness - a surface of exactly 0 would be taken for a missing one', floor=1)
    from .optnum import optnum_rule
    names = ('block_surface', 'block_volume', 'block_centre', 'connection_params', 'block_name_list_layer_column', 'block_name_list_dmplex',
             'setup_block_name_index', 'setup_block_connection_name_index', 'set_column_num_layers', 'column_surface_layer')
    optnum_rule(run, ['mulgrids'], only=lambda fi: fi.name in names)


def rule_indexorder(run):
    run.rule('INDEXORDER', 'the connection-name index is built from the block-name list (it takes the atmosphere block name from it): '
             'wherever one function rebuilds both for the same geometry, the block-name index is rebuilt first', floor=15)
    prog = run.prog
    A, B = 'setup_block_name_index', 'setup_block_connection_name_index'
    cls = prog.cls('mulgrids', 'mulgrid')
    fa, fb = cls.methods.get(A), cls.methods.get(B)
    if fa is None or fb is None: raise AnalysisError('mulgrid.%s / %s not found' % (A, B))
    stored = set(n.attr for n in ast.walk(fa.node) if isinstance(n, ast.Attribute) and isinstance(n.ctx, ast.Store) and dotted(n.value) == 'self')
    dep = sorted(set(n.attr for n in ast.walk(fb.node) if isinstance(n, ast.Attribute) and isinstance(n.ctx, ast.Load) and dotted(n.value) == 'self') & stored)
    if not dep:
        run.ok('mulgrid.%s reads nothing that %s stores: no ordering obligation' % (B, A)); return
    n = 0
    for fi in prog.all_functions(['mulgrids', 't2grids', 't2data', 't2incons']):
        calls = [c for c in walk_no_nested(fi.node) if isinstance(c, ast.Call) and isinstance(c.func, ast.Attribute) and c.func.attr in (A, B)]
        recv = set(norm(c.func.value) for c in calls if c.func.attr == B)
        for r in sorted(recv):
            pos = lambda c: (c.lineno, c.col_offset)
            ca = sorted(pos(c) for c in calls if c.func.attr == A and norm(c.func.value) == r)
            cb = sorted(pos(c) for c in calls if c.func.attr == B and norm(c.func.value) == r)
            if not ca: continue
            n += 1
            key = '%s :: %s.%s() before %s.%s()' % (fi.qual, r, A, r, B)
            if cb[0] < ca[0]:
                run.violated(key, 'the connection-name index is rebuilt before the block-name index: it reads %s, still holding the names '
                             'of the previous state (e.g. the first block of the old atmosphere type as "the atmosphere block")' % dep,
                             where=fi.where(), robust=True)
            else: run.ok(key, where=fi.where())
            # ... and under the same conditions: what B builds is derived from what A stores, so a path that rebuilds A's lists and
            # skips B leaves connection names made of the previous block names
            def guards(call):
                out = []
                def rec(stmts, path):
                    for st in stmts:
                        if any(x is call for x in ast.walk(st)):
                            if isinstance(st, ast.If):
                                if any(x is call for b in st.body for x in ast.walk(b)): rec(st.body, path + [(id(st), 'body')]); return
                                if any(x is call for b in st.orelse for x in ast.walk(b)): rec(st.orelse, path + [(id(st), 'else')]); return
                            for f_ in ('body', 'orelse', 'finalbody'):
                                sub = getattr(st, f_, None)
                                if isinstance(sub, list) and sub and isinstance(sub[0], ast.stmt) and not isinstance(st, ast.If) and \
                                   any(x is call for b in sub for x in ast.walk(b)):
                                    rec(sub, path); return
                            out.extend(path); return
                rec(fi.node.body, [])
                return out
            la = [c for c in calls if c.func.attr == A and norm(c.func.value) == r]
            lb = [c for c in calls if c.func.attr == B and norm(c.func.value) == r]
            if len(la) == 1 and len(lb) == 1:
                ga, gb = guards(la[0]), guards(lb[0])
                key2 = '%s :: %s.%s() whenever %s.%s()' % (fi.qual, r, B, r, A)
                if len(gb) > len(ga) and gb[:len(ga)] == ga:
                    run.violated(key2, 'the block-name index is rebuilt on every path, the connection-name index only under a further condition '
                                 '(line %d): it is derived from %s, so on the other paths it keeps connection names made of the previous block '
                                 'names (e.g. after a change between one atmosphere block and one per column)' % (lb[0].lineno, dep),
                                 where=fi.where(lb[0]), robust=True)
                else: run.ok(key2, where=fi.where())
    run.ok('functions rebuilding both indexes', {'sites': n, 'dependency': dep})


def rule_laytops(run):
    run.rule('LAYTOPS', 'identify_layer_tops() gives the first (atmosphere) layer top = its own bottom and every other layer the bottom of '
             'the layer above: block_surface(), and through it every top-block volume and connection area, compares column surfaces '
             'with the first layer\'s top', floor=2)
    from .laytops import laytops_rule
    laytops_rule(run, run.prog.func('mulgrids.mulgrid.identify_layer_tops'))


def check(run):
    run.guarded('INDEXORDER', rule_indexorder)
    run.guarded('LAYTOPS', rule_laytops)
    run.guarded('NONETEST', rule_nonetest)
    run.guarded('TWIN', rule_twin)
    run.guarded('SUMDIST', rule_sumdist)
    run.guarded('PRED', lambda r: rule_pred(r, floor=8, only=('mulgrid.block_name_list_layer_column', 'mulgrid.block_name_list_dmplex', 'mulgrid.setup_block_connection_name_index', 'mulgrid.set_column_num_layers', 'mulgrid.block_surface', 'mulgrid.block_centre', 't2grid.add_connections')))
    run.guarded('DIM', rule_dim)
