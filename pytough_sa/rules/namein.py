"""NAMEIN: the library keeps each kind of object twice - a dictionary keyed by name and a list of the objects.  A membership
test `x in <list of objects>` with x a *name* (a field parsed from a record, a stripped / justified string, an `.name`
attribute, a string literal) is always False: the test was meant for the dictionary.  (`name in self.welllist` for
`name in self.well`: every record is then treated as a new object and add_<kind>() silently drops the repeats.)"""
import ast
from ..core import walk_no_nested, norm, call_name
from ..containers import PAIRS

LISTS = dict((l, d) for prs in PAIRS.values() for d, l, _ in prs)
STR_METHODS = ('strip', 'rstrip', 'lstrip', 'rjust', 'ljust', 'upper', 'lower', 'join', 'replace', 'format')


def _stringy_names(fi):
    """locals that can only hold text / parsed record fields"""
    out = set()
    for n in walk_no_nested(fi.node):
        if isinstance(n, ast.Assign) and len(n.targets) == 1:
            t, v = n.targets[0], n.value
            if isinstance(v, ast.Call) and call_name(v) in ('parse_string', 'read_values') and isinstance(t, (ast.List, ast.Tuple)):
                out |= set(e.id for e in t.elts if isinstance(e, ast.Name))
            if isinstance(t, ast.Name) and isinstance(v, ast.Call) and isinstance(v.func, ast.Attribute) and v.func.attr in STR_METHODS:
                out.add(t.id)
            if isinstance(t, ast.Name) and isinstance(v, ast.Attribute) and v.attr == 'name': out.add(t.id)
            if isinstance(t, ast.Name) and isinstance(v, ast.BinOp) and isinstance(v.op, ast.Mod) and isinstance(v.left, ast.Constant) and isinstance(v.left.value, str):
                out.add(t.id)
    # ... unless the same name is also bound to something else (an object)
    for n in walk_no_nested(fi.node):
        if isinstance(n, ast.Assign) and len(n.targets) == 1 and isinstance(n.targets[0], ast.Name) and n.targets[0].id in out:
            v = n.value
            texty = (isinstance(v, ast.Call) and isinstance(v.func, ast.Attribute) and v.func.attr in STR_METHODS) or \
                (isinstance(v, ast.Attribute) and v.attr == 'name') or isinstance(v, (ast.Constant, ast.BinOp, ast.JoinedStr))
            if not texty: out.discard(n.targets[0].id)
        if isinstance(n, ast.For):
            for x in ast.walk(n.target):
                if isinstance(x, ast.Name): out.discard(x.id)
    return out


def namein_rule(run, funcs):
    n = 0
    for fi in funcs:
        names = None
        for c in walk_no_nested(fi.node):
            if not (isinstance(c, ast.Compare) and len(c.ops) == 1 and isinstance(c.ops[0], (ast.In, ast.NotIn))): continue
            r = c.comparators[0]
            if isinstance(r, ast.Subscript) and isinstance(r.slice, ast.Slice): r = r.value
            if not (isinstance(r, ast.Attribute) and r.attr in LISTS): continue
            n += 1
            if names is None: names = _stringy_names(fi)
            l = c.left
            texty = (isinstance(l, ast.Name) and l.id in names) or (isinstance(l, ast.Attribute) and l.attr == 'name') or \
                (isinstance(l, ast.Constant) and isinstance(l.value, str)) or \
                (isinstance(l, ast.Call) and isinstance(l.func, ast.Attribute) and l.func.attr in STR_METHODS)
            key = '%s :: `%s`' % (fi.short, norm(c)[:60])
            if texty:
                run.violated(key, '`%s` is a name (text), `%s` holds the objects themselves: the test is always %s - the dictionary `%s.%s` is keyed by name'
                             % (norm(l), norm(r), isinstance(c.ops[0], ast.NotIn), norm(r.value), LISTS[r.attr]), where=fi.where(c), robust=True)
            else: run.ok(key, where=fi.where(c))
    return n
