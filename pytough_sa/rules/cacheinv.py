"""CACHEINV: a value memoised from node positions is dropped wherever node positions are written.

A lazily cached attribute (`if self.A is None: self.A = f(...)`) whose computation reads node positions (.pos,
directly or through properties of the same class) is stale after any function that assigns or updates `.pos`
of a node, unless that function (or a method it calls) resets A.  Point location works from bounding boxes and
polygons of columns, so a stale memo makes searches miss columns that contain the point."""
import ast
from ..core import norm, call_name, is_self_attr


def _reads_pos(cls, node, depth=0, seen=None):
    return bool(_deps(cls, node, depth, seen))


def _deps(cls, node, depth=0, seen=None):
    """which of the moving quantities (node .pos, column .centre) the expression reads"""
    seen = seen or set()
    out = set()
    for x in ast.walk(node):
        if isinstance(x, ast.Attribute) and x.attr in ('pos', 'centre') and not is_self_attr(x): out.add(x.attr)
        if isinstance(x, ast.Attribute) and isinstance(x.value, ast.Name) and x.value.id == 'self' and depth < 3:
            g = cls.properties.get(x.attr) if hasattr(cls, 'properties') else None
            gname = g if isinstance(g, str) else getattr(g, 'name', None)
            m = cls.methods.get(gname) if gname else cls.methods.get('get_' + x.attr)
            if m is not None and m.name not in seen:
                seen.add(m.name)
                out |= _deps(cls, m.node, depth + 1, seen)
    return out


def _reads_pos_old(cls, node, depth=0, seen=None):
    seen = seen or set()
    for x in ast.walk(node):
        if isinstance(x, ast.Attribute) and x.attr in ('pos', 'centre') and not is_self_attr(x): return True
        if isinstance(x, ast.Attribute) and isinstance(x.value, ast.Name) and x.value.id == 'self' and depth < 3:
            g = cls.properties.get(x.attr) if hasattr(cls, 'properties') else None
            gname = g if isinstance(g, str) else getattr(g, 'name', None)
            m = cls.methods.get(gname) if gname else cls.methods.get('get_' + x.attr)
            if m is not None and m.name not in seen:
                seen.add(m.name)
                if _reads_pos(cls, m.node, depth + 1, seen): return True
    return False


def _presence_tested(test):
    """attribute names of self whose presence (None / missing / falsy) the condition tests"""
    out = set()
    for x in ast.walk(test):
        if isinstance(x, ast.Compare) and len(x.ops) == 1 and isinstance(x.ops[0], (ast.Is, ast.IsNot, ast.Eq, ast.NotEq)) and \
           isinstance(x.comparators[0], ast.Constant) and x.comparators[0].value is None:
            l = x.left
            if is_self_attr(l): out.add(l.attr)
            if isinstance(l, ast.Call) and isinstance(l.func, ast.Name) and l.func.id == 'getattr' and len(l.args) >= 2 and \
               isinstance(l.args[1], ast.Constant): out.add(l.args[1].value)
        if isinstance(x, ast.Call) and isinstance(x.func, ast.Name) and x.func.id == 'hasattr' and len(x.args) == 2 and \
           isinstance(x.args[1], ast.Constant): out.add(x.args[1].value)
        if isinstance(x, ast.UnaryOp) and isinstance(x.op, ast.Not) and is_self_attr(x.operand): out.add(x.operand.attr)
    return out


def lazy_caches(classes):
    """[(cls, attr, method FuncInfo, If node)] for `if self.A is None: self.A = ...` whose computation reads positions"""
    out = []
    for c in classes:
        for m in c.methods.values():
            for n in ast.walk(m.node):
                # a *presence test* of attribute A (self.A is None / not self.A / getattr(self, 'A', None) is None /
                # not hasattr(self, 'A') / try: self.A except AttributeError) whose "absent" branch assigns self.A from node positions
                if m.name == '__init__' or not isinstance(n, (ast.If, ast.Try)): continue
                # locals that stand for an attribute of self: L = self.A / L = getattr(self, 'A', None)
                alias = {}
                for st in ast.walk(m.node):
                    if isinstance(st, ast.Assign) and len(st.targets) == 1 and isinstance(st.targets[0], ast.Name):
                        v = st.value
                        if is_self_attr(v): alias[st.targets[0].id] = v.attr
                        elif isinstance(v, ast.Call) and isinstance(v.func, ast.Name) and v.func.id == 'getattr' and len(v.args) >= 2 and \
                                isinstance(v.args[0], ast.Name) and v.args[0].id == 'self' and isinstance(v.args[1], ast.Constant):
                            alias[st.targets[0].id] = v.args[1].value
                if isinstance(n, ast.If):
                    mentioned = _presence_tested(n.test)
                    for x in ast.walk(n.test):           # presence test on an alias
                        if isinstance(x, ast.Compare) and isinstance(x.left, ast.Name) and x.left.id in alias and len(x.ops) == 1 and \
                           isinstance(x.ops[0], (ast.Is, ast.Eq)) and isinstance(x.comparators[0], ast.Constant) and x.comparators[0].value is None:
                            mentioned.add(alias[x.left.id])
                        if isinstance(x, ast.UnaryOp) and isinstance(x.op, ast.Not) and isinstance(x.operand, ast.Name) and x.operand.id in alias:
                            mentioned.add(alias[x.operand.id])
                    region = n.body + n.orelse
                else:
                    if not any(h.type is None or 'AttributeError' in ast.unparse(h.type) for h in n.handlers): continue
                    mentioned = set(x.attr for st in n.body for x in ast.walk(st) if is_self_attr(x))
                    region = [st for h in n.handlers for st in h.body]
                # values assigned to locals inside the region (so `self.A = L` counts with L's value)
                local_vals = {}
                for s_ in [s_ for st in region for s_ in ast.walk(st) if isinstance(s_, ast.Assign)]:
                    for t in s_.targets:
                        if isinstance(t, ast.Name): local_vals[t.id] = s_.value
                for s_ in [s_ for st in region for s_ in ast.walk(st) if isinstance(s_, ast.Assign)]:
                    for t in s_.targets:
                        val = s_.value
                        if isinstance(val, ast.Name) and val.id in local_vals: val = local_vals[val.id]
                        if is_self_attr(t) and t.attr in mentioned and _reads_pos(c, val) and (c, t.attr, m) not in [(x[0], x[1], x[2]) for x in out]:
                            out.append((c, t.attr, m, n, _deps(c, val)))
    return out


def pos_writers(funcs):
    out = []
    for fi in funcs:
        if fi.name == '__init__': continue
        for n in ast.walk(fi.node):
            t = None
            if isinstance(n, ast.Assign): t = n.targets
            elif isinstance(n, ast.AugAssign): t = [n.target]
            w = [x.attr for x in (t or []) if isinstance(x, ast.Attribute) and x.attr in ('pos', 'centre') and not is_self_attr(x)]
            if w: out.append((fi, n, set(w)))
    return out


def resets(fi, attr, classes, depth=0, seen=None):
    seen = seen or set()
    for n in ast.walk(fi.node):
        if isinstance(n, ast.Assign) and isinstance(n.value, ast.Constant) and n.value.value is None and \
           any(isinstance(t, ast.Attribute) and t.attr == attr for t in n.targets): return True
        if isinstance(n, ast.Call) and isinstance(n.func, ast.Attribute) and depth < 2:
            for c in classes:
                m = c.methods.get(n.func.attr)
                if m is not None and m.qual not in seen:
                    seen.add(m.qual)
                    if resets(m, attr, classes, depth + 1, seen): return True
    return False


def cacheinv(classes, funcs):
    """[(attr, cache method, writer, stmt)] stale combinations ; also (caches, writers) for the evidence"""
    caches = lazy_caches(classes)
    writers = pos_writers(funcs)
    bad = []
    for c, a, m, n, deps in caches:
        for w, st, wattrs in writers:
            if (deps & wattrs) and not resets(w, a, classes): bad.append((a, m, w, st))
    return bad, caches, writers


def cacheinv_rule(run, modname, rule='CACHEINV', only=None):
    import os
    from ..core import ModuleInfo, VERIF
    prog = run.prog
    mod = prog.mod(modname)
    classes = list(mod.classes.values())
    funcs = [f for f in mod.all_functions()]
    bad, caches, writers = cacheinv(classes, funcs)
    if only is not None:
        bad = [b for b in bad if only(b[1])]
        caches = [c for c in caches if only(c[2])]
    # positive control
    fx = ModuleInfo('cache_fixture', os.path.join(VERIF, 'fixtures'))
    fb, _, _ = cacheinv([fx.classes['badcolumn'], fx.classes['badgrid']], list(fx.classes['badgrid'].methods.values()))
    fg, _, _ = cacheinv([fx.classes['goodcolumn'], fx.classes['goodgrid']], list(fx.classes['goodgrid'].methods.values()))
    run.shape(len(fb) == 1 and not fg, 'fixture :: cache_fixture.py', 'positive control failed (bad %d, good %d)' % (len(fb), len(fg)), rule=rule)
    key = '%s :: position-derived memos are reset by every writer of node positions' % modname
    if bad:
        a, m, w, st = bad[0]
        run.violated(key, '%s memoises `%s` from node positions, but %s writes node positions (`%s`) and neither it nor a method it calls resets '
                     'the memo: after it, searches use the bounding box / polygon of the old position and miss or mis-assign columns'
                     % (m.short, a, w.short, norm(st)[:60]), where=w.where(st), rule=rule)
    else:
        run.ok(key, {'memoised attributes': sorted(set(x[1] for x in caches)), 'position writers': sorted(set(x[0].short for x in writers))}, rule=rule)
