"""C19 - transfers.  Rules TOTAL, CASE, NOALIAS, PRED."""
import ast
from ..core import AnalysisError, norm, dotted, call_name, walk_no_nested, is_self_attr
from ..consteval import Interp, Obj
from ..formula import check_formula, compare
from .. import flow, roles
from .pred_common import rule_pred

LEVEL = 'other'
EXPLANATION = (
    "(TOTAL) block_mapping / column_mapping / layer_mapping assign an entry on every path of a loop over "
    "the whole target list (block_name_list, columnlist, layerlist[0] + layerlist[1:]), the nearest-layer "
    "index is offset consistently with the list it was computed over, and the mapped name is built from "
    "the source geometry's own column and layer. (CASE) the decision tree of t2incon.transfer_from is "
    "enumerated over target x source atmosphere type in {0,1,other}^2 by constant propagation: every leaf "
    "assigns the target's atmosphere block(s), and all underground blocks are assigned from the mapping. "
    "(NOALIAS) whatever reaches `self[...] = v` (whose __setitem__ rewrites v.block) or is mutated after "
    "being taken from the source is a copy or a fresh object. (PRED) the above-surface correction uses the "
    "exact negation of the block-existence predicate. Nearest-ness of the chosen column/layer and "
    "preservation of generator totals are not decided.")


def _loop_over(fi, iter_text):
    return [n for n in walk_no_nested(fi.node) if isinstance(n, ast.For) and norm(n.iter) == iter_text]


def _must_assign(stmts, target_text):
    def pred(n):
        return isinstance(n, ast.Assign) and any(norm(t) == target_text for t in n.targets)
    return not flow.must_pass(stmts, pred)


def rule_total(run):
    run.rule('TOTAL', 'every mapping assigns an entry on every path of a loop over the whole target list, from '
             'names of the source geometry', floor=8)
    prog = run.prog
    bm = prog.func('mulgrids.mulgrid.block_mapping')
    lp = _loop_over(bm, 'geo.block_name_list')
    key = 'mulgrid.block_mapping :: every target block mapped'
    part = [n for n in walk_no_nested(bm.node) if isinstance(n, ast.For) and 'geo.block_name_list' in norm(n.iter)]
    if len(lp) != 1 and len(part) == 1:
        run.violated(key, 'the loop runs over `%s`, not the whole geo.block_name_list: some target blocks get no source' % norm(part[0].iter),
                     where=bm.where(part[0]))
    elif len(lp) != 1:
        run.unknown(key, 'loop over geo.block_name_list not found (a slice or another list would leave blocks unmapped)', where=bm.where())
    else:
        dest = lp[0].target.id
        if _must_assign(lp[0].body, 'mapping[%s]' % dest): run.ok(key, where=bm.where(lp[0]))
        else: run.violated(key, 'a path through the loop body does not assign mapping[%s]: that target block has no source' % dest, where=bm.where(lp[0]))
        asg = [n for n in ast.walk(lp[0]) if isinstance(n, ast.Assign) and norm(n.targets[0]) == 'mapping[%s]' % dest]
        if len(asg) == 1:
            check_formula(run, 'mulgrid.block_mapping :: mapped name built by the source geometry', bm, None,
                          'self.block_name(sourcelayer, sourcecol)', 'the mapped block name is not a block name of the source geometry',
                          node=asg[0].value)
        check_formula(run, 'mulgrid.block_mapping :: column/layer parts taken with the target convention', bm, None,
                      '(geo.column_name(%s), geo.layer_name(%s))' % (dest, dest), 'target name parts are not extracted by the target geometry',
                      node=[n for n in ast.walk(lp[0]) if isinstance(n, ast.Assign) and isinstance(n.targets[0], ast.Tuple)
                            and norm(n.targets[0]) == '(destcol, destlayer)'][0].value
                      if [n for n in ast.walk(lp[0]) if isinstance(n, ast.Assign) and isinstance(n.targets[0], ast.Tuple) and norm(n.targets[0]) == '(destcol, destlayer)'] else ast.parse('None', mode='eval').body)
        check_formula(run, 'mulgrid.block_mapping :: source parts from the two mappings', bm, None,
                      '(col_mapping[destcol], layer_mapping[destlayer])', 'source column/layer are not looked up in the column and layer mappings',
                      node=[n for n in ast.walk(lp[0]) if isinstance(n, ast.Assign) and norm(n.targets[0]) == '(sourcecol, sourcelayer)'][0].value
                      if [n for n in ast.walk(lp[0]) if isinstance(n, ast.Assign) and norm(n.targets[0]) == '(sourcecol, sourcelayer)'] else ast.parse('None', mode='eval').body)
        # atmosphere target blocks -> source atmosphere layer (+ atmosphere column for a single atmosphere block).
        # variables by role: G = target geometry parameter; DL/DC = layer/column part of the target name (taken by G);
        # SL/SC = what the layer/column mapping gives for them
        G = bm.params[1]
        role = {}
        for nm, v, st in roles.assignments(lp[0]):
            if isinstance(v, ast.Call) and isinstance(v.func, ast.Attribute) and v.func.attr in ('layer_name', 'column_name') and \
               v.args and isinstance(v.args[0], ast.Name) and v.args[0].id == dest:
                role['DL' if v.func.attr == 'layer_name' else 'DC'] = nm
                role['by_' + nm] = norm(v.func.value)
        maps = {}
        for nm, v, st in roles.assignments(bm.node):
            if isinstance(v, ast.Call) and isinstance(v.func, ast.Attribute) and v.func.attr in ('layer_mapping', 'column_mapping') and \
               isinstance(v.func.value, ast.Name) and v.func.value.id == 'self':
                maps[nm] = v.func.attr
        for nm, v, st in roles.assignments(lp[0]):
            if isinstance(v, ast.Subscript) and isinstance(v.value, ast.Name) and v.value.id in maps:
                role['SL' if maps[v.value.id] == 'layer_mapping' else 'SC'] = nm
        key = 'mulgrid.block_mapping :: atmosphere blocks map to the source atmosphere'

        single = {}
        for nm, v, st in roles.assignments(bm.node):
            single.setdefault(nm, []).append(v)
        single = dict((nm, vs[0]) for nm, vs in single.items() if len(vs) == 1)

        def atm_name_of(e, depth=0):
            """root variable r of `r.layerlist[0].name` (also through a local bound once to it)"""
            if isinstance(e, ast.Name) and e.id in single and depth < 3: return atm_name_of(single[e.id], depth + 1)
            if isinstance(e, ast.Attribute) and e.attr == 'name' and isinstance(e.value, ast.Subscript) and \
               isinstance(e.value.value, ast.Attribute) and e.value.value.attr == 'layerlist' and isinstance(e.value.value.value, ast.Name) \
               and isinstance(e.value.slice, ast.Constant) and e.value.slice.value == 0:
                return e.value.value.value.id
            return None
        atm, wrong = [], []
        if all(k in role for k in ('DL', 'DC', 'SL', 'SC')):
            for n in lp[0].body:
                if isinstance(n, ast.If) and isinstance(n.test, ast.Compare) and len(n.test.ops) == 1 and isinstance(n.test.ops[0], ast.Eq):
                    l, r = n.test.left, n.test.comparators[0]
                    for x, y in ((l, r), (r, l)):
                        if isinstance(x, ast.Name) and x.id == role['DL'] and atm_name_of(y) is not None:
                            (atm if atm_name_of(y) == G else wrong).append(n)
        if wrong and not atm:
            run.violated(key, 'the layer part of a *target* block name is compared with `%s`, the atmosphere layer name of another geometry '
                         '(`%s` is the target): when the two geometries name their atmosphere layer differently, target atmosphere '
                         'blocks are mapped to underground blocks of the source (or raise KeyError)' % (norm(wrong[0].test), G), where=bm.where(wrong[0]))
        elif len(atm) == 1:
            b = atm[0].body
            SL, SC = role['SL'], role['SC']
            ok1 = any(isinstance(s_, ast.Assign) and norm(s_.targets[0]) == SL and atm_name_of(s_.value) == 'self' for s_ in b)
            ok2 = any(isinstance(s_, ast.If) and compare(s_.test, 'self.atmosphere_type == 0') == 'equal' and
                      any(isinstance(x, ast.Assign) and norm(x.targets[0]) == SC and norm(x.value) == 'self.atmosphere_column_name' for x in s_.body) for s_ in b)
            if ok1 and ok2: run.ok(key, where=bm.where(atm[0]))
            elif not ok1: run.violated(key, 'target atmosphere blocks are not given the source atmosphere layer', where=bm.where(atm[0]))
            else: run.violated(key, 'with a single source atmosphere block the source atmosphere column name is not used', where=bm.where(atm[0]))
            # correction below ground
            corr = [s_ for s_ in atm[0].orelse if isinstance(s_, ast.If)]
            k2 = 'mulgrid.block_mapping :: above-surface source block moved to the column\'s surface layer'
            if len(corr) == 1:
                # when: the source column's surface is not above the bottom of the source layer the mapping gave - both of the SOURCE geometry
                k3 = 'mulgrid.block_mapping :: above-surface test compares the source column with the source layer'
                pre0 = [x for x in atm[0].orelse if not isinstance(x, ast.If)]
                t_ = roles.inline_locals(corr[0].test, pre0)
                r3 = compare(t_, 'self.column[%s].surface <= self.layer[%s].bottom' % (SC, SL))
                if r3 == 'equal': run.ok(k3, where=bm.where(corr[0]))
                else:
                    roots = set(norm(x.value.value) for x in ast.walk(t_) if isinstance(x, ast.Subscript) and isinstance(x.value, ast.Attribute) and x.value.attr in ('layer', 'column'))
                    keys_ = set(norm(x.slice) for x in ast.walk(t_) if isinstance(x, ast.Subscript) and isinstance(x.value, ast.Attribute) and x.value.attr in ('layer', 'column'))
                    if roots - set(['self']) or (keys_ - set([SC, SL]) and keys_ & set([role.get('DL'), role.get('DC')])):
                        run.violated(k3, 'the test is `%s`: it looks a layer / column up in `%s` by %s - the question is whether the SOURCE block (%s, %s) exists, '
                                     'so both must be the source geometry\'s own' % (norm(corr[0].test), sorted(roots), sorted(keys_), SL, SC), where=bm.where(corr[0]), robust=True)
                    elif r3 == 'different': run.violated(k3, 'the test is `%s`' % norm(corr[0].test), where=bm.where(corr[0]))
                    else: run.unknown(k3, 'test `%s`' % norm(corr[0].test), where=bm.where(corr[0]))
                asg = [x for x in corr[0].body if isinstance(x, ast.Assign) and norm(x.targets[0]) == SL]
                # locals of the branch (a column looked up once and reused) stand for their definitions
                pre = [x for x in atm[0].orelse if not isinstance(x, ast.If)]
                rs = [compare(roles.inline_locals(x.value, pre), 'self.column_surface_layer(self.column[%s]).name' % SC) for x in asg]
                if 'equal' in rs: run.ok(k2, where=bm.where(corr[0]))
                elif rs and all(r == 'different' for r in rs):
                    run.violated(k2, 'the corrected layer is `%s`, not column_surface_layer(column).name' % norm(asg[0].value), where=bm.where(corr[0]))
                else:
                    # another existing method of the class in place of column_surface_layer() (and not one that delegates to it)
                    mcls = prog.cls('mulgrids', 'mulgrid')
                    other = []
                    for x in asg:
                        e_ = roles.inline_locals(x.value, pre)
                        for c_ in ast.walk(e_):
                            if isinstance(c_, ast.Call) and isinstance(c_.func, ast.Attribute) and norm(c_.func.value) == 'self' and c_.func.attr in mcls.methods \
                               and c_.func.attr != 'column_surface_layer' and not c_.func.attr.startswith('_'):
                                callee = mcls.methods[c_.func.attr]
                                if not any(isinstance(y, ast.Call) and call_name(y) == 'column_surface_layer' for y in ast.walk(callee.node)): other.append(c_.func.attr)
                    if other and len(asg) == 1:
                        run.violated(k2, 'the corrected layer is `%s`: it is found with %s(), not with column_surface_layer(column) - the first layer whose '
                                     'bottom lies below the column surface' % (norm(asg[0].value), other[0]), where=bm.where(corr[0]))
                    else: run.unknown(k2, 'corrected layer %s' % [norm(x.value) for x in asg], where=bm.where(corr[0]))
            else: run.unknown(k2, 'correction not found', where=bm.where(atm[0]))
        else:
            run.unknown(key, 'atmosphere branch not recognised (roles %s)' % sorted(role), where=bm.where(lp[0]))
    cm = prog.func('mulgrids.mulgrid.column_mapping')
    lp = _loop_over(cm, 'geo.columnlist')
    key = 'mulgrid.column_mapping :: every target column mapped'
    if len(lp) != 1: run.unknown(key, 'loop over geo.columnlist not found', where=cm.where())
    else:
        c = lp[0].target.id
        if _must_assign(lp[0].body, 'mapping[%s.name]' % c): run.ok(key, where=cm.where(lp[0]))
        else: run.violated(key, 'a path does not assign mapping[%s.name]' % c, where=cm.where(lp[0]))
        asg = [n for n in ast.walk(lp[0]) if isinstance(n, ast.Assign) and norm(n.targets[0]) == 'mapping[%s.name]' % c]
        if asg:
            check_formula(run, 'mulgrid.column_mapping :: value is a source column name', cm, None, 'closest_col(%s).name' % c,
                          'mapped value is not the name of the closest source column', node=asg[0].value)
    for nested in ('closest_col',):
        defs = [n for n in ast.walk(cm.node) if isinstance(n, ast.FunctionDef) and n.name == nested]
        for i, d in enumerate(defs):
            rets = [r for r in ast.walk(d) if isinstance(r, ast.Return)]
            good = len(rets) == 1 and isinstance(rets[0].value, ast.Subscript) and norm(rets[0].value.value) == 'self.columnlist'
            run.check(good, 'mulgrid.column_mapping :: closest_col #%d returns a column of self' % i,
                      'closest_col returns %s' % (norm(rets[0].value) if rets else None), where=cm.where(d))
    atm = [n for n in walk_no_nested(cm.node) if isinstance(n, ast.If) and 'atmosphere_type' in norm(n.test)]
    if atm:
        good = compare(atm[0].test, 'self.atmosphere_type == geo.atmosphere_type == 0') == 'equal' and \
            norm(atm[0].body[0]) == 'mapping = {geo.atmosphere_column_name: self.atmosphere_column_name}'
        run.shape(good, 'mulgrid.column_mapping :: atmosphere column mapped when both have a single atmosphere block',
                  'shape not recognised', where=cm.where(atm[0]))
    lm = prog.func('mulgrids.mulgrid.layer_mapping')
    lp = _loop_over(lm, 'geo.layerlist[1:]')
    key = 'mulgrid.layer_mapping :: every target layer mapped'
    init = [n for n in walk_no_nested(lm.node) if isinstance(n, ast.Assign) and norm(n.targets[0]) == 'mapping' and isinstance(n.value, ast.Dict)]
    if len(lp) != 1 or not init: run.unknown(key, 'loop over geo.layerlist[1:] / initial surface entry not found', where=lm.where())
    else:
        l = lp[0].target.id
        ok0 = norm(init[0].value) == '{geo.layerlist[0].name: self.layerlist[0].name}'
        if not ok0: run.violated(key, 'the surface layer entry is %s' % norm(init[0].value), where=lm.where(init[0]))
        elif _must_assign(lp[0].body, 'mapping[%s.name]' % l): run.ok(key, where=lm.where(lp[0]))
        else: run.violated(key, 'a path does not assign mapping[%s.name]' % l, where=lm.where(lp[0]))
        # index offset: distances over self.layerlist[1:]  <->  self.layerlist[1 + argmin]
        k2 = 'mulgrid.layer_mapping :: nearest index offset matches the searched slice'
        # self.layerlist[<off> + argmin(D)] with D built over self.layerlist[<lo>:]  (roles, not names)
        once = {}
        for nm, v, st in roles.assignments(lm.node): once.setdefault(nm, []).append(v)

        def shift_of(e, depth=0):
            """k such that e is self.layerlist[k:] (0 for the list itself), through a local bound once to it; else None"""
            if norm(e) == 'self.layerlist': return 0
            if isinstance(e, ast.Subscript) and norm(e.value) == 'self.layerlist' and isinstance(e.slice, ast.Slice) and e.slice.upper is None and e.slice.step is None:
                return 0 if e.slice.lower is None else (e.slice.lower.value if isinstance(e.slice.lower, ast.Constant) and isinstance(e.slice.lower.value, int) else None)
            if isinstance(e, ast.Name) and len(once.get(e.id, [])) == 1 and depth < 3: return shift_of(once[e.id][0], depth + 1)
            return None
        picks = []
        for x in ast.walk(lp[0]):
            if isinstance(x, ast.Subscript) and shift_of(x.value) is not None and not isinstance(x.slice, ast.Slice):
                am = [c for c in ast.walk(x.slice) if isinstance(c, ast.Call) and call_name(c) == 'argmin']
                if len(am) == 1 and am[0].args: picks.append((x, am[0]))
        if len(picks) != 1: run.unknown(k2, 'selection self.layerlist[... argmin(...)] not found exactly once', where=lm.where(lp[0]))
        else:
            x, am = picks[0]
            D = am.args[0]
            if isinstance(D, ast.Name):
                dd = [n.value for n in ast.walk(lp[0]) if isinstance(n, ast.Assign) and norm(n.targets[0]) == D.id]
                D = dd[0] if len(dd) == 1 else D
            comps = [c for c in ast.walk(D) if isinstance(c, ast.ListComp)] if isinstance(D, ast.AST) else []
            it = comps[0].generators[0].iter if comps else None
            lo = shift_of(it) if it is not None else None
            # offset: the slice index minus the argmin call
            off = None
            sl_ = x.slice
            if sl_ is am: off = 0
            elif isinstance(sl_, ast.BinOp) and isinstance(sl_.op, ast.Add):
                for a_, b_ in ((sl_.left, sl_.right), (sl_.right, sl_.left)):
                    if b_ is am and isinstance(a_, ast.Constant) and isinstance(a_.value, int): off = a_.value
            if off is not None: off += shift_of(x.value)          # index into a slice that itself starts at layer k
            if lo is None or off is None: run.unknown(k2, 'slice `%s` / index `%s` not recognised' % (norm(it) if it is not None else None, norm(sl_)), where=lm.where(x))
            elif lo == off: run.ok(k2, {'searched': norm(it), 'index': norm(sl_)}, where=lm.where(x))
            else:
                run.violated(k2, 'distances are computed over `%s` (starting at layer %d) but the nearest layer is taken as `%s` (offset %d): every target '
                             'layer is mapped to the neighbour of its nearest source layer' % (norm(it), lo, norm(x), off), where=lm.where(x))


def rule_atmkey(run):
    run.rule('ATMKEY', 'block_mapping looks the column of every target block up in the column mapping; the key of the single '
             'target atmosphere column must therefore be present for every (source, target) atmosphere-type pair with a '
             'single target atmosphere block', floor=3)
    prog = run.prog
    bm, cm = prog.func('mulgrids.mulgrid.block_mapping'), prog.func('mulgrids.mulgrid.column_mapping')
    lp = _loop_over(bm, 'geo.block_name_list')
    if len(lp) != 1:
        run.unknown('mulgrid.block_mapping :: atmosphere column key', 'loop not found', where=bm.where()); return
    # is col_mapping[destcol] evaluated unconditionally at the top of the loop body?
    uncond = any(isinstance(st, ast.Assign) and any(isinstance(x, ast.Subscript) and norm(x.value) == 'col_mapping' for x in ast.walk(st.value))
                 for st in lp[0].body)
    guarded = any(isinstance(x, ast.Call) and call_name(x) == 'get' and norm(x.func.value) == 'col_mapping' for x in ast.walk(lp[0]))
    tests = [n for n in walk_no_nested(cm.node) if isinstance(n, ast.If) and
             any(isinstance(s, ast.Assign) and isinstance(s.value, ast.Dict) and 'atmosphere_column_name' in norm(s.value) for s in n.body)]
    if not tests:
        run.unknown('mulgrid.column_mapping :: atmosphere column key', 'conditional initial mapping not found', where=cm.where()); return
    for s_type in (0, 1, 2):
        g_type = 0          # only a target with a single atmosphere block has an atmosphere column name among its block names
        me, geo = Obj(), Obj()
        me.attrs['atmosphere_type'] = s_type; geo.attrs['atmosphere_type'] = g_type
        key = 'mulgrid.block_mapping :: source atmosphere type %s, target type 0' % (s_type if s_type < 2 else 'other')
        try:
            has_key = bool(Interp({'self': me, 'geo': geo}).expr(tests[0].test))
        except AnalysisError as e:
            run.unknown(key, str(e), where=cm.where(tests[0])); continue
        if has_key or not uncond or guarded: run.ok(key, 'atmosphere column key present' if has_key else 'lookup guarded', where=bm.where(lp[0]))
        else:
            run.violated(key, 'column_mapping adds the target atmosphere column only when `%s`; block_mapping then evaluates col_mapping[destcol] '
                         'for the target\'s single atmosphere block and raises KeyError: no mapping (and no transfer) can be made for this '
                         'combination of atmosphere types' % norm(tests[0].test), where=bm.where(lp[0]))


def rule_case(run):
    run.rule('CASE', 't2incon.transfer_from: the (target, source) atmosphere-type decision tree assigns the target '
             'atmosphere block(s) in every one of the 3x3 cases; all underground blocks are assigned from the mapping',
             floor=9)
    prog = run.prog
    fi = prog.func('t2incons.t2incon.transfer_from')

    def leaf_stmts(stmts, env):
        out = []
        for st in stmts:
            if isinstance(st, ast.If) and 'atmosphere_type' in norm(st.test):
                try:
                    v = Interp(env).expr(st.test)
                except AnalysisError as e:
                    raise AnalysisError('transfer_from: test %s not evaluable: %s' % (norm(st.test), e))
                out += leaf_stmts(st.body if v else st.orelse, env)
            else:
                out.append(st)
        return out
    for g in (0, 1, 2):
        for s in (0, 1, 2):
            geo, src = Obj(), Obj()
            geo.attrs['atmosphere_type'] = g; src.attrs['atmosphere_type'] = s
            leaves = leaf_stmts(fi.node.body, {'geo': geo, 'sourcegeo': src})
            key = 't2incon.transfer_from :: target atmosphere type %s, source %s' % (g if g < 2 else 'other', s if s < 2 else 'other')
            # the single-block store, by role: a store into self[...] made directly in this case (not inside a loop)
            direct = [n for n in leaves if isinstance(n, ast.Assign) and isinstance(n.targets[0], ast.Subscript) and
                      norm(n.targets[0].value) == 'self']
            loops = [n for n in leaves if isinstance(n, ast.For) and norm(n.iter) == 'geo.columnlist' and
                     any(isinstance(x, ast.Assign) and isinstance(x.targets[0], ast.Subscript) and norm(x.targets[0].value) == 'self'
                         for x in n.body)]
            if g == 0:
                if len(direct) != 1:
                    run.violated(key, 'the single target atmosphere block is assigned %d times in this case' % len(direct), where=fi.where()); continue
                kname = roles.inline_locals(direct[0].targets[0].slice, leaves)
                r = compare(kname, 'geo.block_name(geo.layerlist[0].name, geo.atmosphere_column_name)')
                if r == 'equal': run.ok(key, norm(direct[0].value), where=fi.where(direct[0]))
                elif r == 'different': run.violated(key, 'the atmosphere block name is `%s`' % norm(kname), where=fi.where(direct[0]))
                else: run.unknown(key, 'atmosphere block name `%s`' % norm(kname), where=fi.where(direct[0]))
            elif g == 1:
                if len(loops) != 1:
                    run.violated(key, 'no loop over geo.columnlist assigning each column\'s atmosphere block in this case', where=fi.where()); continue
                lp = loops[0]
                tgt = [x for x in lp.body if isinstance(x, ast.Assign) and isinstance(x.targets[0], ast.Subscript) and norm(x.targets[0].value) == 'self']
                cv0 = lp.target.id if isinstance(lp.target, ast.Name) else None
                if len(tgt) != 1 or cv0 is None:
                    run.unknown(key, 'per-column store not identified', where=fi.where(lp))
                else:
                    kname = roles.inline_locals(tgt[0].targets[0].slice, lp.body)
                    r = compare(kname, 'geo.block_name(geo.layerlist[0].name, %s.name)' % cv0)
                    if r == 'equal': run.ok(key, norm(tgt[0].value), where=fi.where(lp))
                    elif r == 'different':
                        run.violated(key, 'the per-column atmosphere block is `%s`, not geo.block_name(geo.layerlist[0].name, %s.name)' % (norm(kname), cv0), where=fi.where(lp))
                    else: run.unknown(key, 'per-column atmosphere block `%s`' % norm(kname), where=fi.where(lp))
                if s == 1:
                    # source block of the mapped column
                    # what is copied into the column's atmosphere block, with the loop's locals substituted by their definitions
                    k3 = key + ' (source block of the mapped column)'
                    stored = [x for x in ast.walk(lp) if isinstance(x, ast.Assign) and isinstance(x.targets[0], ast.Subscript) and norm(x.targets[0].value) == 'self']
                    if len(stored) != 1: run.unknown(k3, '%d stores into self[...] in the loop' % len(stored), where=fi.where(lp))
                    else:
                        got = roles.inline_locals(stored[0].value, lp.body)
                        cv = lp.target.id if isinstance(lp.target, ast.Name) else 'col'
                        want = 'copy(sourceinc[sourcegeo.block_name(sourcegeo.layerlist[0].name, colmapping[%s.name])])' % cv
                        r = compare(got, want, [want.replace('copy(', 'deepcopy(', 1)])
                        if r == 'equal': run.ok(k3, where=fi.where(stored[0]))
                        elif r == 'different':
                            run.violated(k3, 'source atmosphere block is not that of the mapped column: the stored state is `%s`' % norm(got), where=fi.where(stored[0]))
                        else: run.unknown(k3, 'stored state `%s`' % norm(got), where=fi.where(stored[0]))
            else:
                if direct or loops: run.violated(key, 'atmosphere blocks are assigned although the target has none', where=fi.where())
                else: run.ok(key, 'nothing to assign', where=fi.where())
    # underground
    ug = _loop_over(fi, 'geo.block_name_list[geo.num_atmosphere_blocks:]')
    key = 't2incon.transfer_from :: every underground block assigned from its mapped source block'
    part = [n for n in walk_no_nested(fi.node) if isinstance(n, ast.For) and 'block_name_list' in norm(n.iter)]
    if len(ug) != 1 and len(part) == 1:
        run.violated(key, 'the underground loop runs over `%s`; the target\'s underground blocks are '
                     'geo.block_name_list[geo.num_atmosphere_blocks:]: with different atmosphere types some target blocks '
                     'get no state (or atmosphere blocks are overwritten)' % norm(part[0].iter), where=fi.where(part[0]))
    elif len(ug) != 1: run.unknown(key, 'loop over the underground block names not found', where=fi.where())
    else:
        b = ug[0].target.id
        asg = [x for x in ug[0].body if isinstance(x, ast.Assign) and isinstance(x.targets[0], ast.Subscript) and norm(x.targets[0]) == 'self[%s]' % b]
        if len(asg) == 1:
            r = compare(asg[0].value, 'copy(sourceinc[mapping[%s]])' % b, ['deepcopy(sourceinc[mapping[%s]])' % b])
            if r == 'equal': run.ok(key, where=fi.where(asg[0]))
            else: run.violated(key, 'assigned `%s`' % norm(asg[0].value), where=fi.where(asg[0]))
        else: run.violated(key, '%d assignments of self[%s] per block' % (len(asg), b), where=fi.where(ug[0]))
    # the mappings come from the SOURCE geometry mapping the TARGET
    mp = [n for n in ast.walk(fi.node) if isinstance(n, ast.Assign) and norm(n.targets[0]) == '(mapping, colmapping)']
    if mp:
        check_formula(run, 't2incon.transfer_from :: mapping = sourcegeo.block_mapping(geo, True)', fi, None,
                      'sourcegeo.block_mapping(geo, True)', 'the block mapping is not computed from the source geometry onto the target', node=mp[0].value)
    em = [n for n in fi.node.body if isinstance(n, ast.Expr) and isinstance(n.value, ast.Call) and norm(n.value) == 'self.empty()']
    run.check(bool(em), 't2incon.transfer_from :: target emptied first', 'self.empty() is not called', where=fi.where())


def rule_noalias(run):
    run.rule('NOALIAS', 'whatever is stored through `self[...] = v` (which rewrites v.block) or mutated after being '
             'taken from the source is a copy or a fresh object', floor=7)
    prog = run.prog
    fi = prog.func('t2incons.t2incon.transfer_from')
    # confirm the sink mutates its argument
    si = prog.func('t2incons.t2incon.__setitem__')
    mut = any(isinstance(n, ast.Assign) and norm(n.targets[0]) == 'value.block' for n in ast.walk(si.node))
    run.shape(mut, 't2incon.__setitem__ :: rewrites value.block', 'sink no longer mutates its value', where=si.where())
    fresh = {}
    for n in ast.walk(fi.node):
        if isinstance(n, ast.Assign) and isinstance(n.targets[0], ast.Name) and isinstance(n.value, ast.Call) and \
           call_name(n.value) in ('t2blockincon',):
            fresh[n.targets[0].id] = True
    i = 0
    for n in ast.walk(fi.node):
        if isinstance(n, ast.Assign) and isinstance(n.targets[0], ast.Subscript) and norm(n.targets[0].value) == 'self':
            v = n.value
            key = 't2incon.transfer_from :: self[%s] = %s' % (norm(n.targets[0].slice), norm(v)[:50])
            i += 1
            if isinstance(v, ast.Call) and call_name(v) in ('copy', 'deepcopy'):
                # copy of a fresh template or of a source entry
                run.ok(key, 'copied', where=fi.where(n))
            elif isinstance(v, ast.Call) and call_name(v) == 't2blockincon':
                run.ok(key, 'fresh object', where=fi.where(n))
            else:
                srcs = [x for x in ast.walk(v) if isinstance(x, ast.Name) and x.id in ('sourceinc', 'default_atm_incons')]
                if srcs:
                    run.violated(key, 'the object stored is %s itself, not a copy: __setitem__ then rewrites its .block, '
                                 'altering the source initial conditions (and all targets share one object)' % norm(v), where=fi.where(n))
                else:
                    run.unknown(key, 'origin of the stored value not resolved', where=fi.where(n))
    # generators
    tg = prog.func('t2data.t2data.transfer_generators_from')
    lps = [n for n in walk_no_nested(tg.node) if isinstance(n, ast.For) and norm(n.iter) == 'source.generatorlist']
    if len(lps) != 1:
        run.unknown('t2data.transfer_generators_from :: source loop', 'loop over source.generatorlist not found', where=tg.where())
    else:
        sv = lps[0].target.id
        stores = [n for n in ast.walk(lps[0]) if isinstance(n, (ast.Assign, ast.AugAssign)) and
                  any(isinstance(t, ast.Attribute) and isinstance(t.value, ast.Name) and t.value.id == sv
                      for t in (n.targets if isinstance(n, ast.Assign) else [n.target]))]
        run.check(not stores, 't2data.transfer_generators_from :: source generators not mutated',
                  'attributes of the source generator %s are assigned' % sv, where=tg.where(stores[0]) if stores else tg.where())
        # which source column a top / bottom generator belongs to: the column part of its *block* (its name carries the category in the
        # layer part and need not carry the block's column); found as what is compared with colmapping[<target column>.name]
        run.rule_doc['GENCOL'] = 'a top / bottom generator is transferred to the target columns mapped to the column of its block'
        kc = 't2data.transfer_generators_from :: source column of a top/bottom generator = column of its block'
        cmp_ = [c for c in ast.walk(lps[0]) if isinstance(c, ast.Compare) and len(c.ops) == 1 and isinstance(c.ops[0], ast.Eq) and
                any(isinstance(x, ast.Subscript) and norm(x.value) == 'colmapping' for x in [c.left, c.comparators[0]])]
        if len(cmp_) != 1: run.unknown(kc, 'comparison with colmapping[...] not found exactly once', where=tg.where(lps[0]), rule='GENCOL')
        else:
            other = cmp_[0].comparators[0] if isinstance(cmp_[0].left, ast.Subscript) and norm(cmp_[0].left.value) == 'colmapping' else cmp_[0].left
            src = roles.inline_locals(other, lps[0].body)
            r = compare(src, 'sourcegeo.column_name(%s.block)' % sv)
            if r == 'equal': run.ok(kc, norm(src), where=tg.where(cmp_[0]), rule='GENCOL')
            elif isinstance(src, ast.Call) and call_name(src) == 'column_name' and src.args and isinstance(src.args[0], ast.Attribute) and norm(src.args[0].value) == sv:
                run.violated(kc, 'the source column is taken from `%s`, not from the generator\'s block: a generator whose name does not carry the column of its '
                             'block is moved to another column (or dropped, or raises KeyError)' % norm(src), where=tg.where(cmp_[0]), robust=True, rule='GENCOL')
            elif r == 'different': run.violated(kc, 'source column is `%s`' % norm(src), where=tg.where(cmp_[0]), rule='GENCOL')
            else: run.unknown(kc, 'source column `%s`' % norm(src), where=tg.where(cmp_[0]), rule='GENCOL')
        adds = [c for c in ast.walk(lps[0]) if isinstance(c, ast.Call) and call_name(c) == 'add_generator']
        for j, c in enumerate(adds):
            a = c.args[0]
            key = 't2data.transfer_generators_from :: add_generator #%d gets a copy' % j
            if isinstance(a, ast.Name):
                # nearest assignments to that name inside the loop
                asg = [n for n in ast.walk(lps[0]) if isinstance(n, ast.Assign) and norm(n.targets[0]) == a.id]
                if asg and all(isinstance(x.value, ast.Call) and call_name(x.value) == 'deepcopy' and norm(x.value.args[0]) == sv for x in asg):
                    run.ok(key, where=tg.where(c))
                elif asg and any(norm(x.value) == sv for x in asg):
                    run.violated(key, '%s is the source generator itself: scaling its rates and renaming it alters the source model' % a.id, where=tg.where(c))
                else: run.unknown(key, 'origin of %s not resolved' % a.id, where=tg.where(c))
            elif norm(a) == sv:
                run.violated(key, 'the source generator itself is added to the target', where=tg.where(c))
            else: run.unknown(key, norm(a), where=tg.where(c))


def rule_cacheinv(run):
    run.rule('CACHEINV', 'a value memoised from node positions / column centres (the column search tree of column_mapping, bounding boxes) is '
             'reset by every function that moves nodes or columns', floor=1)
    from .cacheinv import cacheinv_rule
    cacheinv_rule(run, 'mulgrids', only=lambda m: m.name in ('column_mapping', 'layer_mapping', 'block_mapping', 'closest_col'))


def rule_transl(run):
    run.rule('TRANSL', 'translate() moves every stored column surface with the layers: set_default_surface() stores an elevation in the '
             'columns with a default surface too, and block_mapping() compares it with the (moved) layer bottoms', floor=1)
    fi = run.prog.func('mulgrids.mulgrid.translate')
    key = 'mulgrid.translate :: every stored column surface is shifted'
    ups = [n for n in ast.walk(fi.node) if isinstance(n, ast.AugAssign) and isinstance(n.target, ast.Attribute) and n.target.attr == 'surface']
    if len(ups) != 1:
        run.unknown(key, '%d updates of a column surface' % len(ups), where=fi.where()); return
    up = ups[0]
    obj = norm(up.target.value)
    guards = [n for n in ast.walk(fi.node) if isinstance(n, ast.If) and any(x is up for b in n.body + n.orelse for x in ast.walk(b))]
    bad = [g for g in guards if any(isinstance(x, ast.Attribute) and norm(x.value) == obj and x.attr != 'surface' for x in ast.walk(g.test))]
    if bad:
        run.violated(key, 'the surface is shifted only if `%s`: a column with a default surface still stores an elevation (set_default_surface), '
                     'which stays behind while the layers move, and block_mapping() then takes blocks of the shifted geometry for '
                     'above-surface ones' % norm(bad[0].test), where=fi.where(up))
    else: run.ok(key, [norm(g.test) for g in guards], where=fi.where(up))


def check(run):
    run.guarded('TRANSL', rule_transl)
    run.guarded('CACHEINV', rule_cacheinv)
    run.guarded('TOTAL', rule_total)
    run.guarded('ATMKEY', rule_atmkey)
    run.guarded('CASE', rule_case)
    run.guarded('NOALIAS', rule_noalias)
    run.guarded('PRED', lambda r: rule_pred(r, floor=1, only=('mulgrid.block_mapping',)))
