"""OPTNUM (reported under NONETEST): an attribute that the module itself believes may be None (`x.a is None`
somewhere) and also uses as a number (arithmetic or ordering) must never be tested by truthiness - 0.0 is a
legitimate value of a number and would be taken for "absent".  Two beliefs about the same value that
contradict each other (Engler et al.)."""
import ast
from ..core import walk_no_nested, norm
from .io_common import truth_uses, truth_uses_inner

ARITH = (ast.Add, ast.Sub, ast.Mult, ast.Div, ast.FloorDiv, ast.Pow, ast.Mod)
ORDER = (ast.Lt, ast.LtE, ast.Gt, ast.GtE)


def property_aliases(prog, modnames):
    """attr -> backing attr, for `a = property(get_a, set_a)` whose getter returns self._b"""
    alias = {}
    for mn in modnames:
        for c in prog.mod(mn).classes.values():
            for st in c.node.body:
                if isinstance(st, ast.Assign) and isinstance(st.value, ast.Call) and isinstance(st.value.func, ast.Name) and \
                   st.value.func.id == 'property' and st.value.args and isinstance(st.value.args[0], ast.Name) and \
                   isinstance(st.targets[0], ast.Name):
                    g = c.methods.get(st.value.args[0].id)
                    if g is None: continue
                    rets = [r for r in ast.walk(g.node) if isinstance(r, ast.Return)]
                    if len(rets) == 1 and isinstance(rets[0].value, ast.Attribute) and isinstance(rets[0].value.value, ast.Name) \
                       and rets[0].value.value.id == 'self':
                        alias[st.targets[0].id] = rets[0].value.attr
    return alias


def optnum_rule(run, modnames, rule='NONETEST', only=None):
    prog = run.prog
    alias = property_aliases(prog, modnames)
    canon = lambda a: alias.get(a, a)
    none_tested, numeric = {}, {}
    funcs = list(prog.all_functions(modnames))
    for fi in funcs:
        for n in ast.walk(fi.node):
            if isinstance(n, ast.Compare) and len(n.ops) == 1 and isinstance(n.left, ast.Attribute) and \
               isinstance(n.ops[0], (ast.Is, ast.IsNot)) and isinstance(n.comparators[0], ast.Constant) and n.comparators[0].value is None:
                none_tested.setdefault(canon(n.left.attr), fi.where(n))
            if isinstance(n, ast.BinOp) and isinstance(n.op, ARITH):
                for x in (n.left, n.right):
                    if isinstance(x, ast.Attribute): numeric.setdefault(canon(x.attr), fi.where(n))
            if isinstance(n, ast.Compare) and any(isinstance(o, ORDER) for o in n.ops):
                for x in [n.left] + n.comparators:
                    if isinstance(x, ast.Attribute): numeric.setdefault(canon(x.attr), fi.where(n))
    opt = sorted(set(none_tested) & set(numeric))
    found = {}
    for fi in funcs:
        if only is not None and not only(fi): continue
        # parameters stored into an optional numeric attribute of self
        stored = {}
        params = set(a.arg for a in fi.node.args.args)
        for n in walk_no_nested(fi.node):
            if isinstance(n, ast.Assign) and isinstance(n.value, ast.Name) and n.value.id in params:
                for t in n.targets:
                    if isinstance(t, ast.Attribute) and isinstance(t.value, ast.Name) and t.value.id == 'self' and canon(t.attr) in opt:
                        stored[n.value.id] = canon(t.attr)

        def subject(z):
            if isinstance(z, ast.Attribute) and canon(z.attr) in opt: return True
            if isinstance(z, ast.Name) and z.id in stored: return True
            return False
        for x in ast.walk(fi.node):
            hits = []
            if isinstance(x, (ast.If, ast.While, ast.IfExp)): hits = truth_uses(x.test, subject)
            elif isinstance(x, ast.comprehension): hits = [h for t in x.ifs for h in truth_uses(t, subject)]
            elif isinstance(x, ast.expr): hits = truth_uses_inner(x, subject)
            for h in hits:
                a = canon(h.attr) if isinstance(h, ast.Attribute) else stored[h.id]
                found.setdefault(a, (fi, h, x))
    for a in opt:
        key = '%s :: optional number .%s never tested by truthiness' % ('+'.join(modnames), a)
        if a in found:
            fi, h, x = found[a]
            run.violated(key, '`%s` is used as a truth value in %s, but .%s is a number (%s) that may be None (%s): a value of exactly 0 is '
                         'taken for "not given"' % (norm(h), fi.short, a, numeric[a], none_tested[a]), where=fi.where(h), rule=rule)
        else:
            run.ok(key, {'is None': none_tested[a], 'numeric': numeric[a]}, rule=rule)
    return len(opt)
