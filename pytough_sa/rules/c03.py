"""C03 - MULgraph geometry round trip.  Rules DISP/KW, RECSEQ, TERM, FMAP, UNIT, JUST, BYNAME, INVTABLE, HEADER."""
import ast
from ..core import cnorm, AnalysisError, norm, dotted, call_name, walk_no_nested, const_str, Folder, TOP
from ..iomodel import layout_equiv, dispatch_table
from ..layout import load_table, fields_of
from ..fmap import reader_map, find_destructure, ReaderEval, WriterEval, Sym, flatten_dest
from ..formula import compare
from .. import flow
from .io_common import recseq_pair, term_rule, first_keyword, single_string_kinds
from .c01 import writer_field_syms, compare_maps, _strip_cls

LEVEL = 'other'
EXPLANATION = (
    "Writer/reader agreement of the MULgraph geometry file: (DISP/KW) every section writer's first line, cut "
    "to 5 columns, is a key of the reader's dispatch dictionary and leads to its sibling reader; write() "
    "calls the section writers in the file order and ends with a blank line; (RECSEQ/TERM) per section the "
    "writer's record tree is included in the reader's and ends with the blank line the reader loops until; "
    "(FMAP) each field is read into the attribute it is written from; (UNIT) exactly the coordinate fields "
    "are multiplied by unit_scale on reading and divided by it on writing; (JUST) names are stripped and "
    "right-justified to the convention's length on reading and left-justified to the 3 column field on "
    "writing (well names verbatim both ways); (BYNAME) every name of the by-name header record is a plain "
    "instance attribute of mulgrid, not a property - a property's value lives under its backing name in "
    "__dict__, so a by-name write emits a blank and a by-name read stores into an inert slot; (HEADER) after "
    "the by-name read each backing field with a side-effecting setter is pushed through that setter; "
    "(INVTABLE) the block-order and unit code tables are inverse / total. Two-decimal equality is not decided.")

M = 'mulgrids.mulgrid.'
PAIRS = [('nodes', 'node', 'node'), ('columns', 'column', 'column'), ('connections', 'connection', 'connection'),
         ('layers', 'layer', 'layer'), ('surface', 'surface', None), ('wells', 'well', 'well')]


def rule_disp(run):
    run.rule('DISP', 'section writers start with a keyword the reader dispatches to the sibling reader; write() emits the '
             'sections in file order and a final blank line', floor=8)
    prog = run.prog
    rd = prog.func(M + 'read')
    d = dispatch_table(prog, rd, 'read_fn')
    if d is None: raise AnalysisError('mulgrid.read: read_fn dictionary not found')
    # reader key extraction: line[0:5].rstrip()
    kx = [n for n in walk_no_nested(rd.node) if isinstance(n, ast.Assign) and norm(n.targets[0]) == 'keyword']
    run.shape(bool(kx) and norm(kx[0].value) in ('line[0:5].rstrip()', 'line[0:5].strip()', 'line[:5].rstrip()'),
              'mulgrid.read :: keyword = line[0:5].rstrip()', 'keyword extraction not recognised', where=rd.where())
    for sec, kind, cls in PAIRS:
        w = prog.func(M + 'write_' + sec)
        kw, node = first_keyword(w, w.params[1])
        key = 'mulgrid.write_%s :: keyword' % sec
        if kw is None: run.unknown(key, 'first line not literal', where=w.where(node)); continue
        k5 = kw[:5].rstrip()
        tgt = d.get(k5)
        if tgt is None:
            run.violated(key, 'section starts with `%s`, which the reader\'s dispatch dictionary does not know (KeyError on reading)' % kw, where=w.where(node))
        elif tgt.name != 'read_' + sec:
            run.violated(key, 'section starts with `%s`, which the reader hands to %s' % (kw, tgt.name), where=w.where(node))
        else: run.ok(key, kw, where=w.where(node))
    wr = prog.func(M + 'write')
    calls = [call_name(c) for c in walk_no_nested(wr.node) if isinstance(c, ast.Call) and isinstance(c.func, ast.Attribute)
             and dotted(c.func.value) == 'self' and c.func.attr.startswith('write_')]
    want = ['write_header', 'write_nodes', 'write_columns', 'write_connections', 'write_layers', 'write_surface', 'write_wells']
    if calls == want: run.ok('mulgrid.write :: section order', calls, where=wr.where())
    elif sorted(calls) == sorted(want):
        # the reader accepts any order after the header, but surface must follow columns+layers (it looks columns up and counts layers)
        pos = dict((c, i) for i, c in enumerate(calls))
        bad = calls[0] != 'write_header' or pos['write_surface'] < pos['write_columns'] or pos['write_surface'] < pos['write_layers'] \
            or pos['write_columns'] < pos['write_nodes'] or pos['write_connections'] < pos['write_columns']
        if bad: run.violated('mulgrid.write :: section order', 'sections are written as %s: a section is read before the objects it refers to exist' % calls, where=wr.where())
        else: run.ok('mulgrid.write :: section order', calls, where=wr.where())
    else:
        run.violated('mulgrid.write :: section order', 'write() calls %s; expected one call each of %s' % (calls, want), where=wr.where())
    # optional sections are guarded by the data they hold
    guards = dict((norm(n.body[0]), norm(n.test)) for n in walk_no_nested(wr.node) if isinstance(n, ast.If) and len(n.body) == 1)
    run.check(guards.get('self.write_surface(geo)') == 'not self.default_surface', 'mulgrid.write :: surface section iff some column has a non-default surface',
              'guard is %s' % guards.get('self.write_surface(geo)'), where=wr.where())
    run.check(guards.get('self.write_wells(geo)') in (cnorm('self.num_wells > 0'), 'self.num_wells', cnorm('len(self.welllist) > 0'), 'self.welllist'), 'mulgrid.write :: wells section iff there are wells',
              'guard is %s' % guards.get('self.write_wells(geo)'), where=wr.where())
    # final blank line
    bad = flow.must_pass(wr.node, lambda n: isinstance(n, ast.Expr) and isinstance(n.value, ast.Call) and call_name(n.value) == 'write'
                         and dotted(n.value.func.value) == 'geo' and const_str(n.value.args[0]) == '\n')
    run.check(not bad, 'mulgrid.write :: final blank line', 'a path writes no final blank line: the reader loops until one', where=wr.where())
    # reader refreshes derived lists after reading
    for nm in ('setup_block_name_index', 'setup_block_connection_name_index'):
        run.check(any(isinstance(c, ast.Call) and call_name(c) == nm for c in walk_no_nested(rd.node)), 'mulgrid.read :: %s()' % nm,
                  '%s is not called after reading' % nm, where=rd.where())


def rule_recseq(run):
    prog = run.prog
    tab = load_table(prog, 'mulgrids', 'mulgrid_format_specification')
    equiv = layout_equiv([tab])
    drop = [equiv[k] for k in single_string_kinds(tab)]
    run.rule('RECSEQ', 'per section the record tree of the writer is included in the record tree of the reader', floor=6)
    run.rule('TERM', 'every section writer ends with the blank line its reader loops until', floor=6)
    for sec, kind, cls in PAIRS:
        r, w = prog.func(M + 'read_' + sec), prog.func(M + 'write_' + sec)
        run.current_rule = 'RECSEQ'
        recseq_pair(run, 'mulgrid %s' % sec, prog, r, r.params[1], w, w.params[1], equiv, drop, strip_opt=False)
        run.current_rule = 'TERM'
        if not term_rule(run, 'mulgrid %s :: terminator' % sec, prog, r, w, w.params[1]):
            run.unknown('mulgrid %s :: terminator' % sec, 'reader loop idiom not recognised', where=r.where())
    # column nodes: count written == count read
    rc, wc = prog.func(M + 'read_columns'), prog.func(M + 'write_columns')
    run.current_rule = 'RECSEQ'
    lp = [n for n in ast.walk(rc.node) if isinstance(n, ast.For) and isinstance(n.iter, ast.Call) and call_name(n.iter) == 'range']
    ok = lp and norm(lp[0].iter.args[0]) == 'nnodes'
    wl = [n for n in ast.walk(wc.node) if isinstance(n, ast.For) and norm(n.iter) == 'col.node']
    run.shape(bool(ok) and bool(wl), 'mulgrid columns :: node lines counted by the num_nodes field', 'idiom not recognised', where=rc.where())


UNIT = ('self.unit_scale',)


def _canon_w(path, cls):
    p = _strip_cls(path, cls)
    return p.replace('[*]', '[0]')


def rule_fmap(run):
    run.rule('FMAP', 'each field of node/column/connection/layer/surface/well records is read into the attribute it is written from', floor=14)
    run.rule_doc['UNIT'] = 'coordinate fields are multiplied by unit_scale on reading and divided by it on writing, and only those'
    run.rule_doc['JUST'] = 'names are stripped and right-justified on reading, left-justified on writing (well names verbatim)'
    prog = run.prog
    tab = load_table(prog, 'mulgrids', 'mulgrid_format_specification')
    nunit = 0
    for sec, kind, cls in PAIRS:
        r, w = prog.func(M + 'read_' + sec), prog.func(M + 'write_' + sec)
        flds = fields_of(tab[kind])
        try:
            if cls is not None:
                rmap, rnode, consumed = reader_map(prog, r, kind, cls, len(flds), UNIT)
            else:
                rmap, rnode, consumed = _surface_reader_map(prog, r, kind, len(flds))
            wsyms, wnode = writer_field_syms(prog, w, kind, len(flds), UNIT)
        except AnalysisError as e:
            run.unknown('mulgrid %s' % kind, str(e), where=r.where()); continue
        wcls = cls or 'column'
        for i, f in enumerate(flds):
            key = 'mulgrid %s.%s[%d]' % (kind, f.name, i)
            ws = wsyms[i] if i < len(wsyms) else Sym('none')
            dests = rmap.get(i, [])
            if ws.kind == 'top':
                run.unknown(key, 'writer source %r not resolved' % (ws,), where=w.where(wnode)); continue
            if not dests and i in consumed and ws.kind == 'attr':
                run.ok(key, 'control field (count / flag) written from %s' % ws.path); continue
            if not dests and ws.kind != 'attr':
                run.ok(key, 'not stored / not written'); continue
            if not dests:
                run.violated(key, 'field %d (%s) is written from `%s` but the reader stores it nowhere' % (i, f.name, ws.path), where=r.where(rnode)); continue
            if ws.kind != 'attr':
                run.violated(key, 'field %d (%s) is read into %s but the writer writes %r' % (i, f.name, dests[0][0], ws), where=w.where(wnode)); continue
            rpath, rwr = dests[0]
            rp = rpath + ('.name' if 'ByName' in rwr else '')
            wp = _canon_w(ws.path, wcls)
            if rp != wp:
                run.violated(key, 'field %d (%s) is written from `%s` but read into `%s`' % (i, f.name, wp, rp), where=w.where(wnode)); continue
            run.ok(key, {'attr': rp, 'read': list(rwr), 'write': list(ws.wr)})
            # UNIT
            ru, wu = 'MulUnit' in rwr, 'DivUnit' in ws.wr
            is_coord = f.typ in 'fe'
            ku = key + ' unit'
            if ru and wu: run.ok(ku, rule='UNIT'); nunit += 1
            elif ru != wu:
                run.violated(ku, 'field %s is %s on reading but %s on writing: a geometry in feet changes size on every cycle'
                             % (f.name, 'multiplied by unit_scale' if ru else 'not scaled', 'divided by unit_scale' if wu else 'not scaled'),
                             where=w.where(wnode), rule='UNIT')
            elif is_coord:
                run.violated(ku, 'coordinate field %s is scaled on neither side: a file in feet is read as metres' % f.name, where=r.where(rnode), rule='UNIT')
            # JUST
            if f.typ == 's':
                rj = 'Strip' in rwr and 'Rjust' in rwr
                wj = 'Ljust' in ws.wr
                kj = key + ' justification'
                if rj == wj: run.ok(kj, 'stripped+rjust / ljust' if rj else 'verbatim both ways', rule='JUST')
                else:
                    run.violated(kj, 'name field %s: reader %s, writer %s' % (f.name, 'strips and right-justifies' if rj else 'keeps the text',
                                                                           'left-justifies to the field' if wj else 'writes verbatim'), where=w.where(wnode), rule='JUST')
    # (the count is a cross-check of the per-field verdicts above: when a record could not be analysed the shortfall is its fields, not a finding)
    undecided = any(o.status == 'unknown' and o.rule in ('FMAP', 'UNIT') for o in run.obs)
    ku10 = 'mulgrid :: 10 coordinate fields carry the unit scale'
    msg10 = '%d fields are unit-scaled on both sides, 10 expected (node x,y; column centre x,y; layer bottom, centre; surface elevation; well x,y,z)' % nunit
    if nunit == 10: run.ok(ku10, rule='UNIT')
    elif undecided: run.unknown(ku10, msg10 + ' - some records were not analysed', rule='UNIT')
    else: run.violated(ku10, msg10, rule='UNIT')
    # rjust lengths are the convention's
    for sec, attr in (('nodes', 'colname_length'), ('columns', 'colname_length'), ('connections', 'colname_length'),
                      ('layers', 'layername_length'), ('surface', 'colname_length')):
        r = prog.func(M + 'read_' + sec)
        rj = [c for c in ast.walk(r.node) if isinstance(c, ast.Call) and call_name(c) == 'rjust']
        bad = [norm(c.args[0]) for c in rj if norm(c.args[0]) != 'self.' + attr]
        run.check(bool(rj) and not bad, 'mulgrid.read_%s :: names right-justified to %s' % (sec, attr), 'rjust lengths %s' % bad, where=r.where(), rule='JUST')


def _surface_reader_map(prog, fi, kind, nfields):
    st, blk = find_destructure(fi, kind)
    if st is None: raise AnalysisError('read_surface: no destructuring')
    ev = ReaderEval(prog, fi, UNIT)
    ev.bind_fields(st.targets[0], nfields)
    out = {}
    obj = None
    for s in blk[blk.index(st) + 1:]:
        if isinstance(s, ast.Assign) and isinstance(s.targets[0], ast.Name) and isinstance(s.value, ast.Subscript) and \
           norm(s.value.value) == 'self.column':
            v = ev.expr(s.value)
            if v.kind == 'field':
                obj = s.targets[0].id
                out.setdefault(v.index, []).append(('name', tuple(w for w in v.wr if w != 'ByName')))
            continue
        if obj and isinstance(s, ast.Assign) and isinstance(s.targets[0], ast.Attribute) and norm(s.targets[0].value) == obj:
            flatten_dest(ev.expr(s.value), s.targets[0].attr, out)
            continue
        ev.assign(s)
    return out, st, set()


def rule_byname(run):
    run.rule('BYNAME', 'every name of the by-name header record is a plain instance attribute of mulgrid (not a property), '
             'and both sides use self.__dict__', floor=11)
    prog = run.prog
    tab = load_table(prog, 'mulgrids', 'mulgrid_format_specification')
    cls = prog.cls('mulgrids', 'mulgrid')
    inst = cls.instance_attrs()
    rh, wh = prog.func(M + 'read_header'), prog.func(M + 'write_header')
    rc = [c for c in walk_no_nested(rh.node) if isinstance(c, ast.Call) and call_name(c) == 'read_value_line']
    wc = [c for c in walk_no_nested(wh.node) if isinstance(c, ast.Call) and call_name(c) == 'write_value_line']
    ok = len(rc) == 1 and len(wc) == 1 and norm(rc[0].args[0]) == norm(wc[0].args[0]) == 'self.__dict__' and \
        const_str(rc[0].args[1]) == const_str(wc[0].args[1]) == 'header'
    run.check(ok, 'mulgrid header :: read into / written from self.__dict__ with record `header`',
              'header is read with %s and written with %s' % ([norm(c) for c in rc], [norm(c) for c in wc]), where=wh.where())
    for i, name in enumerate(tab['header'][0]):
        key = 'mulgrid header.%s[%d]' % (name, i)
        if name in cls.properties:
            g, s = cls.properties[name]
            run.violated(key, '`%s` is a property of mulgrid (get %s / set %s): its value is not in self.__dict__ under that name, so '
                         'write_value_line writes a blank and read_value_line stores into a slot nothing reads (a geometry in feet is '
                         'written without its unit and re-read as metres)' % (name, g, s), where='mulgrids.py (mulgrid_format_specification)')
        elif name not in inst:
            run.violated(key, '`%s` is never assigned as an instance attribute of mulgrid' % name, where='mulgrids.py (mulgrid_format_specification)')
        else:
            run.ok(key, 'instance attribute')


def rule_header(run):
    run.rule('HEADER', 'after the by-name header read, every backing field with a side-effecting setter is pushed through its '
             'property setter; block-order code tables are inverse; the unit table knows every unit string', floor=5)
    prog = run.prog
    rh = prog.func(M + 'read_header')
    cls = prog.cls('mulgrids', 'mulgrid')
    tab = load_table(prog, 'mulgrids', 'mulgrid_format_specification')
    names = list(tab['header'][0])
    read_call = [s for s in rh.node.body if isinstance(s, ast.Expr) and isinstance(s.value, ast.Call) and call_name(s.value) == 'read_value_line']
    for prop, (g, s) in sorted(cls.properties.items()):
        if s is None: continue
        setter = cls.methods.get(s)
        backing = [n.attr for n in ast.walk(setter.node) if isinstance(n, ast.Attribute) and isinstance(n.ctx, ast.Store) and dotted(n.value) == 'self'] if setter else []
        hit = [b for b in backing if b in names]
        if not hit: continue
        b = hit[0]
        key = 'mulgrid.read_header :: self.%s = self.%s after the by-name read' % (prop, b)
        pred = lambda n: isinstance(n, ast.Assign) and norm(n.targets[0]) == 'self.' + prop and norm(n.value) == 'self.' + b
        bad = flow.must_pass(rh.node, pred)
        if prop == 'block_order':
            # handled through the code table below
            continue
        if bad: run.violated(key, 'the header value read into %s is never pushed through the %s setter: dependent state '
                             '(name lengths, unit scale, name lists) keeps its old value' % (b, prop), where=rh.where())
        else: run.ok(key, where=rh.where())
        # the setter is entered with the value the by-name read has already stored in the backing field: whatever it derives
        # for the section readers (name lengths, unit scale) must be derived on every path, not only when the value changes
        used = set()
        for mname, m in cls.methods.items():
            if mname.startswith('read_') and mname != 'read_header':
                used |= set(n.attr for n in ast.walk(m.node) if isinstance(n, ast.Attribute) and isinstance(n.ctx, ast.Load) and dotted(n.value) == 'self')
        def stores(fn):
            return set(n.attr for n in ast.walk(fn) if isinstance(n, ast.Attribute) and isinstance(n.ctx, ast.Store) and dotted(n.value) == 'self')
        def derives(st):
            if isinstance(st, (ast.Assign, ast.AugAssign)):
                return (stores(st) - set([b])) & used
            if isinstance(st, ast.Expr) and isinstance(st.value, ast.Call) and dotted(st.value.func).startswith('self.'):
                callee = cls.methods.get(dotted(st.value.func)[5:])
                if callee is not None: return stores(callee.node) & used
            return set()
        effects = [st for st in ast.walk(setter.node) if isinstance(st, ast.stmt) and derives(st)]
        for st in effects:
            k2 = 'mulgrid.%s :: `%s` on every path' % (s, norm(st)[:60])
            skipped = flow.must_pass(setter.node, lambda n, st=st: n is st)
            if skipped:
                run.violated(k2, 'the %s setter can return without running `%s`, which derives %s for the section readers: read_header() '
                             'calls it with the value already stored in %s, so after a header is read the names are justified to the '
                             'previous convention' % (prop, norm(st)[:60], sorted(derives(st)), b), where=setter.where(st), robust=True)
            else: run.ok(k2, sorted(derives(st)), where=setter.where(st))
    # INVTABLE: block order codes
    sb = prog.func(M + 'set_block_order_int')
    fwd = bwd = None
    for n in walk_no_nested(sb.node):
        if isinstance(n, ast.Assign) and isinstance(n.value, ast.Dict) and norm(n.targets[0]) == 'block_order_ints':
            fwd = Folder(prog, 'mulgrids').fold(n.value)
    for n in walk_no_nested(rh.node):
        if isinstance(n, ast.Assign) and isinstance(n.value, ast.Dict) and norm(n.targets[0]) == 'block_orders':
            bwd = Folder(prog, 'mulgrids').fold(n.value)
    k3 = 'mulgrid.set_block_order_int :: the written code is refreshed on every normal exit'
    skipped = flow.must_pass(sb.node, lambda n: isinstance(n, ast.Assign) and norm(n.targets[0]) == 'self._block_order_int')
    if skipped:
        run.violated(k3, 'set_block_order_int() can return without storing self._block_order_int: after the block ordering is set '
                     'to a value on that path (None), the header goes on carrying the code of the previous ordering, which the '
                     'reader turns back into that ordering', where=sb.where(), robust=True)
    else: run.ok(k3, where=sb.where())
    key = 'mulgrid :: block order code tables are inverse'
    if isinstance(fwd, dict) and isinstance(bwd, dict):
        inv = dict((v, k) for k, v in fwd.items())
        if inv == bwd: run.ok(key, bwd)
        else: run.violated(key, 'written codes %s, read codes %s: the block ordering changes on a round trip' % (fwd, bwd), where=rh.where())
    else: run.unknown(key, 'tables not found', where=rh.where())
    su = prog.func(M + 'set_unit_type')
    units = None
    for n in ast.walk(su.node):
        if isinstance(n, ast.Subscript) and isinstance(n.value, ast.Dict):
            units = Folder(prog, 'mulgrids').fold(n.value)
    key = 'mulgrid.set_unit_type :: unit table'
    if isinstance(units, dict):
        good = units.get('') == 1.0 and abs(units.get('FEET ', 0) - 0.3048) < 1e-12 and all(len(k) in (0, 5) for k in units)
        w = [f for f in fields_of(tab['header']) if f.name in ('unit_type', '_unit_type')]
        good = good and w and w[0].width == 5
        if good: run.ok(key, units)
        else: run.violated(key, 'unit table %s does not map "" to 1 and the 5-column "FEET " to 0.3048' % units, where=su.where())
    else: run.unknown(key, 'table not found', where=su.where())


def rule_justtest(run):
    run.rule('JUSTTEST', 'the file stores names stripped and the reader right-justifies them, so names that differ only in justification '
             'collide on reading: the operations that create names (split, refine, decompose, refine_layers) must continue the '
             'justification the geometry already uses, and the test they consult must be able to tell the two apart - comparing a '
             'fixed-width slice with itself re-justified to the same width is always true', floor=1)
    prog = run.prog
    cls = prog.cls('mulgrids', 'mulgrid')
    n = 0
    for fi in sorted(prog.all_functions(['mulgrids']), key=lambda f: f.qual):
        for c in walk_no_nested(fi.node):
            if not (isinstance(c, ast.Compare) and len(c.ops) == 1 and isinstance(c.ops[0], (ast.Eq, ast.NotEq))): continue
            for a, b in ((c.left, c.comparators[0]), (c.comparators[0], c.left)):
                if isinstance(b, ast.Call) and isinstance(b.func, ast.Attribute) and b.func.attr in ('rjust', 'ljust', 'center') and b.args and \
                   isinstance(b.args[0], ast.Constant) and isinstance(b.args[0].value, int):
                    n += 1
                    k = b.args[0].value
                    key = '%s :: justification test `%s`' % (fi.short, norm(c)[:70])
                    inner = b.func.value
                    width = None
                    if isinstance(a, ast.Subscript) and isinstance(a.slice, ast.Slice) and a.slice.step is None:
                        lo = 0 if a.slice.lower is None else (a.slice.lower.value if isinstance(a.slice.lower, ast.Constant) else None)
                        hi = a.slice.upper.value if isinstance(a.slice.upper, ast.Constant) else None
                        if isinstance(lo, int) and isinstance(hi, int) and 0 <= lo <= hi: width = hi - lo
                    if norm(inner) == norm(a) and width is not None and width >= k:
                        run.violated(key, '`%s` is a slice of %d characters, so `.%s(%d)` returns it unchanged and the comparison is always %s: a '
                                     'left-justified geometry is taken for a right-justified one, the operations that add columns and nodes '
                                     'then create right-justified names next to the left-justified ones ("  a" beside "a  "), and after a '
                                     'write / read cycle both are "  a"' % (norm(a), width, b.func.attr, k, isinstance(c.ops[0], ast.Eq)),
                                     where=fi.where(c), robust=True)
                    elif norm(inner) == norm(a) and width is None:
                        run.unknown(key, 'length of `%s` not known' % norm(a), where=fi.where(c))
                    else: run.ok(key, where=fi.where(c))
    if n == 0: run.unknown('mulgrids :: justification tests', 'no comparison with a re-justified string found', where='mulgrids.py')


def rule_topstate(run):
    run.rule('TOPSTATE', 'layer tops are only defined once identify_layer_tops() has run: a function that builds layers and '
             'then calls it reads no layer .top before that call', floor=2)
    prog = run.prog
    cls = prog.cls('mulgrids', 'mulgrid')
    for name, fi in sorted(cls.methods.items()):
        calls = [c for c in walk_no_nested(fi.node) if isinstance(c, ast.Call) and call_name(c) == 'identify_layer_tops' and dotted(c.func.value) == 'self']
        builds = [c for c in walk_no_nested(fi.node) if isinstance(c, ast.Call) and isinstance(c.func, ast.Name) and c.func.id == 'layer']
        if not calls or not builds: continue
        line = calls[0].lineno
        early = [n for n in walk_no_nested(fi.node) if isinstance(n, ast.Attribute) and n.attr == 'top' and isinstance(n.ctx, ast.Load)
                 and n.lineno < line]
        key = 'mulgrid.%s :: no layer top read before identify_layer_tops()' % name
        if early:
            run.violated(key, '`%s` is read at line %d, before identify_layer_tops() (line %d) has given the new layers their tops: '
                         'the value is the constructor default 0.0' % (norm(early[0]), early[0].lineno, line), where=fi.where(early[0]))
        else: run.ok(key, where=fi.where(calls[0]))
    # the fallback centre of a layer read without one is the mid-point between its bottom and the bottom of the layer above
    rl = prog.func(M + 'read_layers')
    fb = [n for n in ast.walk(rl.node) if isinstance(n, ast.Assign) and norm(n.targets[0]) == 'centre' and isinstance(n.value, ast.BinOp)
          and isinstance(n.value.op, ast.Mult)]
    if fb:
        r = compare(fb[0].value, '0.5 * (newlayer.bottom + self.layerlist[nlayers - 2].bottom)')
        k = 'mulgrid.read_layers :: fallback centre is the mid-point of the two bottoms'
        if r == 'equal': run.ok(k, where=rl.where(fb[0]))
        elif r == 'different': run.violated(k, 'fallback centre is `%s`' % norm(fb[0].value), where=rl.where(fb[0]))
        else: run.ok(k, 'shape differs (%s); decided by the TOPSTATE clause above' % norm(fb[0].value), where=rl.where(fb[0]))


def rule_nonetest(run):
    run.rule('NONETEST', 'real-valued fields read from a record are tested for absence with `is None`, never by truthiness '
             '(a coordinate of exactly 0.0 is legal)', floor=3)
    from .io_common import nonetest_rule
    prog = run.prog
    tab = load_table(prog, 'mulgrids', 'mulgrid_format_specification')
    for sec, kind, cls in PAIRS:
        nonetest_rule(run, prog.func(M + 'read_' + sec), [tab])
    # attributes the module itself treats as "a number or None" (column surface, ...)
    from .optnum import optnum_rule
    # where a truthiness test would change what is read or written: the readers / writers and the element classes themselves
    optnum_rule(run, ['mulgrids'], only=lambda fi: fi.name.startswith(('read', 'write')) or (fi.cls is not None and fi.cls.name != 'mulgrid'))
    # the numeric fields of the by-name header record are attributes of the geometry (0 is a legal convention,
    # atmosphere type and block-order flag; a blank field reads as None)
    from .io_common import truth_uses, truth_uses_inner
    names = [n for n, f in zip(*tab['header']) if f[-1] in 'defg']
    subj = lambda z: isinstance(z, ast.Attribute) and z.attr in names
    found = {}
    for fi in prog.mod('mulgrids').all_functions():
        for x in ast.walk(fi.node):
            hits = []
            if isinstance(x, (ast.If, ast.While, ast.IfExp)): hits = truth_uses(x.test, subj)
            elif isinstance(x, ast.comprehension): hits = [h for t in x.ifs for h in truth_uses(t, subj)]
            elif isinstance(x, ast.expr): hits = truth_uses_inner(x, subj)
            for h in hits: found.setdefault(h.attr, (fi, h))
    for nm in names:
        key = 'mulgrid header :: numeric field %s never tested by truthiness' % nm
        if nm in found:
            fi, h = found[nm]
            run.violated(key, '`%s` is used as a truth value in %s: the header field %s is a number (0 is a legal value) and None when blank, '
                         'so a value of 0 is treated like a missing one' % (norm(h), fi.short, nm), where=fi.where(h))
        else: run.ok(key)


def rule_pure(run):
    run.rule('PURE', 'a write_* method does not modify the model: no store through an un-copied attribute dictionary '
             '(x.__dict__ / vars(x)), no attribute assignment on an element of one of the model\'s lists', floor=1)
    from .purewrite import pure_rule
    cls = run.prog.cls('mulgrids', 'mulgrid')
    pure_rule(run, [fi for name, fi in sorted(cls.methods.items()) if name.startswith('write')])


def rule_surfall(run):
    run.rule('SURFALL', 'write() leaves the surface section out when the geometry reports default_surface, so that report is the conjunction '
             'of the per-column flags: one column with an explicit surface is enough to need the section', floor=1)
    fi = run.prog.func('mulgrids.mulgrid.get_default_surface')
    key = 'mulgrid.default_surface :: all columns default'
    calls = [c for c in ast.walk(fi.node) if isinstance(c, ast.Call) and isinstance(c.func, ast.Name) and c.func.id in ('all', 'any')
             and any(isinstance(x, ast.Attribute) and x.attr == 'default_surface' for x in ast.walk(c))]
    if not calls and any(isinstance(x, ast.Attribute) and x.attr == 'default_surface' for x in ast.walk(fi.node)):
        # the explicit form: a loop that returns a constant at the first flag of one truth value and the other constant after it
        loops = [n for n in fi.node.body if isinstance(n, ast.For)]
        last = fi.node.body[-1]
        if len(loops) == 1 and len(loops[0].body) == 1 and isinstance(loops[0].body[0], ast.If) and not loops[0].body[0].orelse and \
           len(loops[0].body[0].body) == 1 and isinstance(loops[0].body[0].body[0], ast.Return) and isinstance(loops[0].body[0].body[0].value, ast.Constant) and \
           isinstance(last, ast.Return) and isinstance(last.value, ast.Constant) and not loops[0].orelse:
            t = loops[0].body[0].test
            neg = isinstance(t, ast.UnaryOp) and isinstance(t.op, ast.Not)
            early, final = loops[0].body[0].body[0].value.value, last.value.value
            if neg and early is False and final is True:
                run.ok(key, 'loop: False at the first column without the flag, True otherwise', where=fi.where(loops[0])); return
            if not neg and early is True and final is False:
                run.violated(key, 'the loop returns True at the first column that has a default surface: write() then omits the whole surface '
                             'section and the explicit surfaces of the other columns are lost on re-reading', where=fi.where(loops[0])); return
    if len(calls) != 1:
        run.unknown(key, 'reduction over the column flags not found', where=fi.where()); return
    c = calls[0]
    neg_in = any(isinstance(u, ast.UnaryOp) and isinstance(u.op, ast.Not) for a in c.args for u in ast.walk(a))
    neg_out = any(isinstance(u, ast.UnaryOp) and isinstance(u.op, ast.Not) and u.operand is c for u in ast.walk(fi.node))
    universal = (c.func.id == 'all' and not neg_in and not neg_out) or (c.func.id == 'any' and neg_in and neg_out)
    if universal: run.ok(key, norm(c)[:80], where=fi.where(c))
    elif c.func.id == 'any' and not neg_in and not neg_out:
        run.violated(key, 'the geometry reports a default surface as soon as *one* column has it (`%s`): write() then omits the whole surface '
                     'section and the explicit surfaces of the other columns are lost on re-reading' % norm(c)[:80], where=fi.where(c))
    else: run.unknown(key, 'reduction `%s` not recognised' % norm(c)[:80], where=fi.where(c))


def check(run):
    run.guarded('SURFALL', rule_surfall)
    run.guarded('PURE', rule_pure)
    run.guarded('DISP', rule_disp)
    run.guarded('RECSEQ', rule_recseq)
    run.guarded('FMAP', rule_fmap)
    run.guarded('BYNAME', rule_byname)
    run.guarded('HEADER', rule_header)
    run.guarded('TOPSTATE', rule_topstate)
    run.guarded('JUSTTEST', rule_justtest)
    run.guarded('NONETEST', rule_nonetest)
