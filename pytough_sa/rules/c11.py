"""C11 - refinement tiles the domain.  Rules TILE, DISPATCH, INHERIT, PART."""
import ast
import itertools
from ..core import cnorm_block, AnalysisError, norm, dotted, call_name, walk_no_nested, Folder, TOP, is_self_attr
from ..consteval import Interp
from ..formula import check_formula, check_return, compare
from .. import roles

LEVEL = 'other'
EXPLANATION = (
    "Every literal subdivision table of mulgrids.py (the 8 transition entries of refine(), the 6 special "
    "cases of decompose_column, the triangulation fan, split_column) is interpreted token by token (int = "
    "parent vertex, (i,j) = mid-side node, 'c' = centre node) and the oriented edge chain of all pieces is "
    "cancelled: what remains must be exactly the parent's boundary cycle with refined sides split at their "
    "mid nodes. The shoelace area is linear in the oriented edge chain and mid nodes are collinear with "
    "their side, so this proves area conservation and edge conformity for ALL coordinates. DISPATCH runs "
    "the 14-line pure helper transition_type over its complete input space (22 side subsets) by exact "
    "constant propagation and checks the selected entry refines exactly the sides that are refined. "
    "INHERIT: children are constructed with the parent's surface. PART: refine_layers replaces a thickness "
    "t by [t/f]*f and keeps top elevation and atmosphere layer name. Convexity / point-in-exactly-one-"
    "column for a concrete geometry is not decided.")


def side_of(tok, nn):
    """(i,j) mid-side token -> side index i (from vertex i to i+1), or None if not a side"""
    i, j = tok
    if (i + 1) % nn == j: return i
    if (j + 1) % nn == i: return j
    return None


def tile_check(nn, pieces):
    """returns (ok, message, refined_sides)"""
    mids = set()
    for p in pieces:
        if len(p) < 3: return False, 'piece %r has fewer than 3 vertices' % (p,), None
        if len(set(map(repr, p))) != len(p): return False, 'piece %r repeats a vertex' % (p,), None
        for t in p:
            if isinstance(t, int):
                if not 0 <= t < nn: return False, 'vertex %r out of range for a %d-gon' % (t, nn), None
            elif isinstance(t, tuple):
                if len(t) != 2 or side_of(t, nn) is None:
                    return False, 'mid-side token %r is not a side of a %d-gon' % (t, nn), None
                mids.add(side_of(t, nn))
            elif t != 'c':
                return False, 'token %r not understood' % (t,), None

    def canon(t):
        if isinstance(t, tuple): return ('m', side_of(t, nn))
        return t
    edges = {}
    for p in pieces:
        q = [canon(t) for t in p]
        for a, b in zip(q, q[1:] + q[:1]):
            if edges.get((b, a), 0) > 0:
                edges[(b, a)] -= 1
            else:
                edges[(a, b)] = edges.get((a, b), 0) + 1
    remaining = sorted((repr(e) for e, c in edges.items() for _ in range(c)))
    boundary = []
    for k in range(nn):
        k1 = (k + 1) % nn
        if k in mids:
            boundary += [(k, ('m', k)), (('m', k), k1)]
        else:
            boundary.append((k, k1))
    want = sorted(repr(e) for e in boundary)
    if remaining != want:
        extra = [e for e in remaining if e not in want]
        missing = [e for e in want if e not in remaining]
        return False, ('after cancelling interior edges the pieces leave edges %s and lack %s of the parent '
                       'boundary: the pieces overlap, leave a gap, or keep a refined side unsplit (hanging node)'
                       % (extra[:4], missing[:4])), mids
    return True, 'edge chain equals the parent boundary', mids


def _find_assign(fnode, name):
    for n in ast.walk(fnode):
        if isinstance(n, ast.Assign) and len(n.targets) == 1 and isinstance(n.targets[0], ast.Name) \
           and n.targets[0].id == name:
            return n
    return None


def transition_table(prog):
    fi = prog.func('mulgrids.mulgrid.refine')
    a = _find_assign(fi.node, 'transition_column')
    if a is None: raise AnalysisError('refine: transition_column table not found')
    tab = Folder(prog, 'mulgrids').fold(a.value)
    if tab is TOP or not isinstance(tab, dict): raise AnalysisError('transition_column does not fold')
    return fi, a, tab


def rule_tile(run):
    run.rule('TILE', 'each literal subdivision table is a topological tiling of its parent polygon with '
             'conforming refined edges (oriented edge-chain cancellation)', floor=16)
    prog = run.prog
    fi, a, tab = transition_table(prog)
    for nn in sorted(tab):
        for key in sorted(tab[nn]):
            pieces = tab[nn][key]
            ok, msg, mids = tile_check(nn, pieces)
            k = 'mulgrid.refine :: transition_column[%d][%r]' % (nn, key)
            if not ok: run.violated(k, msg, where=fi.where(a))
            elif len(mids) != key[0]:
                run.violated(k, 'entry refines %d side(s) %s but is filed under %d refined sides'
                             % (len(mids), sorted(mids), key[0]), where=fi.where(a))
            else: run.ok(k, {'pieces': len(pieces), 'refined_sides': sorted(mids)})
    # decompose_column cases
    dc = prog.func('mulgrids.mulgrid.decompose_column')
    ncase = 0

    def cases(stmts, ctx):
        nonlocal ncase
        for st in stmts:
            if isinstance(st, ast.If):
                t = st.test
                c2 = ctx
                if isinstance(t, ast.Compare) and norm(t.left) == '(nn, ns)' and isinstance(t.comparators[0], ast.Tuple):
                    c2 = tuple(e.value for e in t.comparators[0].elts)
                cases(st.body, c2 if c2 is not None else ctx)
                cases(st.orelse, ctx)
            elif isinstance(st, ast.Return) and isinstance(st.value, ast.Call) and call_name(st.value) == 'subdivide_column':
                if ctx is None or not isinstance(ctx, tuple): continue
                lst = st.value.args[2] if len(st.value.args) > 2 else None
                pieces = Folder(prog, 'mulgrids').fold(lst) if lst is not None else TOP
                k = 'mulgrid.decompose_column :: case %r %s' % (ctx, norm(st.value.args[1]))
                if pieces is TOP:
                    run.unknown(k, 'piece list does not fold', where=dc.where(st)); continue
                ncase += 1
                ok, msg, mids = tile_check(ctx[0], [tuple(p) for p in pieces])
                if ok and mids: ok, msg = False, 'decomposition uses mid-side nodes %s which do not exist' % sorted(mids)
                if ok: run.ok(k, {'pieces': len(pieces)})
                else: run.violated(k, msg, where=dc.where(st))
    cases(dc.node.body, None)
    if ncase < 5: run.unknown('mulgrid.decompose_column :: cases', 'only %d literal cases found (5 expected)' % ncase, where=dc.where())
    # triangulate_column fan
    tc = prog.func('mulgrids.mulgrid.triangulate_column')
    txt = norm(tc.node)
    fan = "for i, node in enumerate(col.node): inext = col.index_plus(i, 1) colnodelist.append((i, inext, 'c'))" in txt \
        and 'self.subdivide_column(column_name, 0, colnodelist' in txt
    if not fan:
        run.unknown('mulgrid.triangulate_column :: fan', 'fan construction not recognised', where=tc.where())
    else:
        for n in range(3, 10):
            ok, msg, _ = tile_check(n, [(i, (i + 1) % n, 'c') for i in range(n)])
            run.check(ok, 'mulgrid.triangulate_column :: fan n=%d' % n, msg, where=tc.where())
    # index_plus really is (i + d) % num_nodes
    ip = prog.func('mulgrids.column.index_plus')
    check_return(run, 'column.index_plus :: (i + d) % num_nodes', ip, '(i + d) % self.num_nodes',
                 'index_plus is not modular addition around the column')
    # subdivide_column maps tokens as the tables assume
    sd = prog.func('mulgrids.mulgrid.subdivide_column')
    stxt = norm(sd.node)
    check_formula(run, 'mulgrid.subdivide_column :: token interpretation', sd, 'nodes',
                  "[centrenode if i == 'c' else col.node[col.index_plus(i0, i)] for i in colnodes]",
                  "tokens are not mapped as 'c' -> centre node, int i -> col.node[(i0 + i) % n]")
    check_formula(run, 'mulgrid.subdivide_column :: centre node at col.centre', sd, 'centrenode',
                  'node(newnodename, col.centre)', 'centre node is not placed at the column centre')
    from .. import flow as _flow
    bad = _flow.must_pass(sd.node, lambda n: isinstance(n, ast.Expr) and isinstance(n.value, ast.Call) and
                          call_name(n.value) == 'delete_column' and n.value.args and norm(n.value.args[0]) == 'column_name')
    if bad: run.violated('mulgrid.subdivide_column :: parent deleted', 'a path returns without deleting the parent column: '
                         'parent and pieces overlap', where=sd.where(None if bad[0] == 'fall' else bad[0]))
    else: run.ok('mulgrid.subdivide_column :: parent deleted', where=sd.where())
    # split_column: pieces [i2,i3,i0] and the parent with i3 removed
    sc = prog.func('mulgrids.mulgrid.split_column')
    new = None
    deleted = None
    for n in walk_no_nested(sc.node):
        if isinstance(n, ast.Call) and call_name(n) == 'column':
            for k in n.keywords:
                if k.arg == 'node' and isinstance(k.value, ast.List):
                    try:
                        new = tuple(e.slice.slice.value for e in k.value.elts)   # col.node[i[K]]
                    except AttributeError:
                        new = None
        if isinstance(n, ast.Delete) and len(n.targets) == 1:
            t = n.targets[0]
            if isinstance(t, ast.Subscript) and norm(t.value) == 'col.node' and isinstance(t.slice, ast.Subscript) \
               and isinstance(t.slice.slice, ast.Constant):
                deleted = t.slice.slice.value
    itxt = 'i = [(i0 + j) % nn for j in range(nn)]' in norm(sc.node)
    if new is None or deleted is None or not itxt:
        run.unknown('mulgrid.split_column :: pieces', 'construction not recognised', where=sc.where())
    else:
        rest = tuple(k for k in range(4) if k != deleted)
        ok, msg, _ = tile_check(4, [new, rest])
        run.check(ok, 'mulgrid.split_column :: pieces %r + %r' % (new, rest), msg, where=sc.where())


def _consumer_model(fi):
    """How refine() uses what transition_type returns, decided by interpreting its own statements on a model column:
    (1) the list of refined sides handed to transition_type is the increasing list of the sides whose node pair is in the
    mid-node dictionary, for every subset of sides of a 3- and 4-sided column; (2) the entry selected is
    transition_column[nn][nrefined, irange]; (3) a table vertex v is turned into node (istart + v) mod nn, a pair (a, b) into the
    mid node of the side between nodes istart+a and istart+b, 'c' into the centre node.  Returns (True, evidence) /
    (False, what differs) / (None, why it could not be interpreted)."""
    from ..consteval import Obj
    from ..core import parent_map
    pm = parent_map(fi.node)
    tts = [st for st in walk_no_nested(fi.node) if isinstance(st, ast.Assign) and isinstance(st.value, ast.Call) and call_name(st.value) == 'transition_type'
           and isinstance(st.targets[0], ast.Tuple) and len(st.targets[0].elts) == 3 and all(isinstance(e, ast.Name) for e in st.targets[0].elts)
           and len(st.value.args) == 2 and isinstance(st.value.args[1], ast.Name)]
    if len(tts) != 1: return None, 'call of transition_type with a 3-name target not found exactly once'
    tt = tts[0]
    NR, IS, IR = [e.id for e in tt.targets[0].elts]
    L = tt.value.args[1].id
    # the loop over columns that contains it, and its variable
    cur, colloop = tt, None
    while cur in pm:
        cur = pm[cur]
        if isinstance(cur, ast.For) and isinstance(cur.target, ast.Name): colloop = cur; break
    if colloop is None or tt not in colloop.body: return None, 'column loop not found'
    C = colloop.target.id
    outer = [n for n in colloop.body if isinstance(n, ast.For) and isinstance(n.iter, ast.Subscript) and isinstance(n.iter.value, ast.Subscript)
             and norm(n.iter.value.value) == 'transition_column' and isinstance(n.target, ast.Name)]
    if len(outer) != 1: return None, 'loop over the selected table entry not found'
    sel = outer[0].iter
    if not (isinstance(sel.slice, ast.Tuple) and [norm(e) for e in sel.slice.elts] == [NR, IR]):
        return False, 'the table entry is selected by `%s`, not by (%s, %s) as returned by transition_type' % (norm(sel.slice), NR, IR)
    inner = [n for n in outer[0].body if isinstance(n, ast.For) and isinstance(n.iter, ast.Name) and n.iter.id == outer[0].target.id]
    if len(inner) != 1: return None, 'loop over the vertices of a sub-column not found'
    apps = [c for c in ast.walk(inner[0]) if isinstance(c, ast.Call) and isinstance(c.func, ast.Attribute) and c.func.attr == 'append' and isinstance(c.func.value, ast.Name)]
    if len(apps) != 1: return None, 'node list of the sub-column not found'
    NV = apps[0].func.value.id
    extra = {'frozenset': frozenset, 'isinstance': isinstance}
    pre = colloop.body[:colloop.body.index(tt)]
    nsub = 0
    try:
        for nn in (3, 4):
            nodes = []
            for i in range(nn):
                o = Obj(); o.attrs['name'] = 'n%d' % i; nodes.append(o)
            col = Obj(); col.attrs.update(node=nodes, num_nodes=nn, name='colX')
            allmid = dict((frozenset((nodes[i].attrs['name'], nodes[j].attrs['name'])), ('mid', i, j)) for i in range(nn) for j in range(nn) if i != j)
            # (1)
            for r in range(0, nn + 1):
                for sides in itertools.combinations(range(nn), r):
                    nsub += 1
                    side = dict((frozenset((nodes[i].attrs['name'], nodes[(i + 1) % nn].attrs['name'])), 'm') for i in sides)
                    it = Interp({C: col, 'sidenodes': side}, extra=extra)
                    it.block(pre)
                    got = it.env.get(L)
                    if got != list(sides):
                        return False, ('for a %d-sided column whose refined sides are %s the list handed to transition_type is %r: the helper assumes '
                                       'the refined sides in increasing order' % (nn, list(sides), got))
            # (3)
            sample = [0, 1, nn - 1, (0, 1), (1, 2), (nn - 1, 0), 'c']
            for istart in range(nn):
                it = Interp({C: col, 'sidenodes': allmid, 'centrenodes': {'colX': 'C'}, IS: istart, outer[0].target.id: sample, NV: []}, extra=extra)
                it.block(pre[:0])
                env0 = Interp({C: col, 'sidenodes': {}}, extra=extra); env0.block(pre)
                for k, v in env0.env.items():
                    if k not in it.env: it.env[k] = v
                # simple local bindings made in the entry loop before the vertex loop (a hoisted node count); statements that
                # reach outside the model (naming the new column) are not needed for the node list and are skipped
                for st in outer[0].body[:outer[0].body.index(inner[0])]:
                    if isinstance(st, ast.Assign) and len(st.targets) == 1 and isinstance(st.targets[0], ast.Name) and st.targets[0].id != NV:
                        try: it.stmt(st)
                        except AnalysisError: pass
                it.stmt(inner[0])
                got = it.env[NV]
                want = []
                for v in sample:
                    if isinstance(v, int): want.append(nodes[(istart + v) % nn])
                    elif v == 'c': want.append('C')
                    else: want.append(allmid[frozenset(nodes[(istart + i) % nn].attrs['name'] for i in v)])
                if len(got) != len(want) or any(not (g is w or g == w) for g, w in zip(got, want)):
                    bad = [sample[i] for i in range(min(len(got), len(want))) if not (got[i] is want[i] or got[i] == want[i])]
                    return False, ('with start index %d on a %d-sided column the table vertices %s are not turned into node (istart + v) mod nn / the mid node '
                                   'of side (istart + a, istart + b) / the centre node' % (istart, nn, bad or 'list length'))
    except AnalysisError as e:
        return None, 'statements left the constant-evaluation whitelist: %s' % e
    except (KeyError, IndexError, TypeError) as e:
        return None, 'model evaluation failed: %r' % (e,)
    return True, {'side_subsets': nsub, 'roles': {'nrefined': NR, 'istart': IS, 'irange': IR, 'sides': L, 'column': C, 'nodes': NV}}


def rule_dispatch(run):
    run.rule('DISPATCH', 'transition_type maps every refined-side subset to a table key, and the entry it '
             'selects refines exactly the refined sides (exhaustive over the finite input space)', floor=22)
    prog = run.prog
    fi, a, tab = transition_table(prog)
    tt = prog.nested(fi, 'transition_type')
    # the consumer: n = col.node[(istart + vert) % nn]; sidenodes[frozenset(col.node[(istart + i) % nn].name for i in vert)]
    txt = norm(fi.node)
    cons, why = _consumer_model(fi)
    if cons is None:
        run.unknown('mulgrid.refine :: table consumer', 'use of (istart, irange) not recognised: %s' % why, where=fi.where())
        return
    if cons is False:
        run.violated('mulgrid.refine :: table consumer', why, where=fi.where(), robust=True)
        return
    run.ok('mulgrid.refine :: table consumer', why, where=fi.where())
    ncase = 0
    for nn in (3, 4):
        for r in range(1, nn + 1):
            for sides in itertools.combinations(range(nn), r):
                ncase += 1
                key = 'mulgrid.refine.transition_type :: nn=%d sides=%s' % (nn, list(sides))
                it = Interp({'print': None}, funcs={})
                try:
                    res = it.call_function(tt.node, [nn, list(sides)])
                except AnalysisError as e:
                    run.unknown(key, 'helper left the constant-evaluation whitelist: %s' % e, where=tt.where()); continue
                if not (isinstance(res, tuple) and len(res) == 3):
                    run.violated(key, 'transition_type returns %r: refine() cannot unpack it' % (res,), where=tt.where()); continue
                nref, istart, irange = res
                entry = tab.get(nn, {}).get((nref, irange))
                if entry is None:
                    run.violated(key, 'selects table key (%r, %r) which transition_column[%d] does not have (KeyError)'
                                 % (nref, irange, nn), where=tt.where()); continue
                ok, msg, mids = tile_check(nn, entry)
                if not ok:
                    run.unknown(key, 'selected entry is not a tiling (reported by TILE)', where=tt.where()); continue
                actual = set((istart + s) % nn for s in mids)
                if actual != set(sides):
                    run.violated(key, 'entry (%d,%d) placed at start %d splits sides %s but the refined sides are %s: '
                                 'a mid node is looked up on an unrefined side (KeyError) or a refined side stays unsplit'
                                 % (nref, irange, istart, sorted(actual), list(sides)), where=tt.where())
                else:
                    run.ok(key, {'selects': [nref, irange], 'start': istart})
    run.count('side_subsets', ncase)
    run.trust('whitelist interpreter (consteval.py) = exact constant propagation of the pure integer helper transition_type')
    # refined_sides is built in increasing side order (what the helper assumes)
    # (decided by the consumer model above: the list handed to transition_type is interpreted for every subset of sides)
    # centre node created exactly for the entries that use 'c'
    need_c = sorted((nn, k) for nn in tab for k in tab[nn] if any('c' in p for p in tab[nn][k]))
    # evaluate the creation condition over all table keys by constant propagation
    cnode = None
    for n in ast.walk(fi.node):
        if isinstance(n, ast.If) and any(isinstance(s_, ast.Assign) and norm(s_.targets[0]) == 'centrenodes[col.name]'
                                         for s_ in n.body):
            cnode = n
    if cnode is None:
        run.unknown('mulgrid.refine :: centre node created iff entry uses it', 'centre-node creation not found', where=fi.where())
    else:
        from ..consteval import Obj
        for nn in sorted(tab):
            for k in sorted(tab[nn]):
                col = Obj(); col.attrs['num_nodes'] = nn
                try:
                    v = bool(Interp({'col': col, 'nrefined': k[0], 'irange': k[1], 'nn': nn}).expr(cnode.test))
                except AnalysisError as e:
                    run.unknown('mulgrid.refine :: centre node for [%d][%r]' % (nn, k), str(e), where=fi.where(cnode)); continue
                uses = any('c' in p for p in tab[nn][k])
                kk = 'mulgrid.refine :: centre node for [%d][%r]' % (nn, k)
                if v == uses: run.ok(kk, {'created': v})
                elif uses: run.violated(kk, "entry uses the centre node 'c' but the creation condition `%s` is false for it (KeyError)" % norm(cnode.test), where=fi.where(cnode))
                else: run.violated(kk, "a centre node is created (`%s`) for an entry that does not use it: an orphan node is left in the geometry" % norm(cnode.test), where=fi.where(cnode))
    # mid node position
    cm = prog.nested(fi, 'create_mid_node')
    check_formula(run, 'mulgrid.refine :: mid node at the midpoint of its side', cm, 'midpos',
                  '0.5 * (node1.pos + node2.pos)', 'mid-side node is not at the midpoint of its side')


def rule_decomp_dispatch(run):
    run.rule('DECOMP', 'decompose_column: for every cyclic placement of non-adjacent straight nodes, the start node the '
             'code selects makes the literal tiling valid: no piece is three consecutive vertices around a straight node '
             '(zero area), exhaustive over the finite placement space', floor=15)
    from ..consteval import Obj
    from ..formula import check_return
    prog = run.prog
    dc = prog.func('mulgrids.mulgrid.decompose_column')
    # the index helpers the dispatch uses are what the model below assumes
    im = prog.func('mulgrids.column.index_minus')
    idst = prog.func('mulgrids.column.index_dist')
    # decided by interpreting each helper's own body over every (index, offset) pair of every column size the dispatch handles
    ip = prog.func('mulgrids.column.index_plus')
    model = {'index_minus': lambda i, d, n: (i - d) % n, 'index_plus': lambda i, d, n: (i + d) % n,
             'index_dist': lambda a, b, n: min(abs(a - b), n - abs(a - b))}
    for hname, hfi, what in (('index_minus', im, '(i - d) mod n'), ('index_plus', ip, '(i + d) mod n'), ('index_dist', idst, 'cyclic distance')):
        hk = 'column.%s :: %s for every index and offset of 3..9-sided columns' % (hname, what)
        bad = None
        try:
            for n_ in range(3, 10):
                selfo = Obj(); selfo.attrs['num_nodes'] = n_
                for a_ in range(n_):
                    for b_ in range(n_ + 1 if hname != 'index_dist' else n_):
                        got = Interp({'abs': abs, 'min': min, 'max': max}).call_function(hfi.node, [selfo, a_, b_])
                        if got != model[hname](a_, b_, n_) and bad is None: bad = (n_, a_, b_, got, model[hname](a_, b_, n_))
            if bad is None: run.ok(hk, where=hfi.where())
            else:
                run.violated(hk, 'for a %d-sided column %s(%d, %d) gives %r, not %r: decompose_column starts its tiling table at the wrong node '
                             'and produces a zero-area triangle with a hanging mid-side node' % (bad[0], hname, bad[1], bad[2], bad[3], bad[4]),
                             where=hfi.where(), robust=True)
        except AnalysisError as e:
            run.unknown(hk, 'helper left the constant-evaluation whitelist: %s' % e, where=hfi.where())
    # find the branch of each (nn, ns) case
    branches = {}

    def collect(stmts):
        for st in stmts:
            if isinstance(st, ast.If):
                t = st.test
                if isinstance(t, ast.Compare) and norm(t.left) == '(nn, ns)' and isinstance(t.comparators[0], ast.Tuple):
                    branches[tuple(e.value for e in t.comparators[0].elts)] = st.body
                collect(st.body); collect(st.orelse)
    collect(dc.node.body)
    ntot = 0
    for (nn, ns), body in sorted(branches.items()):
        for straight in itertools.combinations(range(nn), ns):
            if any(((b - a) % nn == 1) or ((a - b) % nn == 1) for a in straight for b in straight if a != b):
                continue          # straight nodes are mid-side nodes of refined neighbours: never adjacent
            ntot += 1
            key = 'mulgrid.decompose_column :: (%d,%d) straight=%s' % (nn, ns, list(straight))
            col = Obj()
            col.attrs['__methods__'] = {
                'index_minus': lambda i, d, nn=nn: (i - d) % nn,
                'index_plus': lambda i, d, nn=nn: (i + d) % nn,
                'index_dist': lambda a, b, nn=nn: min(abs(a - b), nn - abs(a - b)),
            }
            captured = {}
            me = Obj()
            me.attrs['__methods__'] = {
                'subdivide_column': lambda name, i0, pieces, *a, **k: captured.update(i0=i0, pieces=pieces) or ['x'],
                'triangulate_column': lambda *a, **k: captured.update(i0=0, pieces=[(i, (i + 1) % nn, 'c') for i in range(nn)]) or ['x'],
            }
            env = {'self': me, 'col': col, 'straight': list(straight), 'nn': nn, 'ns': ns, 'column_name': 'x', 'chars': 'a', 'spaces': True}
            try:
                it = Interp(env)
                try:
                    it.block(body)
                except Exception as e:
                    if type(e).__name__ != '_Return': raise
            except AnalysisError as e:
                run.unknown(key, 'dispatch left the constant-evaluation whitelist: %s' % e, where=dc.where()); continue
            if 'pieces' not in captured:
                run.unknown(key, 'no subdivision selected', where=dc.where()); continue
            i0, pieces = captured['i0'], [tuple(p) for p in captured['pieces']]
            ok, msg, _ = tile_check(nn, pieces)
            if not ok:
                run.unknown(key, 'selected pieces are not a tiling (reported by TILE)', where=dc.where()); continue
            bad = None
            for p in pieces:
                g = [((i0 + v) % nn) if isinstance(v, int) else v for v in p]
                ints = [v for v in g if isinstance(v, int)]
                if len(g) == 3 and len(ints) == 3:
                    # consecutive run a, a+1, a+2 whose middle vertex is straight: collinear -> zero area
                    for k in range(3):
                        a, b, c = ints[k], ints[(k + 1) % 3], ints[(k + 2) % 3]
                        if (b - a) % nn == 1 and (c - b) % nn == 1 and b in straight: bad = (p, g)
                # a piece all of whose vertices lie on one straight run is degenerate too
                if len(ints) == len(g) and len(g) >= 3:
                    s_ = sorted(ints)
                    run_ok = all((s_[(k + 1) % len(s_)] - s_[k]) % nn == 1 for k in range(len(s_) - 1))
                    if run_ok and all(v in straight for v in s_[1:-1]) and len(s_) == 3 and s_[1] in straight: bad = (p, g)
            if bad:
                run.violated(key, 'with these straight nodes the subdivision starts at node %d and piece %r becomes vertices %s: three '
                             'consecutive nodes around a straight one - a zero-area column, and its neighbour gets a hanging node'
                             % (i0, bad[0], bad[1]), where=dc.where())
            else:
                run.ok(key, {'start': i0, 'pieces': len(pieces)})
    run.count('decompose_placements', ntot)
    run.assume('straight nodes of a column to decompose are never cyclically adjacent (they are mid-side nodes left by refined neighbours)')


def rule_cover(run):
    run.rule('COVER', 'refine(): every column that touches a side receiving a mid-side node is rebuilt - the set of rebuilt '
             'columns is the union of the selected columns, the edge columns to bisect and the columns of all refined connections', floor=1)
    prog = run.prog
    fi = prog.func('mulgrids.mulgrid.refine')
    key = 'mulgrid.refine :: rebuilt columns cover columns, bisect_edge_columns and refined connections'
    asg = [n for n in walk_no_nested(fi.node) if isinstance(n, ast.Assign) and norm(n.targets[0]) == 'columns_plus_edge']
    loops = [n for n in walk_no_nested(fi.node) if isinstance(n, ast.For) and norm(n.iter) == 'columns_plus_edge']
    if not asg or not loops:
        run.unknown(key, 'columns_plus_edge not found', where=fi.where()); return

    def operands(e):
        if isinstance(e, ast.BinOp) and isinstance(e.op, ast.BitOr): return operands(e.left) + operands(e.right)
        return [norm(e)]
    ops = set()
    for a in asg: ops |= set(operands(a.value))
    need = {'set(columns)': 'the selected columns', 'set(bisect_edge_columns)': 'the edge columns to bisect',
            'set(con.column)': 'the columns of refined connections'}
    missing = [why for k, why in need.items() if k not in ops]
    if missing:
        run.violated(key, '%s are not added to the set of rebuilt columns: such a column keeps its old nodes while its neighbour is rebuilt '
                     'around a new mid-side node (hanging node, and the old connection is deleted without replacement)' % ' and '.join(missing),
                     where=fi.where(asg[0]))
    else: run.ok(key, sorted(ops), where=fi.where(asg[0]))
    # connections added to the refined set *after* the rebuilt set was closed over the connections' columns must join
    # rebuilt columns only: the guard has to imply con.column <= (an operand of the rebuilt set)
    closure = [n for n in walk_no_nested(fi.node) if isinstance(n, ast.For) and
               any(isinstance(x, ast.Assign) and norm(x.targets[0]) == 'columns_plus_edge' for x in ast.walk(n))]
    after = closure[-1].lineno if closure else asg[-1].lineno
    rebuilt_ops = set(['columns_plus_edge'])
    for o in ops:
        if o.startswith('set(') and o.endswith(')'): rebuilt_ops.add(o[4:-1])
    from ..core import parent_map
    pm = parent_map(fi.node)
    refined_set = None
    for n in walk_no_nested(fi.node):       # the set the mid-side-node loop iterates
        if isinstance(n, ast.For) and any(isinstance(c, ast.Call) and call_name(c) == 'create_mid_node' and
                                          any('.node[0]' in norm(a_) for a_ in c.args) for c in ast.walk(n)):
            refined_set = norm(n.iter)
    late = [c for c in ast.walk(fi.node) if isinstance(c, ast.Call) and call_name(c) == 'add' and refined_set and
            norm(c.func.value) == refined_set and c.lineno > after]

    def membership(test, convar):
        """'pos' if the test implies every column of the connection is in a rebuilt operand, 'neg' if it only excludes sets, else None"""
        t = test
        if isinstance(t, ast.BoolOp) and isinstance(t.op, ast.And):
            r = [membership(v, convar) for v in t.values]
            return 'pos' if 'pos' in r else ('neg' if r and all(x == 'neg' for x in r) else None)
        neg = False
        if isinstance(t, ast.UnaryOp) and isinstance(t.op, ast.Not): neg, t = True, t.operand
        if isinstance(t, ast.Call) and isinstance(t.func, ast.Name) and t.func.id in ('all', 'any') and t.args and \
           isinstance(t.args[0], (ast.ListComp, ast.GeneratorExp)):
            lc = t.args[0]
            g = lc.generators[0]
            if norm(g.iter) == '%s.column' % convar and isinstance(g.target, ast.Name) and isinstance(lc.elt, ast.Compare) and \
               len(lc.elt.ops) == 1 and isinstance(lc.elt.left, ast.Name) and lc.elt.left.id == g.target.id:
                inn = isinstance(lc.elt.ops[0], ast.In); notin = isinstance(lc.elt.ops[0], ast.NotIn)
                S = norm(lc.elt.comparators[0])
                if t.func.id == 'all' and inn and not neg and S in rebuilt_ops: return 'pos'
                if (t.func.id == 'any' and inn and neg) or (t.func.id == 'all' and notin and not neg): return 'neg'
        if isinstance(t, ast.Compare) and len(t.ops) == 1 and isinstance(t.ops[0], ast.LtE) and not neg and \
           norm(t.left) == 'set(%s.column)' % convar and norm(t.comparators[0]).replace('set(', '').rstrip(')') in rebuilt_ops: return 'pos'
        return None
    for c in late:
        k2 = 'mulgrid.refine :: connections refined after the rebuilt set is fixed join rebuilt columns only'
        convar = norm(c.args[0]) if c.args else None
        guard, cur = None, c
        while cur in pm:
            par = pm[cur]
            if isinstance(par, ast.If) and cur in par.body: guard = par; break
            cur = par
        if guard is None or convar is None:
            run.violated(k2, '`%s` adds a connection to the set that receives mid-side nodes without any condition on its columns: a column '
                         'outside the rebuilt set is left with a hanging node' % norm(c), where=fi.where(c)); continue
        m = membership(guard.test, convar)
        if m == 'pos': run.ok(k2, norm(guard.test), where=fi.where(guard))
        elif m == 'neg':
            run.violated(k2, 'the guard `%s` only excludes columns; it does not require both columns of the connection to be among the rebuilt '
                         'ones (%s), so a side shared with a column that is not rebuilt gets a mid-side node: that column is left with a '
                         'node in the interior of its edge' % (norm(guard.test), sorted(rebuilt_ops)), where=fi.where(guard))
        else:
            # `all([<test that does not mention x> for x in con.column])`: the same thing is tested for every column of the connection,
            # so nothing is required of the connection's own columns
            const = None
            for t_ in ast.walk(guard.test):
                if isinstance(t_, ast.Call) and isinstance(t_.func, ast.Name) and t_.func.id in ('all', 'any') and t_.args and isinstance(t_.args[0], (ast.ListComp, ast.GeneratorExp)):
                    g_ = t_.args[0].generators[0]
                    if norm(g_.iter) == '%s.column' % convar and isinstance(g_.target, ast.Name) and \
                       not any(isinstance(x, ast.Name) and x.id == g_.target.id for x in ast.walk(t_.args[0].elt)):
                        const = t_
            if const is not None:
                run.violated(k2, 'in the guard `%s` the condition does not mention the loop variable `%s`: it does not depend on the columns of the '
                             'connection at all, so sides shared with columns that are not rebuilt get mid-side nodes too (hanging nodes)'
                             % (norm(const)[:90], const.args[0].generators[0].target.id), where=fi.where(guard), robust=True)
            else: run.unknown(k2, 'guard `%s` not recognised' % norm(guard.test), where=fi.where(guard))


def rule_areasync(run):
    run.rule('AREASYNC', "a function that edits a column's node list recomputes that column's cached area (and centre)", floor=1)
    prog = run.prog
    n = 0
    for fi in prog.all_functions(['mulgrids']):
        edits = []
        for x in walk_no_nested(fi.node):
            if isinstance(x, ast.Delete):
                for t in x.targets:
                    if isinstance(t, ast.Subscript) and isinstance(t.value, ast.Attribute) and t.value.attr == 'node' and dotted(t.value.value) != 'self':
                        edits.append((norm(t.value.value), x))
            if isinstance(x, ast.Call) and call_name(x) in ('append', 'insert', 'remove', 'pop') and isinstance(x.func.value, ast.Attribute) \
               and x.func.value.attr == 'node' and isinstance(x.func.value.value, ast.Name) and x.func.value.value.id not in ('self', 'con', 'geocon'):
                edits.append((norm(x.func.value.value), x))
        for owner, node in edits:
            n += 1
            key = '%s :: %s.node edited' % (fi.short, owner)
            area = any((isinstance(c, ast.Call) and call_name(c) == 'get_area' and norm(c.func.value) == owner) for c in walk_no_nested(fi.node)) or \
                any(isinstance(a, ast.Assign) and norm(a.targets[0]) == owner + '.area' for a in walk_no_nested(fi.node))
            if area: run.ok(key, where=fi.where(node))
            else:
                run.violated(key, 'the node list of %s changes but %s.area keeps the value computed for the old polygon: the geometry\'s total '
                             'area (and every block volume of that column) is wrong afterwards' % (owner, owner), where=fi.where(node))
    if n == 0: run.unknown('AREASYNC :: sites', 'no edit of a column node list found (split_column is expected to have one)')


def rule_inherit(run):
    run.rule('INHERIT', 'every column constructed by refine / subdivide_column / split_column gets the parent '
             "column's surface", floor=3)
    prog = run.prog
    for m in ('refine', 'subdivide_column', 'split_column'):
        fi = prog.func('mulgrids.mulgrid.' + m)
        cs = [c for c in walk_no_nested(fi.node) if isinstance(c, ast.Call) and isinstance(c.func, ast.Name) and c.func.id == 'column']
        if not cs: raise AnalysisError('no column(...) construction in %s' % m)
        for i, c in enumerate(cs):
            kw = dict((k.arg, k.value) for k in c.keywords)
            s = kw.get('surface')
            if s is None and len(c.args) >= 4: s = c.args[3]
            key = 'mulgrid.%s :: column() #%d surface' % (m, i)
            # through the locals it may be held in; the parent is a column the function was given or is looping over
            rs = roles.inline_locals(s, fi.node.body) if s is not None else None
            loopvars = set(l.target.id for l in ast.walk(fi.node) if isinstance(l, ast.For) and isinstance(l.target, ast.Name))
            given = set(fi.params) | loopvars | set(nm for nm, v, st in roles.assignments(fi.node) if isinstance(v, ast.Subscript) and norm(v.value) == 'self.column')
            if rs is not None and isinstance(rs, ast.Attribute) and rs.attr == 'surface' and \
               ((isinstance(rs.value, ast.Name) and rs.value.id in given) or (isinstance(rs.value, ast.Subscript) and norm(rs.value.value) == 'self.column')):
                run.ok(key, norm(rs), where=fi.where(c))
            elif rs is None or isinstance(rs, ast.Constant) or (isinstance(rs, ast.Attribute) and rs.attr != 'surface') or isinstance(rs, ast.BoolOp) \
                    or norm(s) == norm(rs):
                run.violated(key, 'new column is built with surface=%s instead of the parent\'s surface: volume above the '
                             'default surface is lost or invented' % (norm(s) if s is not None else 'None (default)'),
                             where=fi.where(c))
            else: run.unknown(key, 'surface argument `%s`' % norm(rs), where=fi.where(c))


def rule_part(run):
    run.rule('PART', 'refine_layers replaces thickness t by [t/factor]*factor, leaves others, keeps top elevation '
             'and atmosphere layer name; add_layers stacks thicknesses downwards', floor=5)
    prog = run.prog
    fi = prog.func('mulgrids.mulgrid.refine_layers')
    txt = norm(fi.node)
    loop = None
    for n in walk_no_nested(fi.node):
        if isinstance(n, ast.For) and norm(n.iter) == 'self.layerlist[1:]' and isinstance(n.target, ast.Name):
            loop = n
    key = 'mulgrid.refine_layers :: thickness partition'
    if loop is None or len(loop.body) != 1 or not isinstance(loop.body[0], ast.If):
        run.unknown(key, 'loop over self.layerlist[1:] with a selected/unselected branch not found', where=fi.where())
    else:
        lay = loop.target.id
        br = loop.body[0]
        sel, uns = br.body, br.orelse
        if norm(br.test) == '%s not in layers' % lay: sel, uns = uns, sel
        good = None
        if len(sel) == 1 and isinstance(sel[0], ast.AugAssign) and isinstance(sel[0].op, ast.Add) and \
           isinstance(sel[0].value, ast.BinOp) and isinstance(sel[0].value.op, ast.Mult):
            v = sel[0].value
            lst, mult = (v.left, v.right) if isinstance(v.left, ast.List) else (v.right, v.left)
            if isinstance(lst, ast.List) and len(lst.elts) == 1 and isinstance(mult, ast.Name):
                r = compare(lst.elts[0], '%s.thickness / %s' % (lay, mult.id))
                good = {'equal': True, 'different': False}.get(r)
            elif isinstance(lst, ast.List) and len(lst.elts) == 1 and isinstance(lst.elts[0], ast.BinOp) and \
                    isinstance(lst.elts[0].op, ast.Div) and isinstance(lst.elts[0].right, ast.Name):
                # [t / f] * M with M an expression: the pieces sum to t only if M == f
                d = lst.elts[0].right.id
                r = compare(mult, d)
                good = {'equal': True, 'different': False}.get(r)
        if good is None: run.unknown(key, 'selected-layer branch not recognised: %s' % norm(br), where=fi.where(br))
        elif good: run.ok(key, where=fi.where(br))
        else: run.violated(key, 'a refined layer of thickness t is replaced by `%s`, whose sum is not t: rock volume changes'
                           % norm(sel[0].value), where=fi.where(br))
        key2 = 'mulgrid.refine_layers :: unselected layers keep their thickness'
        if len(uns) == 1 and isinstance(uns[0], ast.Expr) and isinstance(uns[0].value, ast.Call) and call_name(uns[0].value) == 'append':
            check_formula(run, key2, fi, None, '%s.thickness' % lay, 'an unrefined layer does not keep its thickness',
                          node=uns[0].value.args[0])
        else: run.unknown(key2, 'branch not recognised', where=fi.where(br))
    # the rebuilt stack starts from the old top elevation: second argument of the add_layers() call, through the locals it is held in
    kt = 'mulgrid.refine_layers :: top elevation preserved'
    al = [c for c in walk_no_nested(fi.node) if isinstance(c, ast.Call) and call_name(c) == 'add_layers' and isinstance(c.func, ast.Attribute)
          and norm(c.func.value) == 'self' and len(c.args) >= 2]
    run.shape(len(al) == 1, 'mulgrid.refine_layers :: rebuilt by add_layers(thicknesses, top_elevation)', 'call not recognised', where=fi.where())
    if len(al) == 1:
        top = roles.inline_locals(al[0].args[1], [st for st in fi.node.body])
        r = compare(top, 'self.layerlist[0].top', ['self.layerlist[0].bottom'])      # (equal for the first layer: identify_layer_tops)
        if r == 'equal': run.ok(kt, norm(top), where=fi.where(al[0]))
        elif isinstance(top, ast.Attribute) and norm(top.value) == 'self.layerlist[0]':
            run.violated(kt, 'the layers are rebuilt downwards from `%s`, not from the top of the layer structure (the first layer\'s top = bottom): in a '
                         'geometry whose first layer has a centre different from its bottom (legal in the file format) the whole stack shifts while the '
                         'column surfaces stay, so the rock volume changes' % norm(top), where=fi.where(al[0]), robust=True)
        elif r == 'different': run.violated(kt, 'layers are rebuilt from `%s`' % norm(top), where=fi.where(al[0]))
        else: run.unknown(kt, 'top elevation `%s`' % norm(top), where=fi.where(al[0]))
    # the old atmosphere layer name is read before the layers are cleared and either handed to add_layers as the surface
    # layer name or restored by rename_layer afterwards (role of the variable: assigned self.layerlist[0].name)
    saved = [nm for nm, v, st in roles.assignments(fi.node) if norm(v) == 'self.layerlist[0].name']
    calls_ = [c for c in walk_no_nested(fi.node) if isinstance(c, ast.Call) and call_name(c) in ('add_layers', 'rename_layer')]
    kept = any(any(isinstance(a, ast.Name) and a.id in saved for a in list(c.args) + [k.value for k in c.keywords]) for c in calls_)
    run.shape(bool(saved) and kept, 'mulgrid.refine_layers :: atmosphere layer name preserved', 'idiom not recognised', where=fi.where())
    al = prog.func('mulgrids.mulgrid.add_layers')
    check_formula(run, 'mulgrid.add_layers :: centre is mid-layer', al, 'centre', 'z + 0.5 * thickness',
                  'layer centre is not bottom + thickness/2')
    loop = [n for n in walk_no_nested(al.node) if isinstance(n, ast.For) and norm(n.iter) == 'thicknesses']
    if len(loop) == 1 and isinstance(loop[0].body[0], ast.AugAssign) and norm(loop[0].body[0].target) == 'z':
        st = loop[0].body[0]
        good = isinstance(st.op, ast.Sub) and norm(st.value) == norm(loop[0].target)
        run.check(good, 'mulgrid.add_layers :: bottoms are top - cumsum(thickness)',
                  'elevation is updated by `%s`' % norm(st), where=al.where(st))
    else:
        run.unknown('mulgrid.add_layers :: bottoms are top - cumsum(thickness)', 'loop not recognised', where=al.where())
    lc = [c for c in walk_no_nested(al.node) if isinstance(c, ast.Call) and isinstance(c.func, ast.Name) and c.func.id == 'layer']
    run.shape(sorted(norm(c) for c in lc) == ['layer(name, z, centre)', 'layer(surfacelayername, z, z)'],
              'mulgrid.add_layers :: layer(name, bottom=z, centre)', 'layer constructions are %s' % [norm(c) for c in lc], where=al.where())
    lt = prog.func('mulgrids.mulgrid.identify_layer_tops')
    from .laytops import laytops_rule
    laytops_rule(run, lt)
    th = prog.func('mulgrids.layer.get_thickness')
    cen_ = [x for x in ast.walk(th.node) if isinstance(x, ast.Attribute) and x.attr == 'centre']
    if cen_:
        # the layer record stores bottom and centre independently (a centre need not be at mid-height); only top and bottom
        # tile the column, so a thickness that reads the centre does not sum to the model height
        run.violated('layer.thickness :: top - bottom', 'the thickness is computed from the layer centre (`%s`): centre and bottom are independent '
                     'fields of the layer record, and refine_layers() lays the new stack out from these thicknesses, so the model bottom '
                     'moves and volume is not conserved for a layer whose centre is off mid-height'
                     % norm([r for r in ast.walk(th.node) if isinstance(r, ast.Return)][0].value), where=th.where(cen_[0]))
    else:
        check_return(run, 'layer.thickness :: top - bottom', th, 'self.top - self.bottom', 'thickness is not top - bottom')


def _affine(e, var, modnames):
    """index expression -> integer offset c such that e == var + c (optionally `% n`), else None"""
    if isinstance(e, ast.BinOp) and isinstance(e.op, ast.Mod) and (norm(e.right) in modnames):
        return _affine(e.left, var, modnames)
    if isinstance(e, ast.Name) and e.id == var: return 0
    if isinstance(e, ast.BinOp) and isinstance(e.op, (ast.Add, ast.Sub)):
        l, r = e.left, e.right
        if isinstance(r, ast.Constant) and isinstance(r.value, int):
            a = _affine(l, var, modnames)
            if a is not None: return a + (r.value if isinstance(e.op, ast.Add) else -r.value)
        if isinstance(l, ast.Constant) and isinstance(l.value, int) and isinstance(e.op, ast.Add):
            a = _affine(r, var, modnames)
            if a is not None: return a + l.value
    return None


def rule_angle_index(run):
    run.rule('ANGIDX', 'column.exterior_angles[k] is the angle at node k (decompose_column uses the position of a straight angle as '
             'the node to start its tiling from): with side[j] running node[j+a0] -> node[j+a1] and angle[k] formed from '
             'heading[k+b1] - heading[k+b0], the incoming side must end and the outgoing side must start at node k, '
             'i.e. b0 + a1 = 0 and b1 + a0 = 0 (indices modulo the node count)', floor=1)
    fi = run.prog.func('mulgrids.column.get_exterior_angles')
    key = 'column.get_exterior_angles :: angle k sits at node k'
    # n (node count) may be self.num_nodes or a local alias of it
    nn = set(['self.num_nodes', 'len(self.node)'])
    for st in walk_no_nested(fi.node):
        if isinstance(st, ast.Assign) and isinstance(st.targets[0], ast.Name) and norm(st.value) in nn: nn.add(st.targets[0].id)
    lists = {}      # name -> ('side', a1, a0) | ('map', src) | ('angle', src, b1, b0)
    order = []
    for st in fi.node.body:
        if not (isinstance(st, ast.Assign) and isinstance(st.targets[0], ast.Name) and isinstance(st.value, ast.ListComp)): continue
        name, lc = st.targets[0].id, st.value
        g = lc.generators[0]
        if len(lc.generators) != 1 or g.ifs: continue
        ent = None
        if isinstance(g.target, ast.Name) and isinstance(g.iter, ast.Call) and call_name(g.iter) == 'range' and \
           len(g.iter.args) == 1 and norm(g.iter.args[0]) in nn:
            v = g.target.id
            subs = [x for x in ast.walk(lc.elt) if isinstance(x, ast.Subscript)]
            nodes = [x for x in subs if is_self_attr(x.value, 'node')]
            if isinstance(lc.elt, ast.BinOp) and isinstance(lc.elt.op, ast.Sub) and len(nodes) == 2:
                # self.node[i1].pos - self.node[i0].pos
                def idx(side_expr):
                    ss = [x for x in ast.walk(side_expr) if isinstance(x, ast.Subscript) and is_self_attr(x.value, 'node')]
                    return _affine(ss[0].slice, v, nn) if len(ss) == 1 else None
                a1, a0 = idx(lc.elt.left), idx(lc.elt.right)
                if a1 is not None and a0 is not None: ent = ('side', a1, a0)
            else:
                hs = [x for x in subs if isinstance(x.value, ast.Name) and x.value.id in lists]
                diffs = [x for x in ast.walk(lc.elt) if isinstance(x, ast.BinOp) and isinstance(x.op, ast.Sub) and
                         isinstance(x.left, ast.Subscript) and isinstance(x.right, ast.Subscript) and x.left in hs and x.right in hs]
                if len(diffs) == 1 and len(hs) == 2 and diffs[0].left.value.id == diffs[0].right.value.id:
                    b1, b0 = _affine(diffs[0].left.slice, v, nn), _affine(diffs[0].right.slice, v, nn)
                    if b1 is not None and b0 is not None: ent = ('angle', diffs[0].left.value.id, b1, b0)
        elif isinstance(g.target, ast.Name) and isinstance(g.iter, ast.Name) and g.iter.id in lists:
            # element-wise map keeps the index
            others = [x for x in ast.walk(lc.elt) if isinstance(x, ast.Name) and x.id in lists]
            if not others: ent = ('map', g.iter.id)
        if ent: lists[name] = ent; order.append((name, ent))
    ret = [r for r in walk_no_nested(fi.node) if isinstance(r, ast.Return)]
    if len(ret) == 1 and isinstance(ret[0].value, ast.ListComp) and len(ret[0].value.generators) == 1 and \
       isinstance(ret[0].value.generators[0].iter, ast.Name) and ret[0].value.generators[0].iter.id in lists and \
       not [x for x in ast.walk(ret[0].value.elt) if isinstance(x, ast.Name) and x.id in lists]:
        # `return [f(a) for a in angles]`: an element-wise map keeps the index
        ret[0] = ast.copy_location(ast.Return(value=ast.Name(id=ret[0].value.generators[0].iter.id, ctx=ast.Load())), ret[0])
    if len(ret) != 1 or not isinstance(ret[0].value, ast.Name) or ret[0].value.id not in lists:
        run.unknown(key, 'returned list not recognised (%s)' % sorted(lists), where=fi.where()); return

    def resolve(name):
        e = lists[name]
        # a name may be rebound (angles = [a % 2pi for a in angles]): walk the chain of definitions backwards
        chain = [x for x in order if x[0] == name]
        return chain
    # fold definitions in order
    env = {}
    for name, ent in order:
        if ent[0] == 'side': env[name] = ('side', ent[1], ent[2])
        elif ent[0] == 'map' and ent[1] in env: env[name] = env[ent[1]]
        elif ent[0] == 'angle' and ent[1] in env and env[ent[1]][0] == 'side':
            _, a1, a0 = env[ent[1]]
            env[name] = ('angle', ent[2] + a1, ent[3] + a0, ent[2], ent[3], a1, a0)      # outgoing side index b1: ends...; see below
    r = env.get(ret[0].value.id)
    if not r or r[0] != 'angle':
        run.unknown(key, 'chain side -> heading -> angle not recognised', where=fi.where()); return
    _, _x, _y, b1, b0, a1, a0 = r
    # side j runs node[j+a0] -> node[j+a1]; incoming side (index k+b0) ends at node k+b0+a1; outgoing (k+b1) starts at node k+b1+a0
    if a1 - a0 != 1:
        run.unknown(key, 'sides do not join consecutive nodes (offsets %d, %d)' % (a1, a0), where=fi.where()); return
    if b1 - b0 != 1:
        run.violated(key, 'the angle is formed from headings %d apart, not from two consecutive sides' % (b1 - b0), where=fi.where(ret[0])); return
    vin, vout = b0 + a1, b1 + a0
    if vin == 0 and vout == 0:
        run.ok(key, {'side': 'node[j%+d] -> node[j%+d]' % (a0, a1), 'angle': 'heading[k%+d] - heading[k%+d]' % (b1, b0)}, where=fi.where())
    else:
        run.violated(key, 'side j runs node[j%+d] -> node[j%+d] and angle k uses headings k%+d and k%+d, so angle k is the angle at node k%+d, '
                     'not at node k: decompose_column starts its special-case tilings from the index of a straight angle and now starts '
                     'one node off (zero-area triangle, hanging node)' % (a0, a1, b1, b0, vin), where=fi.where(ret[0]))


def rule_nonetest(run):
    run.rule('NONETEST', 'in the functions that create columns from other columns, an optional number (a column surface: None means "the '
             'default") is never tested by truthiness - a surface of exactly 0 would be replaced', floor=1)
    from .optnum import optnum_rule
    names = ('refine', 'subdivide_column', 'split_column', 'decompose_column', 'decompose_columns', 'triangulate_column', 'refine_layers',
             'fit_surface', 'fit_columns')
    optnum_rule(run, ['mulgrids'], only=lambda fi: fi.name in names)


def check(run):
    run.guarded('NONETEST', rule_nonetest)
    run.guarded('ANGIDX', rule_angle_index)
    # split_column picks the connections to hand over from the neighbour sets left by earlier edits: a one-sided set there
    # leaves a connection between two columns that no longer share an edge
    from .c10 import rule_nbrsym
    run.guarded('NBRSYM', lambda r: rule_nbrsym(r, only=('split_column', 'add_connection', 'delete_connection'), floor=1))
    run.guarded('TILE', rule_tile)
    run.guarded('DISPATCH', rule_dispatch)
    run.guarded('DECOMP', rule_decomp_dispatch)
    run.guarded('COVER', rule_cover)
    run.guarded('AREASYNC', rule_areasync)
    run.guarded('INHERIT', rule_inherit)
    run.guarded('PART', rule_part)
