"""C08 - t2grid consistency.  Rules PAIR (+BACKREF), REKEY, NAMEKEY."""
import ast
from ..core import AnalysisError, norm, dotted, call_name, walk_no_nested, is_self_attr
from ..containers import PairAnalysis, PAIRS, rekey_sites
from .. import roles

LEVEL = 'other'
EXPLANATION = (
    "Container discipline decided per function, for every function of t2grids.py, t2data.py and "
    "t2incons.py: (PAIR) any function that changes the membership of a by-name dictionary of t2grid / "
    "t2data / t2incon (store, del, pop, clear, re-binding) changes the partner list on every path to a "
    "normal exit, and vice versa; connection membership changes also update the blocks' connection_name "
    "back-references (BACKREF). Receivers are typed (self, self.grid, locals built by an owner "
    "constructor), so element attributes that share a name (con.block, blk.rocktype) are not confused with "
    "containers; helpers are summarised, so moving the partner update into a helper is accepted. Since the "
    "invariant holds initially and every mutator preserves it on all paths, it holds after any edit "
    "sequence. (REKEY) no loop both deletes D[k] and inserts D[f(k)] into the same long-lived dictionary "
    "with a caller-supplied map - that loses an entry for every map with a cycle (a swap); (NAMEKEY) a "
    "store to an element's .name happens only in a function that re-keys the owning dictionary (and, for "
    "blocks, the connection keys). Caller pre-condition violations are not decided.")

MODS = ['t2grids', 't2data', 't2incons']


def pair_rule(run, mods, owner_classes, floor, only=None):
    run.rule('PAIR', 'a membership change of a by-name dictionary is matched by the same change of its '
             'partner list (and back-references) on every path of the same function, helpers summarised', floor=floor)
    prog = run.prog
    pa = PairAnalysis(prog)
    nfun = set()
    for fi, key, verdict, info in pa.verdicts(prog.all_functions(mods)):
        if key[1] not in owner_classes: continue
        if only is not None and not only(fi, key[1]): continue
        nfun.add(fi.qual)
        d, l, b = PAIRS[key[1]][key[2]]
        k = '%s :: %s.%s/%s' % (fi.short, key[0], d, l)
        if verdict in ('ok', 'helper'):
            run.ok(k, info or verdict, where=fi.where())
        elif verdict == 'inherited':
            run.ok(k, 'imbalance comes from a callee and is reported there', where=fi.where())
        else:
            node = info[0][0]
            msgs = sorted(set(m for _, pl in info for m in pl))
            run.violated(k, '%s (%s.%s / %s.%s): the two views of the same objects disagree after this function'
                         % ('; '.join(msgs), key[0], d, key[0], l),
                         where=fi.where(None if node == 'fall' else node))
    nfun = len(nfun)
    run.count('functions_touching_pairs', nfun)
    run.assume('loops over corresponding collections run at least once together (a zero-iteration path of one loop '
               'only is data dependent and not forked)')


def rule_pair(run):
    # the grid's own containers everywhere; the block-keyed dictionaries of t2data only where blocks are renamed
    pair_rule(run, MODS, set(['t2grid', 't2data']), floor=30,
              only=lambda fi, owner: owner == 't2grid' or fi.name == 'rename_blocks')


REKEY_ANCHORS = ['t2grids.t2grid.rename_blocks', 't2grids.t2grid.reorder', 't2grids.t2grid.rename_rocktype',
                 't2data.t2data.rename_blocks']


def rule_rekey(run, mods=None, anchors=None):
    anchors = anchors or REKEY_ANCHORS
    run.rule('REKEY', 'no loop deletes D[k] and inserts D[f(k)] in the same long-lived dictionary unless the new '
             'key was tested absent: sequential in-place re-keying loses an entry for any map with a cycle',
             floor=len(anchors))
    from ..containers import rekey_fixture_ok
    prog = run.prog
    ok, found = rekey_fixture_ok()
    run.shape(ok, 'fixture :: rekey_fixture.py', 'positive control failed: rule reported %s on the fixture' % found)
    for q in anchors: prog.func(q)         # anchors must exist
    anchor_short = dict((prog.func(q).short, prog.func(q)) for q in anchors)
    reported = set()
    for fi, loop, d, dels, ins, guarded in rekey_sites(prog.all_functions(mods or MODS)):
        key = '%s :: %s' % (fi.short, d)
        reported.add(fi.short)
        if guarded:
            run.ok(key, 'insert happens only where the new key was tested absent', where=fi.where(loop))
        else:
            run.violated(key, 'the loop at line %d deletes entries of %s and inserts them under new keys one at a '
                         'time; for a caller-supplied map with overlapping sources and targets (a swap a<->b) the '
                         'first insert overwrites the not-yet-moved entry and its later delete removes the moved one'
                         % (loop.lineno, d), where=fi.where(ins[0][0]))
    for short, fi in sorted(anchor_short.items()):
        if short not in reported:
            run.ok('%s :: no in-place re-key loop' % short, where=fi.where())


# element kind -> (owner container list attr(s), dictionaries that must be re-keyed)
NAME_OWNERS = {
    't2grid': {'blocklist': ('block', ['block', 'connection']), 'block': ('block', ['block', 'connection']),
               'rocktypelist': ('rocktype', ['rocktype']), 'rocktype': ('rocktype', ['rocktype'])},
    'mulgrid': {'columnlist': ('column', ['column', 'connection']), 'column': ('column', ['column', 'connection']),
                'layerlist': ('layer', ['layer']), 'layer': ('layer', ['layer']),
                'nodelist': ('node', ['node']), 'node': ('node', ['node']),
                'welllist': ('well', ['well']), 'well': ('well', ['well'])},
}


def namekey_rule(run, modname, clsname, floor):
    run.rule('NAMEKEY', 'a store to the .name of an element of a by-name container happens only in a function '
             'that re-keys the owning dictionary (and the connection keys built from that name)', floor=floor)
    prog = run.prog
    cls = prog.cls(modname, clsname)
    table = NAME_OWNERS[clsname]
    for mname, fi in sorted(cls.methods.items()):
        # element variables: loop variables over self.<list>, values read from self.<dict>[...] / self.<list>[i]
        origin = {}
        for n in ast.walk(fi.node):
            src = tgt = None
            if isinstance(n, ast.For) and isinstance(n.target, ast.Name): src, tgt = n.iter, n.target.id
            if isinstance(n, ast.Assign) and len(n.targets) == 1 and isinstance(n.targets[0], ast.Name) \
               and isinstance(n.value, ast.Subscript): src, tgt = n.value.value, n.targets[0].id
            if src is not None and isinstance(src, ast.Attribute) and dotted(src.value) == 'self' and src.attr in table:
                origin[tgt] = src.attr
        for n in walk_no_nested(fi.node):
            if not isinstance(n, ast.Assign): continue
            for t in n.targets:
                if not (isinstance(t, ast.Attribute) and t.attr == 'name'): continue
                base = t.value
                attr = None
                if isinstance(base, ast.Name) and base.id in origin: attr = origin[base.id]
                elif isinstance(base, ast.Subscript) and isinstance(base.value, ast.Attribute) and \
                        dotted(base.value.value) == 'self' and base.value.attr in table: attr = base.value.attr
                if attr is None: continue
                kind, need = table[attr]
                # which dictionaries does the function re-key (store / rebinding / pop+store)?
                rekeyed = set()
                for x in ast.walk(fi.node):
                    if isinstance(x, ast.Assign):
                        for tt in x.targets:
                            if isinstance(tt, ast.Subscript) and isinstance(tt.value, ast.Attribute) and \
                               dotted(tt.value.value) == 'self': rekeyed.add(tt.value.attr)
                            if isinstance(tt, ast.Attribute) and dotted(tt.value) == 'self': rekeyed.add(tt.attr)
                            if isinstance(tt, ast.Tuple):
                                for e in tt.elts:
                                    if isinstance(e, ast.Attribute) and dotted(e.value) == 'self': rekeyed.add(e.attr)
                key = '%s.%s :: %s.name' % (clsname, mname, kind)
                missing = [d for d in need if d not in rekeyed]
                if missing:
                    run.violated(key, 'the %s is renamed but self.%s is not re-keyed: lookups by the new name fail '
                                 'and the old key still resolves' % (kind, ', self.'.join(missing)), where=fi.where(n))
                else:
                    run.ok(key, {'rekeyed': sorted(set(need) & rekeyed)}, where=fi.where(n))


def rule_namekey(run):
    namekey_rule(run, 't2grids', 't2grid', floor=2)


def rule_nameuse(run):
    run.rule('NAMEUSE', 'rock types are registered by name (self.rocktype is keyed by rt.name, add_rocktype replaces a same-named entry '
             'while blocks keep the old object): whether a registered rock type is still in use is therefore decided by comparing '
             'names (blk.rocktype.name), never object identity - otherwise deleting an "unused" entry leaves blocks whose rock '
             'type name is no longer registered', floor=1)
    from ..core import parent_map
    prog = run.prog
    cls = prog.cls('t2grids', 't2grid')
    for fi in sorted(cls.methods.values(), key=lambda f: f.name):
        dels = [c for c in ast.walk(fi.node) if isinstance(c, ast.Call) and call_name(c) == 'delete_rocktype' and is_self_attr(c.func)]
        # only deletions decided from usage: inside a loop or under a condition
        if not dels or fi.name == 'delete_rocktype': continue
        if not any(isinstance(n, (ast.For, ast.While, ast.If, ast.ListComp)) for n in ast.walk(fi.node)): continue
        todo, seen, byname, byid = [fi], set(), [], []
        while todo:
            g = todo.pop()
            if g.name in seen: continue
            seen.add(g.name)
            pm = parent_map(g.node)
            for n in ast.walk(g.node):
                if isinstance(n, ast.Attribute) and n.attr == 'rocktype' and not is_self_attr(n):
                    par = pm.get(n)
                    if isinstance(par, ast.Attribute) and par.attr == 'name': byname.append((g, n))
                    elif isinstance(n.ctx, ast.Load): byid.append((g, n))
                if isinstance(n, ast.Call) and is_self_attr(n.func) and n.func.attr in cls.methods and n.func.attr != 'delete_rocktype':
                    todo.append(cls.methods[n.func.attr])
        key = 't2grid.%s :: rock type usage decided by name' % fi.name
        if byid and not byname:
            g, n = byid[0]
            run.violated(key, '`%s` collects the rock type *objects* of the blocks; a registered rock type whose name is used by a block '
                         'holding another object of that name (add_rocktype of an existing name, or grids added together) counts as '
                         'unused and is deleted, leaving blocks with an unregistered rock type' % norm(pm_stmt(g, n)), where=g.where(n))
        elif byname: run.ok(key, {'by name': len(byname), 'by object': len(byid)}, where=fi.where())
        else: run.unknown(key, 'no use of blk.rocktype found in the decision', where=fi.where())


def rule_uniqguard(run):
    run.rule('UNIQGUARD', 'add_block() silently replaces a block of the same name, so a function that creates blocks under generated names '
             'and promises to refuse duplicates must test each new name against the live dictionary self.block (which add_block updates), '
             'not against a snapshot taken before its loop', floor=1)
    from ..core import parent_map
    cls = run.prog.cls('t2grids', 't2grid')
    for fi in sorted(cls.methods.values(), key=lambda f: f.name):
        pm = parent_map(fi.node)
        for n in ast.walk(fi.node):
            if not (isinstance(n, ast.If) and isinstance(n.test, ast.Compare) and len(n.test.ops) == 1 and isinstance(n.test.ops[0], ast.In)
                    and isinstance(n.test.left, ast.Name) and any(isinstance(x, ast.Raise) for x in n.body)): continue
            nm = n.test.left.id
            # the guarded continuation creates a block with that name and adds it
            cont = n.orelse or []
            made = [c for st in cont for c in ast.walk(st) if isinstance(c, ast.Call) and isinstance(c.func, ast.Name) and c.func.id == 't2block'
                    and c.args and isinstance(c.args[0], ast.Name) and c.args[0].id == nm]
            if not made: continue
            D = n.test.comparators[0]
            key = 't2grid.%s :: duplicate test of generated block name `%s`' % (fi.name, nm)
            if is_self_attr(D, 'block'):
                run.ok(key, 'tested against self.block', where=fi.where(n)); continue
            if isinstance(D, ast.Name):
                # a local: acceptable only if it is kept up to date inside the enclosing loop
                loop = n
                while loop in pm and not isinstance(loop, (ast.For, ast.While)): loop = pm[loop]
                upd = [x for x in ast.walk(loop) if (isinstance(x, ast.Subscript) and isinstance(x.ctx, ast.Store) and isinstance(x.value, ast.Name) and x.value.id == D.id)
                       or (isinstance(x, ast.Call) and isinstance(x.func, ast.Attribute) and x.func.attr in ('add', 'append', 'update') and
                           isinstance(x.func.value, ast.Name) and x.func.value.id == D.id)] if isinstance(loop, (ast.For, ast.While)) else []
                src = [v for name, v, st in roles.assignments(fi.node) if name == D.id]
                if upd: run.ok(key, 'tested against `%s`, which the loop keeps up to date' % D.id, where=fi.where(n))
                elif src:
                    run.violated(key, 'the new name is tested against `%s` (= %s), built before the loop and never updated in it: two blocks of one '
                                 'call whose generated names coincide are not noticed, the second silently replaces the first and the first '
                                 'block\'s connection is left joining a block that is not in the grid' % (D.id, norm(src[0])[:80]), where=fi.where(n))
                else: run.unknown(key, 'origin of `%s` not found' % D.id, where=fi.where(n))
            else:
                run.unknown(key, 'container `%s` not recognised' % norm(D), where=fi.where(n))


def pm_stmt(g, n):
    from ..core import parent_map
    pm = parent_map(g.node)
    cur = n
    while cur in pm and not isinstance(cur, ast.stmt): cur = pm[cur]
    return cur


def check(run):
    run.guarded('UNIQGUARD', rule_uniqguard)
    run.guarded('NAMEUSE', rule_nameuse)
    run.guarded('PAIR', rule_pair)
    run.guarded('REKEY', rule_rekey)
    run.guarded('NAMEKEY', rule_namekey)
