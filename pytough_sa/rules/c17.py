"""C17 - names.  Rules SLICE, LENGUARD, AVOID, FRESH."""
import ast
from ..core import AnalysisError, norm, dotted, call_name, walk_no_nested, Folder, TOP, is_self_attr
from ..consteval import Interp, Obj
from .. import flow

LEVEL = 'other'
EXPLANATION = (
    "Per naming convention 0..3 the analysis folds the convention tables and evaluates the if-chains of "
    "block_name / column_name / layer_name by constant propagation on the convention number: the column "
    "and layer parts are concatenated at column ranges which the extraction slices must reproduce exactly, "
    "the part lengths must equal colname_length / layername_length, the atmosphere column name and the "
    "surface layer names must have those lengths, and the total is 5 (SLICE). Every *_name_from_number / "
    "new_*_name returns only after a dominating `len(name) > <its own length attribute>` test whose true "
    "branch raises NamingConventionError (LENGUARD). add_layers regenerates a name while it equals the "
    "surface-layer name (AVOID); new_dict_key returns only a key it has just tested to be unused (FRESH). "
    "Injectivity of the base-26 numeration and idempotence of fix/unfix_blockname are not decided.")


def _branch_for(fi, conv):
    """statements executed in the if-chain on self.convention for this convention"""
    self_obj = Obj(); self_obj.attrs['convention'] = conv

    def pick(stmts):
        out = []
        for st in stmts:
            if isinstance(st, ast.If):
                mentions = any(is_self_attr(x, 'convention') for x in ast.walk(st.test))
                if mentions:
                    try:
                        v = Interp({'self': self_obj}).expr(st.test)
                    except AnalysisError:
                        raise AnalysisError('%s: test %s not evaluable on the convention' % (fi.short, norm(st.test)))
                    out += pick(st.body if v else st.orelse)
                    continue
            out.append(st)
        return out
    return pick(fi.node.body)


def _slice_of(e):
    """X[a:b] -> (name, a, b)"""
    if isinstance(e, ast.Subscript) and isinstance(e.value, ast.Name) and isinstance(e.slice, ast.Slice) and \
       e.slice.step is None:
        lo = e.slice.lower.value if isinstance(e.slice.lower, ast.Constant) else (0 if e.slice.lower is None else None)
        hi = e.slice.upper.value if isinstance(e.slice.upper, ast.Constant) else None
        if lo is not None and hi is not None:
            return e.value.id, lo, hi
    return None


def _concat(e):
    if isinstance(e, ast.BinOp) and isinstance(e.op, ast.Add):
        a, b = _concat(e.left), _concat(e.right)
        if a is None or b is None: return None
        return a + b
    s = _slice_of(e)
    return [s] if s else None


def rule_slice(run):
    run.rule('SLICE', 'per convention: block_name layout, column_name/layer_name slices, part lengths, atmosphere '
             'column and surface layer names agree; total length 5', floor=20)
    prog = run.prog
    bn = prog.func('mulgrids.mulgrid.block_name')
    cn = prog.func('mulgrids.mulgrid.column_name')
    ln = prog.func('mulgrids.mulgrid.layer_name')
    ssv = prog.func('mulgrids.mulgrid.set_secondary_variables')
    al = prog.func('mulgrids.mulgrid.add_layers')

    def table(fi, target):
        for n in walk_no_nested(fi.node):
            if isinstance(n, ast.Assign) and norm(n.targets[0]) == target and isinstance(n.value, ast.Subscript) \
               and norm(n.value.slice) == 'self.convention':
                v = Folder(prog, 'mulgrids').fold(n.value.value)
                if v is not TOP: return list(v), n
        raise AnalysisError('%s: convention table for %s not found' % (fi.short, target))
    col_len, n1 = table(ssv, 'self.colname_length')
    lay_len, n2 = table(ssv, 'self.layername_length')
    atm_col, n3 = table(ssv, 'self.atmosphere_column_name')
    surf_lay, n4 = table(al, 'surfacelayername')
    pcol, play = bn.params[2], bn.params[1]      # (self, layername, colname, blockmap)
    for c in range(4):
        stmts = _branch_for(bn, c)
        asg = [s for s in stmts if isinstance(s, ast.Assign) and isinstance(s.targets[0], ast.Name) and _concat(s.value)]
        key = 'mulgrid.block_name :: convention %d' % c
        if len(asg) != 1:
            run.unknown(key, 'concatenation not found', where=bn.where()); continue
        parts = _concat(asg[0].value)
        pos, layout = 0, {}
        for (nm, lo, hi) in parts:
            layout[nm] = (pos, pos + (hi - lo), lo, hi)
            pos += hi - lo
        if set(layout) != set([pcol, play]):
            run.unknown(key, 'parts %s are not the column and layer names' % sorted(layout), where=bn.where(asg[0])); continue
        run.check(pos == 5, key + ' total length 5', 'name parts add up to %d characters, block names have 5' % pos, where=bn.where(asg[0]))
        for part, fn, lens, what in ((pcol, cn, col_len, 'column'), (play, ln, lay_len, 'layer')):
            a, b, lo, hi = layout[part]
            rs = [s for s in _branch_for(fn, c) if isinstance(s, ast.Return)]
            k2 = 'mulgrid.%s_name :: convention %d' % (what, c)
            sl = _slice_of(rs[0].value) if rs and rs[0].value is not None else None
            if sl is None:
                run.unknown(k2, 'slice not found', where=fn.where()); continue
            if (sl[1], sl[2]) != (a, b):
                run.violated(k2, 'block_name puts the %s part in columns [%d,%d) but %s_name extracts [%d,%d): the %s of a '
                             'block name is not the one it was built from' % (what, a, b, what, sl[1], sl[2], what), where=fn.where(rs[0]))
            else: run.ok(k2, {'columns': [a, b]})
            k3 = 'mulgrid.%sname_length :: convention %d' % ('col' if what == 'column' else 'layer', c)
            if lens[c] != b - a or lo != 0:
                run.violated(k3, '%s names have length %d but block_name uses %s[%d:%d]: names are truncated or padded '
                             'inconsistently' % (what, lens[c], part, lo, hi), where=ssv.where())
            else: run.ok(k3, {'length': lens[c]})
        run.check(len(atm_col[c]) == col_len[c], 'mulgrid.atmosphere_column_name :: convention %d' % c,
                  'atmosphere column name %r has length %d, column names have %d' % (atm_col[c], len(atm_col[c]), col_len[c]), where=ssv.where(n3))
        run.check(len(surf_lay[c]) == lay_len[c], 'mulgrid.add_layers surface layer name :: convention %d' % c,
                  'surface layer name %r has length %d, layer names have %d' % (surf_lay[c], len(surf_lay[c]), lay_len[c]), where=al.where(n4))
    # block_name passes the name through fix_blockname (C01/C13 NAMEFIX rely on fixed names everywhere)
    fx = [n for n in walk_no_nested(bn.node) if isinstance(n, ast.Call) and call_name(n) == 'fix_blockname']
    run.shape(len(fx) == 1, 'mulgrid.block_name :: result fixed by fix_blockname', 'fix_blockname call not found', where=bn.where())


def rule_lenguard(run):
    run.rule('LENGUARD', 'every generated name is returned only after `len(name) > <length>` raised '
             'NamingConventionError on the true branch', floor=5)
    prog = run.prog
    for m, attr in (('column_name_from_number', 'colname_length'), ('node_name_from_number', 'colname_length'),
                    ('layer_name_from_number', 'layername_length'), ('new_node_name', 'colname_length'),
                    ('new_column_name', 'colname_length')):
        fi = prog.func('mulgrids.mulgrid.' + m)
        key = 'mulgrid.%s :: length guard' % m
        guards = []
        # the variable by role: whatever is returned (first element of a returned pair)
        rets0 = [r for r in walk_no_nested(fi.node) if isinstance(r, ast.Return) and r.value is not None]
        rnames = set()
        for r in rets0:
            v = r.value
            if isinstance(v, ast.Tuple) and v.elts: v = v.elts[0]
            rnames.add(norm(v))
        # ... or, when several things are returned, the one variable whose length is tested before raising the naming error
        gnames = set()
        for n_ in walk_no_nested(fi.node):
            if isinstance(n_, ast.If) and isinstance(n_.test, ast.Compare) and len(n_.test.ops) == 1 and isinstance(n_.test.left, ast.Call) and \
               call_name(n_.test.left) == 'len' and n_.test.left.args and isinstance(n_.test.left.args[0], ast.Name) and \
               any(isinstance(s_, ast.Raise) and s_.exc is not None and 'NamingConventionError' in norm(s_.exc) for s_ in n_.body):
                gnames.add(n_.test.left.args[0].id)
        idn = set(r_ for r_ in rnames if r_.isidentifier())
        if len(idn) == 1 and (len(rnames) == 1 or idn == gnames): rname = list(idn)[0]
        elif len(gnames) == 1 and not idn: rname = list(gnames)[0]
        else:
            run.unknown(key, 'returned name variable not identified: %s' % sorted(rnames), where=fi.where()); continue

        def is_guard(n):
            if not isinstance(n, ast.If): return False
            t = n.test
            if isinstance(t, ast.Compare) and len(t.ops) == 1 and isinstance(t.left, ast.Call) and call_name(t.left) == 'len' \
               and isinstance(t.left.args[0], ast.Name) and t.left.args[0].id == rname:
                raises = any(isinstance(s, ast.Raise) and s.exc is not None and
                             'NamingConventionError' in norm(s.exc) for s in n.body)
                if raises:
                    guards.append(n)
                    return True
            return False
        iftests = dict((id(n.test), n) for n in walk_no_nested(fi.node) if isinstance(n, ast.If))
        bad = flow.must_pass(fi.node, lambda n: id(n) in iftests and is_guard(iftests[id(n)]))
        if bad:
            b0 = bad[0]
            run.violated(key, 'a name is returned without passing a length test that raises NamingConventionError: '
                         'an over-long name is used (truncated later by block_name, giving duplicates)',
                         where=fi.where(None if b0 == 'fall' else b0))
            continue
        g = guards[0]
        t = g.test
        good = isinstance(t.ops[0], ast.Gt) and norm(t.comparators[0]) == 'self.' + attr
        if good: run.ok(key, {'guard': norm(t)}, where=fi.where(g))
        else:
            run.violated(key, 'the guard is `%s`; names longer than self.%s must raise' % (norm(t), attr), where=fi.where(g))
        # the guarded value is what is returned
        rets = [r for r in walk_no_nested(fi.node) if isinstance(r, ast.Return) and r.value is not None]
        names = set()
        for r in rets:
            v = r.value
            if isinstance(v, ast.Tuple): v = v.elts[0]
            names.add(norm(v))
        run.shape(names == set([rname]), 'mulgrid.%s :: returns the guarded name' % m, 'returns %s' % sorted(names), where=fi.where())
    # node_col_name_from_number pads to the column name length
    nc = prog.func('mulgrids.mulgrid.node_col_name_from_number')
    uses = [n for n in ast.walk(nc.node) if is_self_attr(n) and n.attr.endswith('name_length')]
    run.check(all(u.attr == 'colname_length' for u in uses) and len(uses) >= 2,
              'mulgrid.node_col_name_from_number :: uses colname_length', 'uses %s' % sorted(set(u.attr for u in uses)), where=nc.where())
    lf = prog.func('mulgrids.mulgrid.layer_name_from_number')
    uses = [n for n in ast.walk(lf.node) if is_self_attr(n) and n.attr.endswith('name_length')]
    run.check(all(u.attr == 'layername_length' for u in uses) and len(uses) >= 3,
              'mulgrid.layer_name_from_number :: uses layername_length', 'uses %s' % sorted(set(u.attr for u in uses)), where=lf.where())


def rule_avoid(run):
    run.rule('AVOID', 'add_layers regenerates a layer name while it equals the surface-layer name', floor=1)
    fi = run.prog.func('mulgrids.mulgrid.add_layers')
    key = 'mulgrid.add_layers :: surface layer name avoided'
    loops = [n for n in walk_no_nested(fi.node) if isinstance(n, ast.For) and norm(n.iter) == 'thicknesses']
    if len(loops) != 1:
        run.unknown(key, 'loop over thicknesses not found', where=fi.where()); return
    lp = loops[0]
    gen = [n for n in ast.walk(lp) if isinstance(n, ast.Assign) and norm(n.targets[0]) == 'name' and
           isinstance(n.value, ast.Call) and call_name(n.value) == 'layer_name_from_number']
    if not gen:
        run.unknown(key, 'name generation not found', where=fi.where(lp)); return
    whiles = [w for w in ast.walk(lp) if isinstance(w, ast.While) and any(g in list(ast.walk(w)) for g in gen)]
    ok = False
    for w in whiles:
        t = w.test
        if isinstance(t, ast.Compare) and len(t.ops) == 1 and isinstance(t.ops[0], ast.Eq) and \
           set([norm(t.left), norm(t.comparators[0])]) == set(['name', 'surfacelayername']):
            ok = True
    if ok: run.ok(key, where=fi.where(lp))
    elif not whiles:
        run.violated(key, 'a generated layer name is used without being compared with the surface layer name: in '
                     'convention 0 layer number 0 / in conventions 1,2 the generated "atm"/"at" collides with the '
                     'atmosphere layer and add_layer silently drops the layer', where=fi.where(gen[0]))
    else:
        run.unknown(key, 'regeneration loop condition `%s` not recognised' % norm(whiles[0].test), where=fi.where(whiles[0]))


def rule_avoid_callers(run):
    """add_layers only keeps the generated names clear of the surface-layer name *it* uses.  A caller that gives the
    surface layer another name afterwards (refine_layers keeps the old atmosphere layer name) must have had that name
    avoided too, or it can coincide with a regenerated layer name."""
    run.current_rule = 'AVOID'
    prog = run.prog
    cls = prog.cls('mulgrids', 'mulgrid')
    al = cls.methods['add_layers']
    # which parameter of add_layers (if any) supplies the avoided name
    avoided_param = None
    for n in walk_no_nested(al.node):
        if isinstance(n, ast.While) and isinstance(n.test, ast.Compare) and isinstance(n.test.ops[0], ast.Eq):
            for x in (n.test.left, n.test.comparators[0]):
                if isinstance(x, ast.Name) and x.id in al.params: avoided_param = x.id
    for fi in sorted(cls.methods.values(), key=lambda f: f.name):
        calls = [c for c in walk_no_nested(fi.node) if isinstance(c, ast.Call) and call_name(c) == 'add_layers' and is_self_attr(c.func)]
        if not calls or fi.name == 'add_layers': continue
        # a later rename / assignment of the surface layer's name
        later = []
        for n in walk_no_nested(fi.node):
            if n is calls[0] or getattr(n, 'lineno', 0) <= calls[0].lineno: continue
            if isinstance(n, ast.Call) and call_name(n) == 'rename_layer' and len(n.args) == 2 and 'layerlist[0]' in norm(n.args[0]):
                later.append((n, n.args[1]))
            if isinstance(n, ast.Assign) and any('layerlist[0].name' in norm(t) for t in n.targets): later.append((n, n.value))
        key = 'mulgrid.%s :: the surface layer name it ends up with was avoided by add_layers' % fi.name
        if not later:
            run.ok(key, 'keeps the surface layer name add_layers chose', where=fi.where(calls[0])); continue
        node, newname = later[0]
        passed = None
        if avoided_param is not None:
            params = al.params[1:]
            for i, a in enumerate(calls[0].args):
                if i < len(params) and params[i] == avoided_param: passed = a
            for k in calls[0].keywords:
                if k.arg == avoided_param: passed = k.value
        if passed is not None and norm(passed) == norm(newname):
            run.ok(key, 'the name `%s` is handed to add_layers, which keeps the generated names clear of it' % norm(newname), where=fi.where(node))
        else:
            run.violated(key, 'after add_layers has generated the layer names (clear only of its own surface-layer name), the surface layer is '
                         'renamed to `%s`: when that name is one of the regenerated names (a geometry whose atmosphere layer is called " 1") two '
                         'layers share a name, the by-name dictionary loses one and the written file does not read back' % norm(newname),
                         where=fi.where(node))


def rule_fresh(run):
    run.rule('FRESH', 'new_dict_key returns only a key it has just tested to be absent from the dictionary', floor=1)
    fi = run.prog.func('mulgrids.new_dict_key')
    key = 'mulgrids.new_dict_key :: returned key tested unused'
    ws = [w for w in walk_no_nested(fi.node) if isinstance(w, ast.While)]
    if len(ws) != 1 or not isinstance(ws[0].test, ast.Name):
        run.unknown(key, 'search loop not recognised', where=fi.where()); return
    flag = ws[0].test.id
    last = ws[0].body[-1]
    good = isinstance(last, ast.Assign) and norm(last.targets[0]) == flag and isinstance(last.value, ast.Compare) and \
        isinstance(last.value.ops[0], ast.In) and norm(last.value.left) == 'name' and norm(last.value.comparators[0]) == fi.params[0]
    if good: run.ok(key, where=fi.where(ws[0]))
    else:
        if isinstance(last, ast.Assign) and norm(last.targets[0]) == flag:
            run.violated(key, 'the loop flag is `%s`, not `name in %s`: a key already in use can be returned and the '
                         'existing entry silently replaced' % (norm(last.value), fi.params[0]), where=fi.where(last))
        else: run.unknown(key, 'loop body not recognised', where=fi.where(ws[0]))
    # the counter advances on every iteration
    inc = [s for s in ws[0].body if isinstance(s, ast.AugAssign) and isinstance(s.op, ast.Add) and norm(s.target) == 'i']
    run.shape(len(inc) == 1, 'mulgrids.new_dict_key :: counter advances', 'increment not found', where=fi.where(ws[0]))


def rule_unfix(run):
    run.rule('UNFIX', "unfix_blockname prints the last two characters as a Fortran I2 integer (through int(), width 2), so "
             "'00' becomes ' 0'; fix_blockname fills exactly the blank fourth column between two digits", floor=2)
    prog = run.prog
    uf = prog.func('mulgrids.unfix_blockname')
    rets = [r for r in walk_no_nested(uf.node) if isinstance(r, ast.Return) and r.value is not None]
    key = "mulgrids.unfix_blockname :: digit pair printed through int() with width 2"
    body_ = [st for st in uf.node.body if not (isinstance(st, ast.Expr) and isinstance(st.value, ast.Constant))]
    if len(rets) == 2 and len(body_) == 1 and isinstance(body_[0], ast.If) and len(body_[0].body) == 1 and len(body_[0].orelse) == 1 and \
       isinstance(body_[0].body[0], ast.Return) and isinstance(body_[0].orelse[0], ast.Return):
        # the statement form of the conditional expression
        rets = [ast.copy_location(ast.Return(value=ast.copy_location(ast.IfExp(test=body_[0].test, body=body_[0].body[0].value, orelse=body_[0].orelse[0].value),
                                                                     body_[0])), body_[0])]
    if len(rets) != 1:
        run.unknown(key, '%d returns' % len(rets), where=uf.where())
    else:
        v = rets[0].value
        conv = v.body if isinstance(v, ast.IfExp) else v
        ints = [c for c in ast.walk(conv) if isinstance(c, ast.Call) and isinstance(c.func, ast.Name) and c.func.id == 'int'
                and c.args and norm(c.args[0]) in ('name[3:5]', 'name[3:]')]
        w2 = any(isinstance(c, ast.Constant) and isinstance(c.value, str) and ('%2d' in c.value or ':2d' in c.value or ':>2' in c.value) for c in ast.walk(conv)) \
            or any(isinstance(c, ast.Call) and call_name(c) == 'rjust' and c.args and norm(c.args[0]) == '2' for c in ast.walk(conv))
        if ints and w2: run.ok(key, norm(conv), where=uf.where(rets[0]))
        elif not ints:
            run.violated(key, "the un-repaired name is built as `%s`, without converting the digit pair through int(): a name ending in '00' "
                         "does not come out as the simulator prints it ('xxx 0')" % norm(conv), where=uf.where(rets[0]))
        else:
            run.violated(key, 'the integer is not printed in a 2-column field: `%s`' % norm(conv), where=uf.where(rets[0]))
        if isinstance(v, ast.IfExp):
            r_ = norm(v.test) in ('name[3:5].isdigit()',)
            tc_ = set(norm(x) for x in (v.test.values if isinstance(v.test, ast.BoolOp) and isinstance(v.test.op, ast.And) else [v.test]))
            if not r_ and 'name[3:5].isdigit()' in tc_:
                run.violated('mulgrids.unfix_blockname :: applies when the last two characters are digits',
                             'the condition also demands %s: a name the simulator prints with a blank fourth column (`(a3, i2)` applies to every '
                             'name ending in two digits) is left as it is' % sorted(tc_ - set(['name[3:5].isdigit()'])), where=uf.where(rets[0]))
            else: run.shape(r_, 'mulgrids.unfix_blockname :: applies when the last two characters are digits', 'condition `%s`' % norm(v.test), where=uf.where(rets[0]))
            run.check(norm(v.orelse) == 'name', 'mulgrids.unfix_blockname :: other names unchanged', 'else-branch returns %s' % norm(v.orelse), where=uf.where(rets[0]))
    fx = prog.func('mulgrids.fix_blockname')
    ifs = [n for n in walk_no_nested(fx.node) if isinstance(n, ast.If)]
    key = 'mulgrids.fix_blockname :: blank 4th column between digits in columns 3 and 5 becomes 0'
    # `if a: if b: if c: <repair>` is `if a and b and c: <repair>` when each inner if is the whole body of the outer one
    nest_conds = []
    if ifs:
        top = [st for st in fx.node.body if isinstance(st, ast.If)]
        cur = top[0] if len(top) == 1 else None
        while cur is not None:
            nest_conds.extend(cur.test.values if isinstance(cur.test, ast.BoolOp) and isinstance(cur.test.op, ast.And) else [cur.test])
            if len(cur.body) == 1 and isinstance(cur.body[0], ast.If) and not cur.orelse and not cur.body[0].orelse: cur = cur.body[0]
            else: break
        if cur is not None and len(ifs) > 1 and len(nest_conds) == 3 and all(i_ is cur or any(x is cur for x in ast.walk(i_)) for i_ in ifs):
            ifs = [ast.copy_location(ast.If(test=ast.BoolOp(op=ast.And(), values=nest_conds), body=cur.body, orelse=cur.orelse), cur)]
    if len(ifs) == 1:
        conds = set(norm(x) for x in (ifs[0].test.values if isinstance(ifs[0].test, ast.BoolOp) and isinstance(ifs[0].test.op, ast.And) else [ifs[0].test]))
        want = set(['name[2].isdigit()', 'name[4].isdigit()', "name[3] == ' '"])
        body = norm(ifs[0].body[0]) if ifs[0].body else ''
        good_body = body.replace('name[:3]', 'name[0:3]') in ("return '0'.join((name[0:3], name[4:5]))", "return '0'.join([name[0:3], name[4:5]])",
                                                              "return name[0:3] + '0' + name[4:5]", "return name[0:3] + '0' + name[4]")
        if conds == want and good_body: run.ok(key, where=fx.where(ifs[0]))
        elif conds != want and (conds < want or want < conds):
            run.violated(key, 'the repair condition is %s' % sorted(conds), where=fx.where(ifs[0]))
        elif conds == want and any(isinstance(c, ast.Call) and call_name(c) == 'replace' and norm(c.func.value) == 'name' for c in ast.walk(ifs[0].body[0])):
            run.violated(key, 'the repair is `%s`: replace() on the whole name fills every blank, not only the fourth column, so a name with a '
                         'leading blank comes back changed' % body, where=fx.where(ifs[0]))
        elif conds == want and not good_body: run.unknown(key, 'repair expression `%s` not recognised' % body, where=fx.where(ifs[0]))
        else: run.unknown(key, 'condition %s not recognised' % sorted(conds), where=fx.where(ifs[0]))
    else: run.unknown(key, 'shape not recognised', where=fx.where())


def rule_uniq(run):
    run.rule('UNIQ', 'uniqstring() returns every character of its argument once (first occurrences, in order): the name generators rely on '
             'the alphabet having no repeats, or two numbers get the same name', floor=1)
    fi = run.prog.func('mulgrids.uniqstring')
    key = 'mulgrids.uniqstring :: distinct characters'
    rets = [r for r in walk_no_nested(fi.node) if isinstance(r, ast.Return) and r.value is not None]
    if len(rets) != 1:
        run.unknown(key, '%d returns' % len(rets), where=fi.where()); return
    p = fi.params[0]
    from ..formula import compare
    r = compare(rets[0].value, "''.join(sorted(set(%s), key=%s.index))" % (p, p),
                alternatives=("''.join(dict.fromkeys(%s))" % p, "''.join(OrderedDict.fromkeys(%s))" % p, "''.join(sorted(set(%s), key=%s.find))" % (p, p)))
    if r == 'equal': run.ok(key, norm(rets[0].value), where=fi.where(rets[0]))
    elif any(isinstance(c, ast.Call) and call_name(c) == 'groupby' for c in ast.walk(fi.node)) and \
            not any(isinstance(c, ast.Call) and call_name(c) in ('sorted', 'sort', 'set') for c in ast.walk(fi.node)):
        run.violated(key, '`%s`: itertools.groupby only merges *adjacent* equal characters, so an alphabet like "abcab" keeps its repeats and the '
                     'generated column / layer / node names collide' % norm(rets[0].value), where=fi.where(rets[0]))
    else: run.unknown(key, 'form `%s` not recognised' % norm(rets[0].value), where=fi.where(rets[0]))


def rule_namespace(run):
    run.rule('NAMESPACE', 'new_<kind>_name() searches for an unused name in the dictionary that add_<kind>() registers objects of that kind '
             'in: searched against another dictionary, a name already taken by an object of the kind is handed out again and add_<kind>() '
             'silently drops the new object', floor=2)
    import re
    prog = run.prog
    cls = prog.cls('mulgrids', 'mulgrid')
    for mname, fi in sorted(cls.methods.items()):
        m = re.match(r'new_(\w+)_name$', mname)
        if not m: continue
        kind = m.group(1)
        key = 'mulgrid.%s :: searches the dictionary add_%s fills' % (mname, kind)
        adder = cls.methods.get('add_' + kind)
        calls = [c for c in walk_no_nested(fi.node) if isinstance(c, ast.Call) and call_name(c) == 'new_dict_key' and c.args]
        if adder is None or len(calls) != 1:
            run.unknown(key, 'adder or key search not found', where=fi.where()); continue
        filled = set(norm(t.value) for st in ast.walk(adder.node) if isinstance(st, ast.Assign) for t in st.targets
                     if isinstance(t, ast.Subscript) and isinstance(t.slice, ast.Attribute) and t.slice.attr == 'name')
        searched = norm(calls[0].args[0])
        if len(filled) != 1:
            run.unknown(key, 'dictionary filled by add_%s not identified: %s' % (kind, sorted(filled)), where=adder.where()); continue
        if searched in filled: run.ok(key, searched, where=fi.where(calls[0]))
        else:
            run.violated(key, 'the unused name is searched for in `%s` but add_%s() registers under `%s`' % (searched, kind, sorted(filled)[0]),
                         where=fi.where(calls[0]), robust=True)


def rule_justarg(run):
    run.rule('JUSTARG', 'within one function, the generators of node / column / layer names are all called with the same justification: the file '
             'stores names stripped and the reader right-justifies them, so a function that names some of its new objects left- and '
             'others right-justified creates names that collide after a write / read cycle', floor=3)
    prog = run.prog
    cls = prog.cls('mulgrids', 'mulgrid')
    gens = dict((m, fi) for m, fi in cls.methods.items() if 'justfn' in fi.params and (m.startswith('new_') or m.endswith('_from_number')))
    n = 0
    for fi in sorted(prog.all_functions(['mulgrids']), key=lambda f: f.qual):
        if fi.name in gens: continue
        calls = [c for c in walk_no_nested(fi.node) if isinstance(c, ast.Call) and isinstance(c.func, ast.Attribute) and c.func.attr in gens]
        if len(calls) < 2: continue
        def just_of(c):
            g = gens[c.func.attr]
            pos = g.params.index('justfn') - 1          # (self is not passed)
            for k in c.keywords:
                if k.arg == 'justfn': return norm(k.value)
            return norm(c.args[pos]) if len(c.args) > pos else None
        js = [(just_of(c), c) for c in calls]
        given = set(j for j, c in js if j is not None)
        n += 1
        key = '%s :: %d name-generator calls agree on the justification' % (fi.short, len(calls))
        missing = [c for j, c in js if j is None]
        if given and missing:
            run.violated(key, '`%s` is called without the justification function that the other name generators in this function get (`%s`): it '
                         'falls back to right justification, so in a left-justified geometry its names ("  v") collide with the others ("v  ") once '
                         'the geometry has been written and read back' % (norm(missing[0])[:60], sorted(given)[0]), where=fi.where(missing[0]), robust=True)
        elif len(given) > 1:
            run.unknown(key, 'different justification arguments: %s' % sorted(given), where=fi.where(calls[0]))
        else: run.ok(key, sorted(given) or ['default'], where=fi.where(calls[0]))
    if n == 0: run.unknown('mulgrids :: name generator call sites', 'no function with two or more calls found', where='mulgrids.py')


def rule_uniqlast(run):
    run.rule('UNIQLAST', 'where a function makes the naming alphabet repeat-free with uniqstring() and also transforms it (case conversion), '
             'uniqstring() is applied last: a transformation that is not one-to-one ("aA" -> "AA") applied afterwards puts the repeats back '
             'and two numbers get the same name', floor=5)
    prog = run.prog
    n = 0
    for fi in prog.all_functions(['mulgrids']):
        rebinds = {}
        for st in walk_no_nested(fi.node):
            if isinstance(st, ast.Assign) and len(st.targets) == 1 and isinstance(st.targets[0], ast.Name):
                v = st.targets[0].id
                if any(isinstance(x, ast.Name) and x.id == v for x in ast.walk(st.value)):
                    is_uniq = isinstance(st.value, ast.Call) and call_name(st.value) == 'uniqstring'
                    rebinds.setdefault(v, []).append(((st.lineno, st.col_offset), is_uniq, st))
        for v, lst in sorted(rebinds.items()):
            if not any(u for _, u, _ in lst): continue
            n += 1
            lst.sort(key=lambda t: t[0])
            key = '%s :: `%s` is made repeat-free after every other transformation' % (fi.short, v)
            last_u = max(pos for pos, u, _ in lst if u)
            later = [st for pos, u, st in lst if not u and pos > last_u and isinstance(st.value, ast.Call)]
            if later:
                run.violated(key, '`%s` comes after the uniqstring() call: an alphabet with both cases of a letter has repeats again when it '
                             'reaches the name generators' % norm(later[0]), where=fi.where(later[0]), robust=True)
            else: run.ok(key, where=fi.where(lst[0][2]))
    run.ok('functions that make an alphabet repeat-free', {'count': n})


def rule_memo(run):
    run.rule('MEMO', 'a result remembered between calls (memo dictionary, caching decorator) is keyed by every parameter it depends on', floor=1)
    from .memo import memo_rule
    memo_rule(run, ['mulgrids'])


def check(run):
    run.guarded('UNIQ', rule_uniq)
    run.guarded('UNIQLAST', rule_uniqlast)
    run.guarded('JUSTARG', rule_justarg)
    run.guarded('NAMESPACE', rule_namespace)
    run.guarded('MEMO', rule_memo)
    run.guarded('SLICE', rule_slice)
    run.guarded('LENGUARD', rule_lenguard)
    run.guarded('AVOID', rule_avoid)
    run.guarded('AVOID', rule_avoid_callers)
    run.guarded('FRESH', rule_fresh)
    run.guarded('UNFIX', rule_unfix)
