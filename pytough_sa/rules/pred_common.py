"""PRED: the block-existence predicate `column surface > layer bottom` is the same relation everywhere."""
import ast
from ..core import norm, walk_no_nested


def _kind(e):
    """'surface' / 'bottom' if e is <x>.surface or <y>.bottom"""
    if isinstance(e, ast.Attribute) and e.attr in ('surface', 'bottom'):
        return e.attr
    return None


def pred_sites(prog, mods=('mulgrids', 't2grids', 't2incons', 't2data')):
    """yields (fi, node, left text, op, right text, canonical verdict)
    verdict: 'exists' (surface > bottom), 'absent' (surface <= bottom), or 'odd' (>= / < / == forms)"""
    out = []
    for fi in prog.all_functions(list(mods)):
        for n in ast.walk(fi.node):
            if not isinstance(n, ast.Compare): continue
            left = n.left
            for op, right in zip(n.ops, n.comparators):
                kl, kr = _kind(left), _kind(right)
                if kl and kr and kl != kr:
                    # normalise to surface <op> bottom
                    o = type(op)
                    if kl == 'bottom':
                        o = {ast.Lt: ast.Gt, ast.Gt: ast.Lt, ast.LtE: ast.GtE, ast.GtE: ast.LtE}.get(o, o)
                    verdict = {ast.Gt: 'exists', ast.LtE: 'absent'}.get(o, 'odd')
                    out.append((fi, n, norm(left), {ast.Gt: '>', ast.Lt: '<', ast.GtE: '>=', ast.LtE: '<=',
                                                    ast.Eq: '==', ast.NotEq: '!='}.get(type(op), '?'), norm(right), verdict))
                left = right
    return out


def rule_pred(run, floor=10, only=None):
    run.rule('PRED', 'every comparison of a column surface with a layer bottom, in the functions this property is about, is the '
             'block-existence relation `surface > bottom` (the one block_name_list uses) or its exact negation', floor=floor)
    sites = pred_sites(run.prog)
    seen = {}
    # the same functions comparing the surface with another elevation of the layer (its centre, its top): the count of layers /
    # the existence of a block is decided by the layer *bottom* (block_name_list), so such a site disagrees with it for a surface
    # between the two elevations
    for fi in run.prog.all_functions(['mulgrids', 't2grids', 't2incons', 't2data']):
        if not only or fi.short not in only: continue
        for n in ast.walk(fi.node):
            if not (isinstance(n, ast.Compare) and len(n.ops) == 1): continue
            a, b = n.left, n.comparators[0]
            for x, y in ((a, b), (b, a)):
                if isinstance(x, ast.Attribute) and x.attr == 'surface' and isinstance(y, ast.Attribute) and y.attr in ('centre', 'top') and \
                   isinstance(y.value, ast.Name) and 'layer' in y.value.id.lower() and isinstance(n.ops[0], (ast.Lt, ast.LtE, ast.Gt, ast.GtE)):
                    run.violated('%s :: %s' % (fi.short, norm(n)), 'the surface is compared with the layer %s; whether a column has a block in a layer '
                                 'is decided by the layer bottom (`surface > bottom`, as block_name_list does), so a surface between the two '
                                 'elevations is counted differently here' % y.attr, where=fi.where(n))
    for fi, n, l, op, r, verdict in sites:
        if only and fi.short not in only: continue
        k = '%s :: %s %s %s' % (fi.short, l, op, r)
        i = seen.get(k, 0); seen[k] = i + 1
        if i: k += ' #%d' % i
        if verdict == 'odd':
            run.violated(k, 'this site uses `%s %s %s`; everywhere else a block exists iff surface > bottom. A column whose '
                         'surface lies exactly on a layer bottom then has a block in one list and not in the other'
                         % (l, op, r), where=fi.where(n))
        else:
            run.ok(k, verdict, where=fi.where(n))
    return len(sites)
