"""ARGSWAP: positional arguments passed in an order that contradicts the callee's parameter names.

At a call of a function of the repository, if the variable passed at position i is named after parameter j and the
one at position j after parameter i (each contains all the words of the *other* parameter's name and not those of
its own), the two arguments are crossed.  Names are compared as sets of '_'-separated words; one-letter words are
ignored (f(y, x) can be a deliberate transposition)."""
import ast
from ..core import walk_no_nested


def words(name):
    return frozenset(w for w in name.lower().strip('_').split('_') if len(w) > 1 and not w.isdigit())


def arg_name(a):
    if isinstance(a, ast.Name): return a.id
    if isinstance(a, ast.Attribute): return a.attr
    return None


def resolve(prog, fi, call):
    f = call.func
    if isinstance(f, ast.Name):
        for n in ast.walk(fi.node):
            if isinstance(n, ast.FunctionDef) and n.name == f.id and n is not fi.node: return n, 0
        g = fi.module.functions.get(f.id)
        if g is not None: return g.node, 0
        c = prog.find_class(f.id) if hasattr(prog, 'find_class') else None
        if c is not None and '__init__' in c.methods: return c.methods['__init__'].node, 1
        return None, 0
    if isinstance(f, ast.Attribute):
        if isinstance(f.value, ast.Name) and f.value.id == 'self' and fi.cls is not None:
            m = fi.cls.methods.get(f.attr)
            if m is not None: return m.node, 1
        cands = []
        for mod in prog.mods.values():
            for c in mod.classes.values():
                if f.attr in c.methods: cands.append(c.methods[f.attr])
        if len(cands) == 1: return cands[0].node, 1
    return None, 0


def argswap_sites(prog, fi, only_callees=None):
    """[(call, i, j, argnames, paramnames)] crossed pairs ; also the number of call sites examined.
    only_callees: set of id(FunctionDef) - examine only calls of those functions"""
    out, n = [], 0
    for call in ast.walk(fi.node):
        if not isinstance(call, ast.Call) or len(call.args) < 2 or any(isinstance(a, ast.Starred) for a in call.args): continue
        callee, skip = resolve(prog, fi, call)
        if callee is None: continue
        if only_callees is not None and id(callee) not in only_callees: continue
        params = [a.arg for a in callee.args.posonlyargs + callee.args.args][skip:]
        n += 1
        names = [arg_name(a) for a in call.args]
        m = min(len(names), len(params))
        for i in range(m):
            for j in range(i + 1, m):
                if names[i] is None or names[j] is None: continue
                ai, aj, pi, pj = words(names[i]), words(names[j]), words(params[i]), words(params[j])
                if not (ai and aj and pi and pj) or pi == pj: continue
                crossed = pj <= ai and pi <= aj
                own = pi <= ai or pj <= aj
                if crossed and not own:
                    out.append((call, i, j, (names[i], names[j]), (params[i], params[j])))
    return out, n


def argswap_rule(run, funcs, rule='ARGSWAP'):
    """every call site inside the given functions, and every call *of* one of them from anywhere in the repository"""
    total = 0
    mine = set(id(f.node) for f in funcs)
    todo = [(f, None) for f in funcs] + [(g, mine) for g in run.prog.all_functions() if id(g.node) not in mine]
    for fi, only in todo:
        hits, n = argswap_sites(run.prog, fi, only)
        total += n
        for call, i, j, an, pn in hits:
            run.violated('%s :: call of %s' % (fi.short, ast.unparse(call.func)),
                         'arguments %d and %d are crossed: `%s` is passed for parameter `%s` and `%s` for parameter `%s`'
                         % (i + 1, j + 1, an[0], pn[0], an[1], pn[1]), where=fi.where(call), rule=rule)
    return total
