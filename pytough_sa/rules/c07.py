"""C07 - navigation is history-independent.  Rules FUNNEL, DEP, BOUNDS, BIND."""
import ast
from .. import roles
import re
from ..core import rel, AnalysisError, norm, dotted, call_name, walk_no_nested, is_self_attr
from .. import flow
from .listing_common import binding, listing_effects, internal_fns, SIMS

LEVEL = 'other'
EXPLANATION = (
    "History-independence by construction: (FUNNEL) only set_index, rewind, history and __init__ write "
    "the cursor index, every other navigation method assigns through the index property, and set_index "
    "performs on every path, in this order, an absolute seek to _fullpos[i], the index assignment, the "
    "negative-index normalisation and read_tables(); (DEP) a read-before-write analysis over set_index's "
    "call tree, per simulator binding, shows that nothing it reads before writing (including the file "
    "position) can have been written by navigation-reachable code, so the state at index i cannot depend "
    "on the path taken; (BOUNDS) next/prev guards and the nearest-selection shape of set_time/set_step; "
    "(BIND) every dynamically bound method exists for every simulator and every unsuffixed self-call is "
    "bound. Stale rows inside a table whose row set varies between times are not decided.")

NAV = ['first', 'last', 'next', 'prev', 'set_index', 'set_time', 'set_step', 'rewind', 'history']


def rule_bind(run):
    run.rule('BIND', 'every dynamically bound method name has an AUTOUGH2 and a TOUGH2 implementation '
             '(the fallback), and every unsuffixed self.<name>() call in class t2listing is bound', floor=12)
    prog = run.prog
    cls = prog.cls('t2listing', 't2listing')
    b = binding(prog)
    for name, per in sorted(b.items()):
        missing = [s for s, m in per.items() if m is None]
        key = 't2listing.detect_simulator :: %s' % name
        if missing:
            run.violated(key, 'no implementation (nor TOUGH2 fallback) of %s for simulator(s) %s: '
                         'getattr raises AttributeError when such a listing is opened' % (name, missing),
                         where='t2listing.py (t2listing.detect_simulator)')
        else:
            run.ok(key, per)
    # all self.<x>(...) calls resolve
    attrs = cls.instance_attrs() | set(cls.properties) | set(cls.methods) | set(b)
    n = 0
    for mname, fi in cls.methods.items():
        for c in ast.walk(fi.node):
            if isinstance(c, ast.Call) and isinstance(c.func, ast.Attribute) and is_self_attr(c.func):
                n += 1
                if c.func.attr not in attrs:
                    run.violated('t2listing.%s :: self.%s()' % (mname, c.func.attr),
                                 'call of self.%s which is neither a method nor in internal_fns' % c.func.attr,
                                 where=fi.where(c))
    run.count('self_calls_resolved', n)


def rule_funnel(run):
    run.rule('FUNNEL', 'only set_index/rewind/history/__init__ write _index; other navigation goes through the '
             'index property; set_index = absolute seek, assign, normalise, read_tables on every path', floor=8)
    prog = run.prog
    cls = prog.cls('t2listing', 't2listing')
    allowed = set(['set_index', 'rewind', 'history', '__init__'])
    for mname, fi in sorted(cls.methods.items()):
        writes = [n for n in ast.walk(fi.node)
                  if isinstance(n, ast.Attribute) and is_self_attr(n, '_index') and isinstance(n.ctx, (ast.Store, ast.Del))]
        if writes:
            key = 't2listing.%s :: writes _index' % mname
            if mname in allowed: run.ok(key, where=fi.where(writes[0]))
            else:
                run.violated(key, '%s writes the cursor index directly, bypassing set_index (no seek, no re-read): '
                             'index and table contents can disagree afterwards' % mname, where=fi.where(writes[0]))
    # index property wired to set_index
    p = cls.properties.get('index')
    run.check(p == ('get_index', 'set_index'), 't2listing.index :: property(get_index, set_index)',
              'index property is %s' % (p,), where='t2listing.py (t2listing)')
    gi = prog.func('t2listing.t2listing.get_index')
    rets = [n for n in walk_no_nested(gi.node) if isinstance(n, ast.Return)]
    run.check(len(rets) == 1 and dotted(rets[0].value) == 'self._index', 't2listing.get_index :: returns _index',
              'get_index does not return self._index', where=gi.where())
    # navigation methods assign only through the property
    for mname in ('first', 'last', 'next', 'prev', 'set_time', 'set_step'):
        fi = prog.func('t2listing.t2listing.' + mname)
        stores = [n for n in ast.walk(fi.node) if isinstance(n, ast.Attribute) and is_self_attr(n)
                  and isinstance(n.ctx, ast.Store)]
        bad = [n.attr for n in stores if n.attr != 'index']
        run.check(not bad and stores, 't2listing.%s :: moves only via index property' % mname,
                  '%s stores %s' % (mname, bad or 'nothing'), where=fi.where())
    # set_index body
    si = prog.func('t2listing.t2listing.set_index')
    param = si.params[1] if len(si.params) > 1 else None

    def is_seek(n):
        for c in ([n] if isinstance(n, ast.Call) else []) + [x for x in walk_no_nested(n) if isinstance(x, ast.Call)]:
            if isinstance(c.func, ast.Attribute) and c.func.attr == 'seek' and is_self_attr(c.func.value, '_file') \
               and len(c.args) == 1:
                a = roles.inline_locals(c.args[0], si.node.body)       # (the position may be looked up into a local first)
                if isinstance(a, ast.Subscript) and is_self_attr(a.value, '_fullpos') and \
                   isinstance(a.slice, ast.Name) and a.slice.id == param:
                    return True
                if isinstance(a, ast.Subscript) and is_self_attr(a.value, '_fullpos') and \
                   dotted(a.slice) == 'self._index':
                    return True
        return False

    def is_assign(n):
        return isinstance(n, ast.Assign) and dotted(n.targets[0]) == 'self._index' and \
            isinstance(n.value, ast.Name) and n.value.id == param

    def is_read(n):
        for c in ([n] if isinstance(n, ast.Call) else []) + [x for x in walk_no_nested(n) if isinstance(x, ast.Call)]:
            if isinstance(c.func, ast.Attribute) and is_self_attr(c.func) and c.func.attr == 'read_tables':
                return True
        return False

    for what, pred in (('absolute seek to _fullpos[i]', is_seek), ('self._index = i', is_assign),
                       ('read_tables()', is_read)):
        bad = flow.must_pass(si.node, pred)
        key = 't2listing.set_index :: %s on every path' % what
        if bad:
            b0 = bad[0]
            run.violated(key, 'a path through set_index reaches %s without %s: the tables shown then depend on '
                         'where the reader was before' % ('the end' if b0 == 'fall' else 'line %d' % b0.lineno, what),
                         where=si.where(None if b0 == 'fall' else b0))
        else:
            run.ok(key, where=si.where())
    # order: seek and assign precede read_tables: read_tables must not be passed before them
    def order_ok(first, second):
        # no path reaches `second` without `first`
        class A(flow.Analysis):
            viol = False
            def transfer(self, stmt, st):
                if second(stmt) and not st: A.viol = True
                return st or first(stmt)
            def on_expr(self, e, st): return self.transfer(e, st)
            def join(self, a, b): return a and b
        A.viol = False
        flow.run(A(), si.node.body, False)
        return not A.viol
    run.check(order_ok(is_seek, is_read), 't2listing.set_index :: seek precedes read_tables',
              'read_tables() can run before the absolute seek', where=si.where())
    run.check(order_ok(is_assign, is_read), 't2listing.set_index :: index assigned before read_tables',
              'read_tables() can run before _index is assigned (next_table_* read self.index)', where=si.where())
    # negative normalisation
    normd = False
    for n in walk_no_nested(si.node):
        # the value tested is the index just stored, or the parameter it was stored from
        if isinstance(n, ast.If) and isinstance(n.test, ast.Compare) and len(n.test.ops) == 1 and \
           (dotted(n.test.left) == 'self._index' or (isinstance(n.test.left, ast.Name) and n.test.left.id == param)) \
           and isinstance(n.test.ops[0], ast.Lt) and isinstance(n.test.comparators[0], ast.Constant) \
           and n.test.comparators[0].value == 0:
            for s in n.body:
                if isinstance(s, ast.AugAssign) and dotted(s.target) == 'self._index' and isinstance(s.op, ast.Add) \
                   and dotted(s.value) == 'self.num_fulltimes':
                    normd = True
    run.check(normd, 't2listing.set_index :: negative index normalised by num_fulltimes',
              'negative index is not mapped to index + num_fulltimes', where=si.where())

    def is_norm(n):
        return isinstance(n, ast.AugAssign) and dotted(n.target) == 'self._index' and isinstance(n.op, ast.Add)
    # the normalisation sits in an `if`: find the statement order at the top level of set_index
    top = si.node.body
    pos_norm = [i for i, st in enumerate(top) if any(is_norm(x) for x in ast.walk(st))]
    pos_read = [i for i, st in enumerate(top) if is_read(st)]
    if pos_norm and pos_read:
        run.check(max(pos_norm) < min(pos_read), 't2listing.set_index :: index normalised before read_tables',
                  'read_tables() runs while _index may still be negative: next_table_* compare the file position with '
                  '_fullpos[index + 1] and stop after the first table, so the other tables keep the rows of the previous time',
                  where=si.where(top[pos_read[0]]))
    else:
        run.unknown('t2listing.set_index :: index normalised before read_tables', 'statements not found at the top level', where=si.where())


def rule_dep(run):
    run.rule('DEP', 'nothing that set_index reads before writing (incl. the file position) is written by '
             'navigation-reachable code', floor=6)
    prog = run.prog
    for sim in SIMS:
        eff = listing_effects(prog, sim)
        rbw, mw = eff.rbw('set_index')
        navW = set()
        for m in NAV:
            if m in eff.cls.methods:
                navW |= eff.transitive(m)[1]
        navW -= set(['TABLEDATA'])     # table cells: write-by-omission is declared not decided
        clash = sorted(rbw & navW)
        key = 't2listing.set_index :: %s' % sim
        if clash:
            culprits = {}
            for a in clash:
                culprits[a] = sorted(m for m in NAV if m in eff.cls.methods and a in eff.transitive(m)[1])
            run.violated(key, 'set_index reads %s before writing it, and navigation code writes it (%s): what is '
                         'shown at index i depends on how the reader got there' % (clash, culprits),
                         where='t2listing.py (t2listing.set_index)')
        else:
            run.ok(key, {'read_before_write': sorted(rbw), 'written_by_navigation': sorted(navW),
                         'must_write': sorted(mw)})
    run.trust('effect summaries: self.<attr> loads/stores, self._file.seek = write of FILEPOS, '
              'readline/read/tell = read+write of FILEPOS; calls resolved through the class and internal_fns binding')


def rule_bounds(run):
    run.rule('BOUNDS', 'next moves iff index < num_fulltimes-1, prev iff index > 0, both return the moved flag; '
             'set_time/set_step clamp outside the range and otherwise take argmin(abs(x - target))', floor=4)
    prog = run.prog

    def check_step(mname, cmp_op, rhs_txt, aug):
        fi = prog.func('t2listing.t2listing.' + mname)
        body = [s for s in fi.node.body if not (isinstance(s, ast.Expr) and isinstance(s.value, ast.Constant))]
        ok = len(body) == 3
        flag = None

        def good_guard(t):
            # index < rhs (next) / rhs < index (prev), strict, whichever way round it is written
            r_ = rel(t)
            if r_ is None or not r_[1]: return False
            small, big = (r_[0], r_[2]) if cmp_op is ast.Lt else (r_[2], r_[0])
            return dotted(small) in ('self.index', 'self._index') and norm(big) == rhs_txt
        if ok:
            a, i, r = body
            ok = isinstance(a, ast.Assign) and isinstance(a.targets[0], ast.Name) and good_guard(a.value)
            if ok:
                flag = a.targets[0].id
                ok = isinstance(i, ast.If) and isinstance(i.test, ast.Name) and i.test.id == flag and not i.orelse \
                    and len(i.body) == 1 and isinstance(i.body[0], ast.AugAssign) and \
                    dotted(i.body[0].target) == 'self.index' and isinstance(i.body[0].op, aug) and \
                    isinstance(i.body[0].value, ast.Constant) and i.body[0].value.value == 1
                ok = ok and isinstance(r, ast.Return) and isinstance(r.value, ast.Name) and r.value.id == flag
        key = 't2listing.%s :: guard and result' % mname
        if ok: run.ok(key, where=fi.where())
        else:
            # shape not recognised: decide what we can - the comparison itself
            cmps = [n for n in walk_no_nested(fi.node) if isinstance(n, ast.Compare) and rel(n) is not None and
                    any(dotted(x) in ('self.index', 'self._index') for x in (rel(n)[0], rel(n)[2]))]
            if len(cmps) == 1 and not good_guard(cmps[0]):
                run.violated(key, 'guard is `%s`, expected `index %s %s`: the reader can move past the end or refuse '
                             'a legal move' % (norm(cmps[0]), {ast.Lt: '<', ast.Gt: '>'}[cmp_op], rhs_txt),
                             where=fi.where(cmps[0]))
            else:
                run.unknown(key, 'shape of %s not recognised' % mname, where=fi.where())
    check_step('next', ast.Lt, 'self.num_fulltimes - 1', ast.Add)
    check_step('prev', ast.Gt, '0', ast.Sub)

    def check_nearest(mname, arr):
        fi = prog.func('t2listing.t2listing.' + mname)
        p = fi.params[1]
        body = [s for s in fi.node.body if not (isinstance(s, ast.Expr) and isinstance(s.value, ast.Constant))]
        key = 't2listing.%s :: clamp and nearest' % mname
        if not (len(body) == 1 and isinstance(body[0], ast.If)):
            run.unknown(key, 'shape not recognised', where=fi.where()); return
        i1 = body[0]
        def is_cmp(t, op, idx):
            r_ = rel(t)
            if r_ is None or not r_[1]: return False
            small, big = (r_[0], r_[2]) if op is ast.Lt else (r_[2], r_[0])      # p < arr[idx]  /  arr[idx] < p
            return isinstance(small, ast.Name) and small.id == p and norm(big) == 'self.%s[%s]' % (arr, idx)
        def sets_index(stmts, val):
            return len(stmts) == 1 and isinstance(stmts[0], ast.Assign) and dotted(stmts[0].targets[0]) == 'self.index' \
                and norm(stmts[0].value) == val
        ok1 = is_cmp(i1.test, ast.Lt, '0') and sets_index(i1.body, '0')
        ok2 = len(i1.orelse) == 1 and isinstance(i1.orelse[0], ast.If) and is_cmp(i1.orelse[0].test, ast.Gt, '-1') \
            and sets_index(i1.orelse[0].body, '-1')
        ok3 = False
        if not (len(i1.orelse) == 1 and isinstance(i1.orelse[0], ast.If)):
            run.unknown(key, 'if/elif/else shape not recognised', where=fi.where()); return
        el = i1.orelse[0].orelse
        if not (len(el) == 2 and isinstance(el[0], ast.Assign) and isinstance(el[0].targets[0], ast.Name)
                and isinstance(el[1], ast.Assign) and len(i1.body) == 1 and len(i1.orelse[0].body) == 1):
            run.unknown(key, 'nearest-selection branch shape not recognised', where=fi.where()); return
        if True:
            if len(el) == 2 and isinstance(el[0], ast.Assign) and isinstance(el[0].targets[0], ast.Name):
                d = el[0].targets[0].id
                v = norm(el[0].value)
                ok3 = v in ('np.abs(self.%s - %s)' % (arr, p), 'np.abs(%s - self.%s)' % (p, arr),
                            'abs(self.%s - %s)' % (arr, p), 'abs(%s - self.%s)' % (p, arr)) and sets_index(el[1:], 'np.argmin(%s)' % d)
        if ok1 and ok2 and ok3: run.ok(key, where=fi.where())
        else:
            run.violated(key, 'selection is not: below first -> 0, above last -> -1, else argmin(abs(%s - %s))'
                         % (arr, p), where=fi.where())
    check_nearest('set_time', 'fulltimes')
    check_nearest('set_step', 'fullsteps')
    # `argmin(abs(array - target))` is only "nearest" in signed arithmetic: an unsigned array wraps for every entry below the target
    cls = prog.cls('t2listing', 't2listing')
    key = 't2listing :: time / step arrays are signed (abs(x - target) must not wrap)'
    badnode = None
    nsites = 0
    for m in cls.methods.values():
        for st in ast.walk(m.node):
            if isinstance(st, ast.Assign) and any(isinstance(t, ast.Attribute) and t.attr in ('times', 'fulltimes', 'steps', 'fullsteps', '_times', '_steps')
                                                  for tt in st.targets for t in ast.walk(tt)):
                nsites += 1
                for x in ast.walk(st.value):
                    txt = None
                    if isinstance(x, ast.keyword) and x.arg == 'dtype': txt = norm(x.value)
                    if isinstance(x, ast.Call) and call_name(x) == 'astype' and x.args: txt = norm(x.args[0])
                    if txt and re.search(r"uint|'u[1248]'|\"u[1248]\"|ubyte|ushort|uintc|ulonglong", txt): badnode = (m, st, txt)
    if badnode:
        m, st, txt = badnode
        run.violated(key, '`%s` makes the array unsigned (%s): in set_time / set_step `abs(array - target)` wraps around for every result below the '
                     'target, so argmin picks the first result at or above it instead of the nearest' % (norm(st)[:90], txt), where=m.where(st))
    else: run.ok(key, {'assignments examined': nsites})


def check(run):
    run.guarded('BIND', rule_bind)
    run.guarded('FUNNEL', rule_funnel)
    run.guarded('DEP', rule_dep)
    run.guarded('BOUNDS', rule_bounds)
