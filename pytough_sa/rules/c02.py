"""C02 - fixed-column records never spill.  Rules LAY, FIT, LATTICE."""
import ast
from .. import roles
from ..core import srcline, AnalysisError, norm, dotted, call_name, walk_no_nested
from ..consteval import Interp, Obj
from ..layout import TABLES, load_table, fields_of, Field
from .. import flow

LEVEL = 'other'
EXPLANATION = (
    "Static decision of the structural clause of C02: no field can ever occupy columns other "
    "than its own. LAY re-derives line_spec/spec_width by exact constant propagation of "
    "fixed_format_file.preprocess_specification over the four literal format tables and compares "
    "them with the columns the printf widths give; FIT proves with a string-length domain that the "
    "string appended for each field in write_values_to_string has length exactly the field width "
    "on every path that reaches the append (other paths raise); LATTICE lists, from the printf "
    "width model, the value classes that do not fit each format (evidence only). Not decided: "
    "that the parsed value equals the written one to the printed digits.")


def rule_lay(run):
    run.rule('LAY', 'every field of every format table has positive width and contiguous columns, '
             'and preprocess_specification computes exactly those columns', floor=400)
    prog = run.prog
    fn = prog.func('fixed_format_file.fixed_format_file.preprocess_specification')
    nkinds = nfields = 0
    for modname, tabname in TABLES:
        tab = load_table(prog, modname, tabname)
        # (1) the table itself
        good_kinds = {}
        for kind, (names, fmts) in tab.items():
            nkinds += 1
            if len(names) != len(fmts):
                run.violated('%s :: %s :: arity' % (tabname, kind),
                             '%d names but %d formats' % (len(names), len(fmts)),
                             where='%s.py (%s)' % (modname, tabname))
                continue
            try:
                good_kinds[kind] = fields_of((names, fmts))
            except AnalysisError as e:
                run.violated('%s :: %s :: format' % (tabname, kind), str(e),
                             where='%s.py (%s)' % (modname, tabname))
        # (2) what the library computes from it
        self_obj = Obj()
        self_obj.attrs['specification'] = dict((k, [list(v[0]), list(v[1])]) for k, v in tab.items())
        # module-level helpers and other methods of the class may be called by the routine (an extracted helper)
        modfuncs = dict((f.name, f.node) for f in prog.mod('fixed_format_file').functions.values())
        it = Interp({'self': self_obj}, funcs=modfuncs)
        if fn.cls is not None:
            self_obj.attrs['__methods__'] = dict(
                (mn, (lambda node: (lambda *a, **k: it.call_function(node, [self_obj] + list(a), k)))(m.node))
                for mn, m in fn.cls.methods.items() if mn != fn.name)
        try:
            it.block(fn.node.body)
        except AnalysisError as e:
            run.unknown('%s :: preprocess' % tabname,
                        'cannot evaluate preprocess_specification on the table: %s' % e,
                        where=fn.where())
            continue
        line_spec = self_obj.attrs.get('line_spec')
        spec_width = self_obj.attrs.get('spec_width')
        if not isinstance(line_spec, dict) or not isinstance(spec_width, dict):
            run.unknown('%s :: preprocess' % tabname, 'line_spec/spec_width not produced', where=fn.where())
            continue
        for kind, flds in good_kinds.items():
            ls = line_spec.get(kind)
            shifted = False     # report the first displaced field of a record, not its consequences
            for i, f in enumerate(flds):
                nfields += 1
                key = '%s :: %s.%s[%d]' % (tabname, kind, f.name or '_', i)
                where = '%s.py (%s[%r] field %d %r)' % (modname, tabname, kind, i, f.fmt)
                if f.width <= 0:
                    run.violated(key, 'width %d is not positive' % f.width, where=where); continue
                if ls is None or i >= len(ls):
                    run.violated(key, 'preprocess_specification produced no column range', where=where)
                    continue
                (a, b), typ = ls[i]
                sw = spec_width.get(f.fmt[:-1])
                if shifted and (b - a) == f.width and typ == f.typ:
                    run.ok(key, {'columns': [a, b], 'fmt': f.fmt, 'note': 'displaced by an earlier field (reported there)'})
                elif (a, b) != (f.start, f.end) or typ != f.typ:
                    shifted = True
                    run.violated(key,
                                 "format %r renders %d columns, so the field occupies columns [%d,%d) "
                                 "but parse_string slices [%d,%d): the value is parsed from other "
                                 "fields' columns" % (f.fmt, f.width, f.start, f.end, a, b),
                                 where=where)
                elif sw != f.width:
                    run.violated(key, "blank value rendered with spec_width[%r]=%r columns, field is %d wide"
                                 % (f.fmt[:-1], sw, f.width), where=where)
                else:
                    run.ok(key, {'columns': [f.start, f.end], 'fmt': f.fmt})
    run.count('record_kinds', nkinds)
    run.count('fields', nfields)
    run.trust("printf semantics of Python '%': '%W.Pt' renders at least |W| columns; '%-Ws' is W wide, left-justified")


# ---------------------------------------------------------------------------
# FIT: string-length domain

EQ, GE, GT, LE, UNK = 'len==w', 'len>=w', 'len>w', 'len<=w', '?'


class _Fit(flow.Analysis):
    """state: frozenset of (var, status)."""

    def __init__(self, prog, finfo, is_width, helper_ok):
        self.prog, self.finfo = prog, finfo
        self.is_width, self.helper_ok = is_width, helper_ok

    def template(self, l, depth=0):
        """how a %-template expression fixes the minimum width: 'spec' = '%' followed by the whole format of the field
        ('%%%s' % f, '%' + f), 'star' = a literal starting '%*' (width taken from the argument tuple), None = not recognised.
        A local bound once to such an expression stands for it."""
        if isinstance(l, ast.Name) and depth < 3:
            vs = [v for nm, v, st_ in roles.assignments(self.finfo.node) if nm == l.id]
            return self.template(vs[0], depth + 1) if len(vs) == 1 else None
        def lit(x): return x.value if isinstance(x, ast.Constant) and isinstance(x.value, str) else None
        if isinstance(l, ast.BinOp) and isinstance(l.op, ast.Mod):
            if lit(l.left) == '%%%s' and isinstance(l.right, ast.Name) and l.right.id == self.fmtvar: return 'spec'
            if lit(l.left) is not None and lit(l.left).replace('%%', '%').startswith('%*'): return 'star'
        if isinstance(l, ast.BinOp) and isinstance(l.op, ast.Add):
            if lit(l.left) == '%' and isinstance(l.right, ast.Name) and l.right.id == self.fmtvar: return 'spec'
            if lit(l.left) is not None and lit(l.left).startswith('%*'): return 'star'
        if lit(l) is not None and lit(l).startswith('%*'): return 'star'
        return None

    # classification of an expression producing a field string
    def classify(self, e, st):
        d = dict(st)
        if isinstance(e, ast.Name):
            return d.get(e.id, UNK)
        # ' ' * <width>
        if isinstance(e, ast.BinOp) and isinstance(e.op, ast.Mult):
            for a, b in ((e.left, e.right), (e.right, e.left)):
                if isinstance(a, ast.Constant) and isinstance(a.value, str) and len(a.value) == 1 \
                   and self.is_width(b, d):
                    return EQ
        # ('%%%s' % f) % val, ('%' + f) % val   -> at least the width of the format
        if isinstance(e, ast.BinOp) and isinstance(e.op, ast.Mod):
            if self.template(e.left) == 'spec': return GE
        # ('%%*.*%s' % typ) % (width, prec, val): the star width makes the result at least `width` wide
        if isinstance(e, ast.BinOp) and isinstance(e.op, ast.Mod) and isinstance(e.right, ast.Tuple) and e.right.elts \
           and self.is_width(e.right.elts[0], d):
            if self.template(e.left) == 'star': return GE
        if isinstance(e, ast.Call):
            r = self.helper_ok(e, d)
            if r is not None:
                return r
            # x.ljust(w)/rjust(w) of GE stays GE; slicing x[:w] of GE gives EQ
        if isinstance(e, ast.Subscript) and isinstance(e.slice, ast.Slice) and \
           e.slice.lower is None and e.slice.step is None and e.slice.upper is not None and \
           self.is_width(e.slice.upper, d):
            inner = self.classify(e.value, st)
            if inner in (GE, GT, EQ): return EQ
        if isinstance(e, ast.IfExp):
            a, b = self.classify(e.body, st), self.classify(e.orelse, st)
            return a if a == b else UNK
        return UNK

    def transfer(self, stmt, st):
        if isinstance(stmt, ast.Assign) and len(stmt.targets) == 1 and isinstance(stmt.targets[0], ast.Name):
            name = stmt.targets[0].id
            d = dict(st)
            if self.is_width(stmt.value, d):
                d['#w:' + name] = True
            else:
                d.pop('#w:' + name, None)
                d[name] = self.classify(stmt.value, st)
            return frozenset(d.items())
        if isinstance(stmt, ast.Expr) and isinstance(stmt.value, ast.Call):
            c = stmt.value
            if isinstance(c.func, ast.Attribute) and c.func.attr == 'append' and \
               dotted(c.func.value) == self.listvar and len(c.args) == 1:
                self.appends.append((c, self.classify(c.args[0], st)))
        return st

    def _lencmp(self, test, d):
        """(var, op) if test is len(var) <op> width"""
        if isinstance(test, ast.Compare) and len(test.ops) == 1:
            l, r, op = test.left, test.comparators[0], test.ops[0]
            flip = {ast.Gt: ast.Lt, ast.Lt: ast.Gt, ast.GtE: ast.LtE, ast.LtE: ast.GtE,
                    ast.Eq: ast.Eq, ast.NotEq: ast.NotEq}
            if type(op) not in flip: return None
            for a, b, o in ((l, r, type(op)), (r, l, flip[type(op)])):
                if isinstance(a, ast.Call) and call_name(a) == 'len' and len(a.args) == 1 and \
                   isinstance(a.args[0], ast.Name) and self.is_width(b, d):
                    return a.args[0].id, o
        return None

    def branch(self, test, st):
        d = dict(st)
        if isinstance(test, ast.UnaryOp) and isinstance(test.op, ast.Not):
            t, f = self.branch(test.operand, st)
            return f, t
        lc = self._lencmp(test, d)
        if lc is None:
            return st, st
        var, op = lc
        cur = d.get(var, UNK)
        def upd(v):
            dd = dict(d); dd[var] = v
            return frozenset(dd.items())
        # refine
        if op is ast.Gt:      # len > w | len <= w
            return upd(GT), upd(EQ if cur in (GE, EQ) else LE)
        if op is ast.LtE:
            return upd(EQ if cur in (GE, EQ) else LE), upd(GT)
        if op is ast.Eq:
            return upd(EQ), upd(GT if cur in (GE, GT) else UNK)
        if op is ast.NotEq:
            return upd(GT if cur in (GE, GT) else UNK), upd(EQ)
        if op is ast.GtE:     # len >= w : no information on true; false => len < w
            return st, upd(UNK)
        if op is ast.Lt:
            return upd(UNK), st
        return st, st

    def join(self, a, b):
        da, db = dict(a), dict(b)
        out = {}
        for k in set(da) | set(db):
            if k.startswith('#w:'):
                if da.get(k) and db.get(k): out[k] = True
                continue
            va, vb = da.get(k, UNK), db.get(k, UNK)
            if va == vb: out[k] = va
            elif set((va, vb)) <= set((EQ, GE, GT)) and GT not in (va, vb): out[k] = GE
            elif set((va, vb)) <= set((GE, GT)): out[k] = GE
            elif set((va, vb)) == set((EQ, GT)): out[k] = GE
            elif set((va, vb)) == set((EQ, LE)): out[k] = LE
            else: out[k] = UNK
        return frozenset(out.items())


def _is_spec_width_expr(e, fmtvar):
    """self.spec_width[f[0:-1]] / self.spec_width[f[:-1]]"""
    if isinstance(e, ast.Subscript) and dotted(e.value) == 'self.spec_width':
        s = e.slice
        if isinstance(s, ast.Subscript) and isinstance(s.value, ast.Name) and s.value.id == fmtvar \
           and isinstance(s.slice, ast.Slice) and s.slice.step is None:
            lo, hi = s.slice.lower, s.slice.upper
            lo_ok = lo is None or (isinstance(lo, ast.Constant) and lo.value == 0)
            hi_ok = isinstance(hi, ast.UnaryOp) and isinstance(hi.op, ast.USub) and \
                isinstance(hi.operand, ast.Constant) and hi.operand.value == 1
            return lo_ok and hi_ok
    return False


def analyse_helper(prog, finfo, width_param, depth=0):
    """True if every normal return of the helper returns a string whose length
    equals the parameter width_param (other paths raise)."""
    if depth > 3:
        return UNK, 'helper nesting too deep'

    def is_width(e, d):
        return isinstance(e, ast.Name) and (e.id == width_param or d.get('#w:' + e.id))

    def helper_ok(call, d):
        return None

    an = _Fit(prog, finfo, is_width, helper_ok)
    an.fmtvar, an.listvar, an.appends = '__none__', '__none__', []
    out = flow.run(an, finfo.node.body, frozenset())
    if out.fall is not None:
        return UNK, 'a path falls off the end of %s (returns None)' % finfo.short
    worst = EQ
    order = {EQ: 0, GE: 1, GT: 2, LE: 2, UNK: 3}
    for node, st in out.rets:
        if node.value is None:
            return UNK, 'bare return in %s line %d' % (finfo.short, srcline(node))
        if st is None: continue
        c = an.classify(node.value, st)
        if order[c] > order[worst]: worst = c
        if c != EQ:
            why = 'return at %s line %d yields a string with %s' % (finfo.short, srcline(node), c)
    if worst != EQ: return worst, why
    return True, '%d returns all len==w, other exits raise' % len(out.rets)


def rule_fit(run):
    run.rule('FIT', 'in write_values_to_string the string appended for a field has length exactly '
             'the field width on every path reaching the append, or the path raises', floor=1)
    prog = run.prog
    fi = prog.func('fixed_format_file.fixed_format_file.write_values_to_string')
    # locate: for val, f in zip(vals, fmt): ... strs.append(valstr)
    loops = [n for n in walk_no_nested(fi.node) if isinstance(n, ast.For)]
    target = None
    for lp in loops:
        if isinstance(lp.iter, ast.Call) and call_name(lp.iter) == 'zip' and \
           isinstance(lp.target, ast.Tuple) and len(lp.target.elts) == 2 and \
           all(isinstance(e, ast.Name) for e in lp.target.elts):
            target = lp
    if target is None:
        raise AnalysisError('write_values_to_string: no `for val, f in zip(vals, fmt)` loop')
    fmtvar = target.target.elts[1].id
    # list that is joined and returned
    listvar = None
    for n in walk_no_nested(fi.node):
        if isinstance(n, ast.Return) and isinstance(n.value, ast.Call) and call_name(n.value) == 'join' \
           and n.value.args and isinstance(n.value.args[0], ast.Name):
            listvar = n.value.args[0].id
    if listvar is None:
        raise AnalysisError("write_values_to_string: no `return ''.join(<list>)`")
    # every mutation of that list other than append in the loop is unknown
    for n in walk_no_nested(fi.node):
        if isinstance(n, ast.Call) and isinstance(n.func, ast.Attribute) and \
           dotted(n.func.value) == listvar and n.func.attr in ('extend', 'insert'):
            raise AnalysisError('write_values_to_string: %s.%s not modelled' % (listvar, n.func.attr))

    def is_width(e, d):
        if _is_spec_width_expr(e, fmtvar): return True
        return isinstance(e, ast.Name) and bool(d.get('#w:' + e.id))

    helper_notes = []

    def helper_ok(call, d):
        # self.helper(..., w, ...) or helper(..., w, ...): which param receives the width?
        name = call_name(call)
        cand = None
        if isinstance(call.func, ast.Attribute) and dotted(call.func.value) == 'self':
            cand = fi.cls.methods.get(name)
            off = 1
        elif isinstance(call.func, ast.Name):
            cand = prog.mod('fixed_format_file').functions.get(name)
            off = 0
        if cand is None: return None
        params = cand.params
        wparam = None
        for i, a in enumerate(call.args):
            if is_width(a, d) and i + off < len(params):
                wparam = params[i + off]
        for k in call.keywords:
            if is_width(k.value, d): wparam = k.arg
        if wparam is None: return None
        ok, why = analyse_helper(prog, cand, wparam)
        helper_notes.append('%s(width=%s): %s' % (cand.short, wparam, why))
        return EQ if ok is True else ok

    an = _Fit(prog, fi, is_width, helper_ok)
    an.fmtvar, an.listvar, an.appends = fmtvar, listvar, []
    flow.run(an, fi.node.body, frozenset())
    # the fixpoint loop visits appends repeatedly: keep the weakest status per site
    sites = {}
    order = {EQ: 0, GE: 1, GT: 2, LE: 2, UNK: 3}
    for c, stt in an.appends:
        k = (c.lineno, c.col_offset)
        if k not in sites or order[stt] > order[sites[k][1]]:
            sites[k] = (c, stt)
    if not sites:
        raise AnalysisError('write_values_to_string: no %s.append(...) found' % listvar)
    for (c, stt) in sites.values():
        key = 'fixed_format_file.write_values_to_string :: %s' % norm(c)
        if stt == EQ:
            run.ok(key, {'status': EQ, 'helpers': helper_notes}, where=fi.where(c))
        elif stt in (GE, GT):
            run.violated(key, "the formatted value reaches the record with %s: '%%W.Pt' %% val is "
                         "wider than W whenever the value needs more columns (e.g. a negative number in "
                         "a 10.4e field), and no length test dominates the append, so every later field "
                         "of the record is shifted" % stt, where=fi.where(c))
        elif stt == LE:
            run.violated(key, "the string that reaches the record is only known to be at most W wide (%s): its format has no "
                         "minimum width and the only length test is an upper bound, so a value that renders shorter leaves the "
                         "record short and every later field is shifted left" % '; '.join(helper_notes), where=fi.where(c))
        else:
            run.unknown(key, 'length of appended string not resolved (%s)' % '; '.join(helper_notes),
                        where=fi.where(c))
    # write_values must pass the string through unchanged apart from the newline
    wv = prog.func('fixed_format_file.fixed_format_file.write_values')
    calls = [c for c in walk_no_nested(wv.node) if isinstance(c, ast.Call) and call_name(c) == 'write_values_to_string']
    run.check(len(calls) == 1, 'fixed_format_file.write_values :: delegates', 'write_values does not '
              'format through write_values_to_string exactly once', where=wv.where())
    run.trust("printf: len('%W.Pt' % v) >= W; ' ' * n has length n (n >= 0, LAY proves n = W > 0)")


def rule_lattice(run):
    """Evidence: which value classes cannot fit which format."""
    run.rule('LATTICE', 'per distinct real format, minimal rendered width per (sign, exponent digits) '
             'class from the printf model; classes wider than the field are listed (evidence only)')
    prog = run.prog
    seen = {}
    for modname, tabname in TABLES:
        tab = load_table(prog, modname, tabname)
        for kind, (names, fmts) in tab.items():
            for n, f in zip(names, fmts):
                try: fld = Field(n, f, 0)
                except AnalysisError: continue
                if fld.typ in 'eE' and fld.prec is not None:
                    seen.setdefault(fld.fmt, []).append('%s.%s' % (kind, n))
    for fmt, users in sorted(seen.items()):
        fld = Field('x', fmt, 0)
        classes = {}
        for neg in (0, 1):
            for e3 in (0, 1):
                # d.ddddE+XX : 1 + 1 + P + 4 ; sign +1 ; 3-digit exponent +1
                wmin = fld.prec + 6 + neg + e3
                classes['%s, %d-digit exponent' % ('negative' if neg else 'non-negative', 3 if e3 else 2)] = wmin
        overflow = sorted(k for k, v in classes.items() if v > fld.width)
        run.ok('format %s' % fmt, {'width': fld.width, 'min_rendered': classes,
                                   'classes_that_do_not_fit': overflow, 'fields': len(users)})


def rule_shared(run):
    run.rule('SHARED', 'the column tables a fixed_format_file object parses with belong to that object: no mutable container bound '
             'in a class body is filled through self without being rebound per instance', floor=1)
    from .shared import shared_rule
    shared_rule(run, ['fixed_format_file', 't2data', 't2incons', 'mulgrids'])


def rule_memo(run):
    run.rule('MEMO', 'a result remembered between calls (memo dictionary, caching decorator) is keyed by every parameter it depends on', floor=1)
    from .memo import memo_rule
    memo_rule(run, ['fixed_format_file'])


def rule_strread(run):
    run.rule('STRREAD', 'the converter of character fields returns the columns of the field as they are (only the line end is removed): blanks '
             'are part of a fixed-width name ("SAND ", "AIR "), and a reader that strips them hands back a shorter name which the '
             'writer then right-justifies into other columns', floor=1)
    prog = run.prog
    v, where = prog.resolve_global('fixed_format_file', 'default_read_str')
    key = 'fixed_format_file.default_read_str :: removes the newline only'
    if v is None or not isinstance(v, ast.AST):
        run.unknown(key, 'definition not found', where='fixed_format_file.py'); return
    lam = v.args[0] if isinstance(v, ast.Call) and v.args else v
    body = lam.body if isinstance(lam, ast.Lambda) else None
    if isinstance(lam, ast.Name):
        f = prog.mod('fixed_format_file').functions.get(lam.id)
        rets = [r for r in ast.walk(f.node) if isinstance(r, ast.Return)] if f is not None else []
        body = rets[0].value if len(rets) == 1 else None
    if body is None:
        run.unknown(key, 'converter `%s` not recognised' % norm(v), where='fixed_format_file.py'); return
    strips = [c for c in ast.walk(body) if isinstance(c, ast.Call) and isinstance(c.func, ast.Attribute) and c.func.attr in ('strip', 'rstrip', 'lstrip')]
    bad = [c for c in strips if not (c.func.attr == 'rstrip' and len(c.args) == 1 and isinstance(c.args[0], ast.Constant) and
                                     isinstance(c.args[0].value, str) and set(c.args[0].value) <= set('\r\n'))]
    if bad:
        run.violated(key, '`%s` removes blanks as well as the line end: a name such as "SAND " or "AIR " is read back without its trailing blanks '
                     'and re-written right-justified' % norm(bad[0]), where='fixed_format_file.py', robust=True)
    else: run.ok(key, norm(body), where='fixed_format_file.py')


def rule_fitparse(run):
    run.rule('FITPARSE', 'what fit_value_string() returns is the output of a % conversion of the value, untouched: the default readers parse a '
             'field with float() / int(), which accept exactly that (a string edited afterwards - exponent letter removed, characters '
             'cut - is read back as no value by every reader but the Fortran ones)', floor=1)
    fi = run.prog.func('fixed_format_file.fit_value_string')
    rets = [r for r in walk_no_nested(fi.node) if isinstance(r, ast.Return) and r.value is not None]
    if not rets: raise AnalysisError('fit_value_string returns nothing')
    def origin(e, depth=0):
        """'fmt' if the expression is a % conversion (or a local bound only to such), else the offending node"""
        if isinstance(e, ast.BinOp) and isinstance(e.op, ast.Mod): return 'fmt'
        if isinstance(e, ast.JoinedStr) and len(e.values) == 1 and isinstance(e.values[0], ast.FormattedValue): return 'fmt'
        if isinstance(e, ast.Call) and isinstance(e.func, ast.Name) and e.func.id == 'format' and e.args and norm(e.args[0]) == fi.params[0]: return 'fmt'
        if isinstance(e, ast.Call) and isinstance(e.func, ast.Name) and e.func.id in ('str', 'repr') and len(e.args) == 1 and norm(e.args[0]) == fi.params[0]: return 'fmt'
        if isinstance(e, ast.Call) and isinstance(e.func, ast.Attribute) and e.func.attr == 'format' and isinstance(e.func.value, ast.Constant): return 'fmt'
        if isinstance(e, ast.Name) and depth < 3:
            vals = [v for nm, v, st in roles.assignments(fi.node) if nm == e.id]
            if not vals: return e
            for v in vals:
                o = origin(v, depth + 1)
                if o != 'fmt': return o
            return 'fmt'
        return e
    for r in rets:
        key = 'fixed_format_file.fit_value_string :: return %s' % norm(r.value)[:50]
        o = origin(r.value)
        if o == 'fmt': run.ok(key, where=fi.where(r))
        elif any(isinstance(c, ast.Call) and isinstance(c.func, ast.Attribute) and c.func.attr in ('replace', 'translate') for c in ast.walk(o)) or \
                any(isinstance(c, ast.Subscript) for c in ast.walk(o)):
            run.violated(key, 'the fitted string is edited after the conversion (`%s`): the result is no longer what float() accepts, so a field '
                         'written this way is read back as no value by the default (non-Fortran) readers' % norm(o)[:80], where=fi.where(r))
        else: run.unknown(key, 'origin `%s` of the returned string not recognised' % norm(o)[:80], where=fi.where(r))


def check(run):
    run.guarded('FITPARSE', rule_fitparse)
    run.guarded('STRREAD', rule_strread)
    run.guarded('MEMO', rule_memo)
    run.guarded('SHARED', rule_shared)
    run.guarded('LAY', rule_lay)
    run.guarded('FIT', rule_fit)
    run.guarded('LATTICE', rule_lattice)
