"""LAYTOPS: mulgrid.identify_layer_tops() gives every layer its top: the first (atmosphere) layer, which has no layer above it,
gets top = its own bottom (block_surface() compares column surfaces with it; the constructor default is 0.0), and every other layer
the bottom of the layer before it.  Recognises the index, enumerate and zip spellings of the pair loop."""
import ast
from ..core import norm, walk_no_nested


def _is_L(e, L): return norm(e) == L


def _elt0(e, L, attr):
    return isinstance(e, ast.Attribute) and e.attr == attr and isinstance(e.value, ast.Subscript) and _is_L(e.value.value, L) and \
        isinstance(e.value.slice, ast.Constant) and e.value.slice.value == 0


def _tail(e, L):       # L[1:]
    return isinstance(e, ast.Subscript) and _is_L(e.value, L) and isinstance(e.slice, ast.Slice) and e.slice.upper is None and e.slice.step is None \
        and isinstance(e.slice.lower, ast.Constant) and e.slice.lower.value == 1


def _init(e, L):       # L[:-1] or L
    if _is_L(e, L): return True
    return isinstance(e, ast.Subscript) and _is_L(e.value, L) and isinstance(e.slice, ast.Slice) and e.slice.lower is None and e.slice.step is None \
        and isinstance(e.slice.upper, ast.UnaryOp) and isinstance(e.slice.upper.op, ast.USub) and isinstance(e.slice.upper.operand, ast.Constant) \
        and e.slice.upper.operand.value == 1


def laytops_rule(run, fi, L='self.layerlist'):
    body = list(walk_no_nested(fi.node))
    loops = [n for n in body if isinstance(n, ast.For)]
    in_loop = set(id(x) for l in loops for x in ast.walk(l))
    k1 = 'mulgrid.identify_layer_tops :: first layer: top = its own bottom'
    firsts = [n for n in body if isinstance(n, ast.Assign) and id(n) not in in_loop and len(n.targets) == 1 and _elt0(n.targets[0], L, 'top')]
    other_top = [n for n in body if isinstance(n, ast.Assign) and id(n) not in in_loop and n not in firsts and
                 any(isinstance(t, ast.Attribute) and t.attr == 'top' for t in n.targets)]
    if firsts:
        if _elt0(firsts[0].value, L, 'bottom'): run.ok(k1, where=fi.where(firsts[0]))
        else: run.violated(k1, 'the top of the first layer is set to `%s`, not to its own bottom' % norm(firsts[0].value), where=fi.where(firsts[0]), robust=True)
    elif other_top:
        run.unknown(k1, 'store `%s` not recognised' % norm(other_top[0]), where=fi.where(other_top[0]))
    else:
        run.violated(k1, 'no statement sets %s[0].top: the atmosphere layer keeps the constructor default top = 0.0, and block_surface() decides '
                     '"column surface above the top layer" against it, so in a geometry whose top is below elevation 0 the top blocks of raised '
                     'columns get the plain layer thickness' % L, where=fi.where(), robust=True)
    k2 = 'mulgrid.identify_layer_tops :: every other layer: top = bottom of the layer above'
    verdict = None
    for l in loops:
        it, tg = l.iter, l.target
        stores = [n for n in ast.walk(l) if isinstance(n, ast.Assign) and len(n.targets) == 1 and isinstance(n.targets[0], ast.Attribute) and n.targets[0].attr == 'top']
        if len(stores) != 1: continue
        st = stores[0]
        local = dict((n.targets[0].id, n.value) for n in ast.walk(l) if isinstance(n, ast.Assign) and len(n.targets) == 1 and isinstance(n.targets[0], ast.Name))
        def res(e):
            return local.get(e.id, e) if isinstance(e, ast.Name) else e
        dst, src = res(st.targets[0].value), st.value
        if not (isinstance(src, ast.Attribute) and src.attr == 'bottom'):
            verdict = ('violated', 'a layer top is set to `%s`, not to the bottom of the layer above' % norm(src), st); break
        srcv = res(src.value)
        # enumerate(L[1:]) : (i, this), above = L[i]
        if isinstance(it, ast.Call) and norm(it.func) == 'enumerate' and len(it.args) == 1 and _tail(it.args[0], L) and isinstance(tg, ast.Tuple) and len(tg.elts) == 2:
            i, this = norm(tg.elts[0]), norm(tg.elts[1])
            if norm(dst) == this and norm(srcv) == '%s[%s]' % (L, i): verdict = ('ok', 'enumerate', st)
            elif norm(dst) == this and norm(srcv) in ('%s[%s + 1]' % (L, i), this): verdict = ('violated', 'layer k+1 takes its top from `%s`' % norm(srcv), st)
        # zip(L[:-1], L[1:]) : (above, this)
        elif isinstance(it, ast.Call) and norm(it.func) == 'zip' and len(it.args) == 2 and isinstance(tg, ast.Tuple) and len(tg.elts) == 2:
            a, b = it.args
            if _init(a, L) and _tail(b, L): above, this = norm(tg.elts[0]), norm(tg.elts[1])
            elif _tail(a, L) and _init(b, L): this, above = norm(tg.elts[0]), norm(tg.elts[1])
            else: continue
            if norm(dst) == this and norm(srcv) == above: verdict = ('ok', 'zip', st)
            elif norm(dst) == above and norm(srcv) == this: verdict = ('violated', 'the layer above takes its top from the layer below', st)
        # range(1, len(L)) : L[i].top = L[i-1].bottom
        elif isinstance(it, ast.Call) and norm(it.func) == 'range' and len(it.args) == 2 and norm(it.args[0]) == '1' and isinstance(tg, ast.Name) \
                and norm(it.args[1]) in ('len(%s)' % L, 'self.num_layers'):
            i = tg.id
            if norm(dst) == '%s[%s]' % (L, i) and norm(srcv) == '%s[%s - 1]' % (L, i): verdict = ('ok', 'range', st)
        if verdict: break
    if verdict is None: run.unknown(k2, 'pair loop not recognised', where=fi.where())
    elif verdict[0] == 'ok': run.ok(k2, verdict[1], where=fi.where(verdict[2]))
    else: run.violated(k2, verdict[1], where=fi.where(verdict[2]), robust=True)
