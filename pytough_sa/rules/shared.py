"""SHARED: per-object tables are per object.

A mutable container bound in a class body ({} / [] / dict() / list() / set()) is one object shared by every
instance.  If methods fill it through `self.<name>[...] = ...` (or append/update/...) and no method ever rebinds
`self.<name>`, then building a second object overwrites the table of the first: a parser built for one format
table silently parses with the columns of the table built last."""
import ast
from ..core import norm

MUT_CALLS = ('dict', 'list', 'set', 'defaultdict', 'OrderedDict')
MUT_METHODS = ('append', 'extend', 'insert', 'update', 'setdefault', 'pop', 'clear', 'remove', 'add')


def _mutable(v):
    if isinstance(v, (ast.Dict, ast.List, ast.Set)): return True
    return isinstance(v, ast.Call) and isinstance(v.func, ast.Name) and v.func.id in MUT_CALLS and not v.args


def shared_rule(run, modnames, rule='SHARED'):
    prog = run.prog
    n = 0
    for mn in modnames:
        mod = prog.mod(mn)
        for c in mod.classes.values():
            n += 1
            shared = {}
            for st in c.node.body:
                if isinstance(st, ast.Assign):
                    for t in st.targets:
                        if isinstance(t, ast.Name) and _mutable(st.value): shared[t.id] = st
                        elif isinstance(t, (ast.Tuple, ast.List)) and isinstance(st.value, (ast.Tuple, ast.List)):
                            for a, b in zip(t.elts, st.value.elts):
                                if isinstance(a, ast.Name) and _mutable(b): shared[a.id] = st
            key = '%s.%s :: no class-level container is filled through self' % (mn, c.name)
            if not shared:
                run.ok(key, 'no mutable class attribute', rule=rule); continue
            # methods of this class and of its subclasses in the analysed modules
            classes = [c] + [d for m2 in prog.mods.values() for d in m2.classes.values()
                             if any(isinstance(b, ast.Name) and b.id == c.name for b in d.node.bases)]
            rebound, mutated = set(), {}
            for d in classes:
                for fi in d.methods.values():
                    for x in ast.walk(fi.node):
                        if isinstance(x, ast.Attribute) and isinstance(x.value, ast.Name) and x.value.id == 'self' and x.attr in shared:
                            if isinstance(x.ctx, ast.Store): rebound.add(x.attr)
                        if isinstance(x, ast.Subscript) and isinstance(x.ctx, (ast.Store, ast.Del)) and isinstance(x.value, ast.Attribute) and \
                           isinstance(x.value.value, ast.Name) and x.value.value.id == 'self' and x.value.attr in shared:
                            mutated.setdefault(x.value.attr, (fi, x))
                        if isinstance(x, ast.Call) and isinstance(x.func, ast.Attribute) and x.func.attr in MUT_METHODS and \
                           isinstance(x.func.value, ast.Attribute) and isinstance(x.func.value.value, ast.Name) and \
                           x.func.value.value.id == 'self' and x.func.value.attr in shared:
                            mutated.setdefault(x.func.value.attr, (fi, x))
            bad = [a for a in sorted(mutated) if a not in rebound]
            if bad:
                fi, x = mutated[bad[0]]
                run.violated(key, '`%s` is bound once in the class body (%s) and filled through self in %s without ever being rebound per '
                             'object: all instances share it, so the object built last overwrites the table of every other one'
                             % (bad[0], norm(shared[bad[0]]), fi.short), where=fi.where(x), rule=rule)
            elif mutated:
                run.ok(key, 'class-level %s rebound per object before use' % sorted(mutated), rule=rule)
            else:
                run.ok(key, 'class-level containers %s are never modified through self' % sorted(shared), rule=rule)
    return n


def default_copy_rule(run, modnames, rule='SHARED'):
    """A module-level table of defaults that holds mutable values (lists, arrays, dictionaries) must be deep-copied
    into each object: with the table itself, or a shallow copy of it, the lists inside are shared by every object and
    by the table - what one object reads into them (default initial conditions, time steps) appears in all the others
    and in every object created later."""
    prog = run.prog
    n = 0
    for mn in modnames:
        mod = prog.mod(mn)
        tables = {}
        for g, v in mod.globals.items():
            if isinstance(v, ast.Dict) and any(isinstance(x, (ast.List, ast.Dict, ast.Set, ast.ListComp)) or
                                               (isinstance(x, ast.Call) and norm(x.func).startswith('np.')) for x in v.values):
                tables[g] = v
        for fi in mod.all_functions():
            for st in ast.walk(fi.node):
                if not isinstance(st, ast.Assign): continue
                used = [x.id for x in ast.walk(st.value) if isinstance(x, ast.Name) and x.id in tables]
                if not used or not any(isinstance(t, ast.Attribute) for t in st.targets): continue
                n += 1
                g = used[0]
                key = '%s :: %s copied deeply into the object' % (fi.short, g)
                v = st.value
                deep = isinstance(v, ast.Call) and (norm(v.func) in ('deepcopy', 'copy.deepcopy')) and v.args and norm(v.args[0]) == g
                shallow = norm(v) in (g, '%s.copy()' % g, 'dict(%s)' % g, 'copy(%s)' % g, 'copy.copy(%s)' % g, '{**%s}' % g)
                if deep: run.ok(key, norm(v), where=fi.where(st), rule=rule)
                elif shallow:
                    run.violated(key, '`%s` gives the object the very lists / arrays held in the module-level table %s (a shallow copy shares its '
                                 'values): values read into them by one object show up in every other object and in all objects created later'
                                 % (norm(st), g), where=fi.where(st), rule=rule)
                else: run.unknown(key, 'form `%s` not recognised' % norm(v), where=fi.where(st), rule=rule)
    return n
