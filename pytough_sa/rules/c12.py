"""C12 - point and line location (soundness half).  Rules DOM, HALFOPEN, PRED."""
import ast
from ..core import rel, AnalysisError, norm, dotted, call_name, walk_no_nested, parent_map
from ..formula import compare, check_return
from .pred_common import rule_pred
from .. import roles

LEVEL = 'other'
EXPLANATION = (
    "Soundness half of C12, decided by dominance: every column that column_containing_point, "
    "quadtree.search_wave or column_track hands back is returned (or appended to the track) only under a "
    "true outcome of a containment / intersection test on that same object and the same point or line; "
    "the layer used to name the block containing a 3-D point is chosen by contains_elevation or by the "
    "explicit above-top-layer case, and the block name is produced only under the block-existence "
    "predicate (DOM, PRED). The crossing rule of in_polygon is the disjunction of two mirror-image "
    "half-open intervals, so a vertex level with the point is counted exactly once; in_rectangle and "
    "layer.contains_elevation are closed at both ends (HALFOPEN). Completeness of each search aid and "
    "track lengths are not decided.")


def _dominating_ifs(pm, node, stop):
    """(If node, in_body?) from innermost outwards"""
    out = []
    cur = node
    while cur in pm and cur is not stop:
        par = pm[cur]
        if isinstance(par, ast.If):
            if cur in par.body: out.append((par, True))
            elif cur in par.orelse: out.append((par, False))
        cur = par
    return out


def _contains_test(test, obj_text, arg_text):
    """test is (or conjoins) <obj>.contains_point(<arg>)"""
    for t in ([test] + (list(test.values) if isinstance(test, ast.BoolOp) and isinstance(test.op, ast.And) else [])):
        if isinstance(t, ast.Call) and call_name(t) == 'contains_point' and isinstance(t.func, ast.Attribute) and \
           norm(t.func.value) == obj_text and len(t.args) == 1 and norm(t.args[0]) == arg_text:
            return True
    return False


def rule_dom(run):
    run.rule('DOM', 'every column / block handed back by a search is dominated by a passed containment test on '
             'that same object and the same point', floor=8)
    prog = run.prog
    # ---- column_containing_point
    fi = prog.func('mulgrids.mulgrid.column_containing_point')
    pos = fi.params[1]
    pm = parent_map(fi.node)
    n_ret = 0
    carriers = set()        # variables later returned
    for r in walk_no_nested(fi.node):
        if isinstance(r, ast.Return) and isinstance(r.value, ast.Name) and r.value.id not in fi.params:
            carriers.add(r.value.id)
    # a carrier whose every return is itself under <carrier>.contains_point(pos) is decided there, not where it is bound
    for cv in sorted(carriers):
        rets_ = [r for r in walk_no_nested(fi.node) if isinstance(r, ast.Return) and isinstance(r.value, ast.Name) and r.value.id == cv]
        if rets_ and all(any(inb and _contains_test(i.test, cv, pos) for i, inb in _dominating_ifs(pm, r, fi.node)) for r in rets_):
            carriers.discard(cv)
            for r in rets_:
                n_ret += 1
                run.ok('mulgrid.column_containing_point :: return %s' % cv, 'under %s.contains_point(%s)' % (cv, pos), where=fi.where(r))
    decided_here = set(r.value.id for r in walk_no_nested(fi.node) if isinstance(r, ast.Return) and isinstance(r.value, ast.Name)) - carriers - set(fi.params)
    for n in walk_no_nested(fi.node):
        val, what = None, None
        if isinstance(n, ast.Return) and n.value is not None:
            if isinstance(n.value, ast.Name) and (n.value.id in carriers or n.value.id in decided_here): continue
            val, what = n.value, 'return'
        elif isinstance(n, ast.Assign) and isinstance(n.targets[0], ast.Name) and n.targets[0].id in carriers:
            val, what = n.value, 'assignment to ' + n.targets[0].id
        if val is None: continue
        if isinstance(val, ast.Constant) and val.value is None: continue
        n_ret += 1
        key = 'mulgrid.column_containing_point :: %s %s' % (what, norm(val))
        if isinstance(val, ast.Call) and isinstance(val.func, ast.Attribute) and val.func.attr == 'search' and \
           len(val.args) == 1 and norm(val.args[0]) == pos:
            run.ok(key, 'delegated to quadtree.search(%s) (checked below)' % pos, where=fi.where(n)); continue
        # delegated to a closure of this function: decided on the closure's own returns
        if isinstance(val, ast.Call) and isinstance(val.func, ast.Name):
            inner = [d for d in ast.walk(fi.node) if isinstance(d, ast.FunctionDef) and d is not fi.node and d.name == val.func.id]
            if len(inner) == 1:
                d = inner[0]
                dparams = [a.arg for a in d.args.args]
                # the point as the closure sees it: the enclosing variable, or the parameter the call binds it to
                ipos = pos if pos not in dparams else None
                for i_, a_ in enumerate(val.args):
                    if norm(a_) == pos and i_ < len(dparams): ipos = dparams[i_]
                pmi = parent_map(d)
                rets = [r for r in ast.walk(d) if isinstance(r, ast.Return) and r.value is not None and
                        not (isinstance(r.value, ast.Constant) and r.value.value is None)]
                good = ipos is not None and rets and all(
                    any(inb and _contains_test(i.test, norm(r.value), ipos) for i, inb in _dominating_ifs(pmi, r, d)) for r in rets)
                if good:
                    run.ok(key, 'delegated to the local helper %s(), each of whose %d returns is under <value>.contains_point(%s)'
                           % (d.name, len(rets), ipos), where=fi.where(n)); continue
        doms = _dominating_ifs(pm, n, fi.node)
        if any(inb and _contains_test(i.test, norm(val), pos) for i, inb in doms):
            run.ok(key, 'under %s.contains_point(%s)' % (norm(val), pos), where=fi.where(n))
        else:
            run.violated(key, 'this column is handed back without a dominating %s.contains_point(%s): a column that does '
                         'not contain the point can be returned' % (norm(val), pos), where=fi.where(n))
    if n_ret < 3: run.unknown('mulgrid.column_containing_point :: sites', 'only %d result sites found' % n_ret, where=fi.where())
    # bounds pre-test uses the point
    for n in walk_no_nested(fi.node):
        if isinstance(n, ast.Assign) and norm(n.targets[0]) == 'inbounds' and isinstance(n.value, ast.Call):
            run.check(n.value.args and norm(n.value.args[0]) == pos, 'mulgrid.column_containing_point :: %s' % norm(n.value),
                      'bounds test is not applied to the point', where=fi.where(n))
    # ---- quadtree
    sw = prog.func('mulgrids.quadtree.search_wave')
    pm = parent_map(sw.node)
    for n in walk_no_nested(sw.node):
        if isinstance(n, ast.Return) and n.value is not None and not (isinstance(n.value, ast.Constant) and n.value.value is None):
            key = 'quadtree.search_wave :: return %s' % norm(n.value)
            doms = _dominating_ifs(pm, n, sw.node)
            if any(inb and _contains_test(i.test, norm(n.value), sw.params[1]) for i, inb in doms): run.ok(key, where=sw.where(n))
            else: run.violated(key, 'element returned without a dominating contains_point test', where=sw.where(n))
    # the wave reaches the answer through elements that do not contain the point: which neighbours join it may depend on the
    # leaf and on the neighbour, never on the point searched for
    qpos = sw.params[1]
    for n in walk_no_nested(sw.node):
        if isinstance(n, ast.Call) and isinstance(n.func, ast.Attribute) and n.func.attr in ('append', 'add', 'insert', 'extend') and \
           any(isinstance(l, (ast.For, ast.While)) for l, _ in [(x, 0) for x in _ancestors(pm, n)]):
            inner_for = [x for x in _ancestors(pm, n) if isinstance(x, ast.For)]
            if not inner_for: continue
            tests = [x.test for x in _ancestors(pm, n) if isinstance(x, ast.If) and inner_for[0] in _ancestors(pm, x)]
            key = 'quadtree.search_wave :: admission of a neighbour to the wave (`%s`) does not depend on the point' % norm(n)[:40]
            dep = [t for t in tests if qpos in set(x.id for x in ast.walk(t) if isinstance(x, ast.Name))]
            if dep:
                run.violated(key, 'a neighbour joins the wave only if `%s`, which tests the query point: the wave stops at an element that does '
                             'not satisfy it even when the containing column lies just beyond, so the quadtree search returns None for '
                             'points the plain search finds' % norm(dep[0])[:80], where=sw.where(n), robust=True)
            else: run.ok(key, [norm(t)[:80] for t in tests], where=sw.where(n))
    run.assume('the columns that intersect a quadtree leaf rectangle are connected to the columns with their centre in it through '
               'edge-neighbours that also intersect the rectangle (true for a conforming mesh covering the rectangle; not guaranteed '
               'where the rectangle covers a hole or sticks out of a concave outline): completeness of the wave is not decided')
    se = prog.func('mulgrids.quadtree.search')
    rets = [norm(r.value) for r in walk_no_nested(se.node) if isinstance(r, ast.Return) and r.value is not None]
    run.check(set(rets) <= set(['leaf.search_wave(pos)', 'None']) and 'leaf.search_wave(pos)' in rets,
              'quadtree.search :: result comes from search_wave', 'search returns %s' % rets, where=se.where())
    # column.contains_point is in_polygon on the column's own polygon
    cp = prog.func('mulgrids.column.contains_point')
    check_return(run, 'column.contains_point :: in_polygon(pos, own polygon)', cp, 'in_polygon(pos, self.polygon)',
                 'containment is not tested against the column\'s own polygon')
    gp = prog.func('mulgrids.column.get_polygon')
    check_return(run, 'column.polygon :: node positions in node order', gp, '[node.pos for node in self.node]',
                 'the polygon is not the column\'s node positions')
    # ---- block_name_containing_point
    bp = prog.func('mulgrids.mulgrid.block_name_containing_point')
    pm = parent_map(bp.node)
    asg = [n for n in walk_no_nested(bp.node) if isinstance(n, ast.Assign) and norm(n.targets[0]) == 'blkname'
           and not (isinstance(n.value, ast.Constant) and n.value.value is None)]
    key = 'mulgrid.block_name_containing_point :: name built under column, layer and existence tests'
    if len(asg) != 1:
        run.unknown(key, '%d assignments to blkname' % len(asg), where=bp.where())
    else:
        tests = [norm(i.test) for i, inb in _dominating_ifs(pm, asg[0], bp.node) if inb]
        need = ['col', 'layer']
        exist = [t for t in tests if compare(ast.parse(t, mode='eval').body, 'col.surface > layer.bottom') == 'equal']
        if all(t in tests for t in need) and exist: run.ok(key, {'guards': tests}, where=bp.where(asg[0]))
        else: run.violated(key, 'guards are %s; the block name must only be produced for an existing column, layer and '
                           'block (col.surface > layer.bottom)' % tests, where=bp.where(asg[0]))
        r = compare(asg[0].value, 'self.block_name(layer.name, col.name, blockmap)')
        run.check(r == 'equal', 'mulgrid.block_name_containing_point :: name of that layer and column',
                  'name built as %s' % norm(asg[0].value), where=bp.where(asg[0]))
    col = [n for n in walk_no_nested(bp.node) if isinstance(n, ast.Assign) and norm(n.targets[0]) == 'col']
    if col:
        r = compare(col[0].value, 'self.column_containing_point(pos[0:2], qtree=qtree)', ['self.column_containing_point(pos[0:2], qtree = qtree)'])
        run.check(r == 'equal', 'mulgrid.block_name_containing_point :: column found from the horizontal position',
                  'column is %s' % norm(col[0].value), where=bp.where(col[0]))
    lays = [n for n in walk_no_nested(bp.node) if isinstance(n, ast.Assign) and norm(n.targets[0]) == 'layer']
    key = 'mulgrid.block_name_containing_point :: layer by elevation'
    vals = sorted(norm(n.value) for n in lays)
    if vals == ['self.layer_containing_elevation(pos[2])', 'self.layerlist[1]']:
        top = [n for n in lays if norm(n.value) == 'self.layerlist[1]'][0]
        doms = [norm(i.test) for i, inb in _dominating_ifs(pm, top, bp.node) if inb]
        good = any(compare(ast.parse(t, mode='eval').body, 'self.layerlist[0].bottom < pos[2] <= col.surface') == 'equal' for t in doms)
        if good: run.ok(key, where=bp.where(top))
        else: run.violated(key, 'the top layer is chosen under %s, expected ground level < z <= column surface' % doms, where=bp.where(top))
    else: run.unknown(key, 'layer selection is %s' % vals, where=bp.where())
    le = prog.func('mulgrids.mulgrid.layer_containing_elevation')
    pm2 = parent_map(le.node)
    tg = [n for n in walk_no_nested(le.node) if isinstance(n, ast.Assign) and norm(n.targets[0]) == 'target'
          and not (isinstance(n.value, ast.Constant) and n.value.value is None)]
    key = 'mulgrid.layer_containing_elevation :: layer passes contains_elevation'
    if len(tg) == 1:
        doms = [norm(i.test) for i, inb in _dominating_ifs(pm2, tg[0], le.node) if inb]
        good = '%s.contains_elevation(%s)' % (norm(tg[0].value), le.params[1]) in doms
        if good: run.ok(key, where=le.where(tg[0]))
        else: run.violated(key, 'layer chosen under %s' % doms, where=le.where(tg[0]))
        loops = [n for n in walk_no_nested(le.node) if isinstance(n, ast.For)]
        run.check(len(loops) == 1 and norm(loops[0].iter) == 'self.layerlist[1:]', 'mulgrid.layer_containing_elevation :: searches the underground layers',
                  'searches %s' % [norm(l.iter) for l in loops], where=le.where())
    else: run.unknown(key, 'shape not recognised', where=le.where())
    # ---- block_contains_point
    bc = prog.func('mulgrids.mulgrid.block_contains_point')
    pm3 = parent_map(bc.node)
    res = [n for n in walk_no_nested(bc.node) if isinstance(n, ast.Assign) and norm(n.targets[0]) == 'result'
           and not (isinstance(n.value, ast.Constant))]
    key = 'mulgrid.block_contains_point :: true only inside the column, the layer and an existing block'
    if len(res) == 1:
        doms = [norm(i.test) for i, inb in _dominating_ifs(pm3, res[0], bc.node) if inb]
        good = norm(res[0].value) == 'col.contains_point(pos[0:2])' and 'lay.contains_elevation(pos[2])' in doms and \
            any(compare(ast.parse(t, mode='eval').body, 'col.surface > lay.bottom') == 'equal' for t in doms)
        if good: run.ok(key, where=bc.where(res[0]))
        else: run.violated(key, 'result is %s under %s' % (norm(res[0].value), doms), where=bc.where(res[0]))
    else: run.unknown(key, 'shape not recognised', where=bc.where())
    # ---- column_track
    ct = prog.func('mulgrids.mulgrid.column_track')
    pm4 = parent_map(ct.node)
    apps = [c for c in walk_no_nested(ct.node) if isinstance(c, ast.Call) and call_name(c) == 'append' and norm(c.func.value) == 'track']
    if len(apps) < 2: run.unknown('mulgrid.column_track :: appends', '%d track appends found' % len(apps), where=ct.where())
    for i, c in enumerate(apps):
        key = 'mulgrid.column_track :: track.append #%d' % i
        doms = [norm(j.test) for j, inb in _dominating_ifs(pm4, c, ct.node) if inb]
        # being in the else branch of `if len(pts) == 0: continue` (a flattened loop body) establishes the same as `if len(pts) > 0:`
        for j, inb in _dominating_ifs(pm4, c, ct.node):
            if not inb and isinstance(j.test, ast.Compare) and len(j.test.ops) == 1 and isinstance(j.test.ops[0], ast.Eq) and \
               isinstance(j.test.left, ast.Call) and call_name(j.test.left) == 'len' and norm(j.test.comparators[0]) == '0':
                doms.append('%s > 0' % norm(j.test.left))
            elif not inb and isinstance(j.test, ast.UnaryOp) and isinstance(j.test.op, ast.Not): doms.append(norm(j.test.operand))
            elif not inb: doms.append('not (%s)' % norm(j.test))
        colv = norm(c.args[0].elts[0]) if isinstance(c.args[0], ast.Tuple) else None
        if 'len(pts) > 0' in doms or any(t.startswith('col == start_col == end_col') for t in doms):
            run.ok(key, {'guards': doms}, where=ct.where(c))
        else:
            # a violation only if every guard is one we understand *not* to establish a crossing (the bounding-box pre-filter,
            # the clip-length test); a guard of another shape (a helper's result, ...) leaves it undecided
            weak = [t for t in doms if t.startswith('line_intersects_rectangle(') or t.startswith('not (') or 'col_tol' in t or t in ('True',)]
            if len(weak) == len(doms):
                run.violated(key, 'column %s is appended to the track under %s, i.e. without the line having crossed its polygon '
                             'or containing both end points' % (colv, doms), where=ct.where(c))
            else:
                run.unknown(key, 'guards %s not recognised as the crossing test' % [t for t in doms if t not in weak], where=ct.where(c))
    # corner clips: dropped below one thousandth of the clipped column's *longest side* (the property's own tolerance)
    k_tol = 'mulgrid.column_track :: clip tolerance = longest side of the column x 1e-3'
    cmpn = [n for n in ast.walk(ct.node) if isinstance(n, ast.Compare) and rel(n) is not None and
            any(isinstance(c, ast.Call) and call_name(c) == 'abs' for c in ast.walk(n))]
    tolv = [v for nm, v, st in roles.assignments(ct.node) if isinstance(v, ast.Constant) and v.value == 1e-3]
    if len(cmpn) == 1 and tolv:
        small, strict, big = rel(cmpn[0])
        bound = small if not any(isinstance(c, ast.Call) and call_name(c) == 'abs' for c in ast.walk(small)) else big
        if isinstance(bound, ast.Name):
            d = [v for nm, v, st in roles.assignments(ct.node) if nm == bound.id]
            bound = d[0] if len(d) == 1 else bound
        tolname = [nm for nm, v, st in roles.assignments(ct.node) if isinstance(v, ast.Constant) and v.value == 1e-3][0]
        colv = [x.value.id for x in ast.walk(bound) if isinstance(x, ast.Attribute) and isinstance(x.value, ast.Name)] if isinstance(bound, ast.AST) else []
        r = 'incomparable'
        for cv in sorted(set(colv)) or ['col']:
            r2 = compare(bound, 'max(%s.side_lengths) * %s' % (cv, tolname))
            if r2 == 'equal': r = 'equal'
        if r == 'equal': run.ok(k_tol, norm(bound), where=ct.where(cmpn[0]))
        elif not any(isinstance(x, ast.Attribute) and x.attr == 'side_lengths' for x in ast.walk(bound)) and \
                any(isinstance(x, ast.Name) and x.id == tolname for x in ast.walk(bound)):
            run.violated(k_tol, 'the clip tolerance is `%s`, not a thousandth of the longest side of the clipped column: for columns that are not '
                         'axis-aligned rectangles another length (bounding-box extent, ...) keeps or drops clips the property says otherwise' % norm(bound),
                         where=ct.where(cmpn[0]))
        else: run.unknown(k_tol, 'tolerance `%s`' % norm(bound), where=ct.where(cmpn[0]))
    else: run.unknown(k_tol, 'clip-length comparison not found', where=ct.where())
    pts = [n for n in walk_no_nested(ct.node) if isinstance(n, ast.Assign) and norm(n.targets[0]) == 'pts' and isinstance(n.value, ast.Call)]
    if pts:
        # the polygon argument, with a local alias (poly = col.polygon) resolved
        k_ = 'mulgrid.column_track :: crossings of the column polygon with the line'
        c_ = pts[0].value
        arg0 = c_.args[0] if c_.args else None
        if isinstance(arg0, ast.Name):
            al = [n.value for n in walk_no_nested(ct.node) if isinstance(n, ast.Assign) and norm(n.targets[0]) == arg0.id]
            arg0 = al[0] if len(al) == 1 else arg0
        line_ok = len(c_.args) == 2 and isinstance(c_.args[1], ast.Name) and c_.args[1].id == ct.params[1]
        if call_name(c_) == 'line_polygon_intersections' and isinstance(arg0, ast.Attribute) and arg0.attr == 'polygon' and \
           isinstance(arg0.value, ast.Name) and line_ok:
            loopvars = [n.target.id for n in walk_no_nested(ct.node) if isinstance(n, ast.For) and isinstance(n.target, ast.Name) and
                        any(x is pts[0] for x in ast.walk(n))]
            if arg0.value.id in loopvars: run.ok(k_, norm(c_), where=ct.where(pts[0]))
            else: run.violated(k_, 'crossings are computed with the polygon of `%s`, which is not the column being visited (%s)' % (arg0.value.id, loopvars), where=ct.where(pts[0]))
        else: run.unknown(k_, 'crossings computed as %s' % norm(c_), where=ct.where(pts[0]))
    for v, end in (('start_col', 'line[0]'), ('end_col', 'line[1]')):
        a = [n for n in walk_no_nested(ct.node) if isinstance(n, ast.Assign) and norm(n.targets[0]) == v and norm(n.value) == 'col']
        key = 'mulgrid.column_track :: %s contains %s' % (v, end)
        if len(a) == 1:
            doms = [norm(j.test) for j, inb in _dominating_ifs(pm4, a[0], ct.node) if inb]
            if 'col.contains_point(%s)' % end in doms: run.ok(key, where=ct.where(a[0]))
            else: run.violated(key, '%s is set under %s' % (v, doms), where=ct.where(a[0]))
        else: run.unknown(key, 'assignment not found', where=ct.where())


def rule_halfopen(run):
    run.rule('HALFOPEN', 'in_polygon counts an edge iff p1.y <= y < p2.y or p2.y <= y < p1.y (mirror-image half-open '
             'intervals); in_rectangle and contains_elevation are closed', floor=3)
    prog = run.prog
    fi = prog.func('geometry.in_polygon')
    tests = [n for n in walk_no_nested(fi.node) if isinstance(n, ast.If) and isinstance(n.test, ast.BoolOp) and isinstance(n.test.op, ast.Or)]
    key = 'geometry.in_polygon :: crossing interval'
    if len(tests) != 1 or len(tests[0].test.values) != 2:
        run.unknown(key, 'crossing test not found', where=fi.where())
    else:
        a, b = tests[0].test.values

        def parse(c):
            if isinstance(c, ast.Compare) and len(c.ops) == 2:
                return (norm(c.left), type(c.ops[0]).__name__, norm(c.comparators[0]), type(c.ops[1]).__name__, norm(c.comparators[1]))
            return None
        pa, pb = parse(a), parse(b)
        if pa is None or pb is None:
            run.unknown(key, 'chained comparisons not recognised', where=fi.where(tests[0]))
        else:
            mirror = pa[0] == pb[4] and pa[4] == pb[0] and pa[2] == pb[2]
            half = (pa[1], pa[3]) == (pb[1], pb[3]) and (pa[1], pa[3]) in (('LtE', 'Lt'), ('Lt', 'LtE'))
            if mirror and half: run.ok(key, {'a': norm(a), 'b': norm(b)}, where=fi.where(tests[0]))
            elif mirror:
                run.violated(key, 'the two intervals are `%s` and `%s`: an edge end level with the point is counted twice or not at '
                             'all, so points level with a vertex are misclassified' % (norm(a), norm(b)), where=fi.where(tests[0]))
            else:
                run.violated(key, 'the two intervals `%s` / `%s` are not mirror images over the two edge ends' % (norm(a), norm(b)), where=fi.where(tests[0]))
    # parity
    rets = [r for r in walk_no_nested(fi.node) if isinstance(r, ast.Return)]
    if len(rets) == 1:
        # the crossing counter is whatever is incremented by one inside the edge loop (role, not name)
        counters = sorted(set(n.target.id for n in ast.walk(fi.node) if isinstance(n, ast.AugAssign) and isinstance(n.op, ast.Add) and
                              isinstance(n.target, ast.Name) and isinstance(n.value, ast.Constant) and n.value.value == 1))
        k = 'geometry.in_polygon :: odd number of crossings'
        if len(counters) != 1: run.unknown(k, 'crossing counter not identified (%s)' % counters, where=fi.where(rets[0]))
        else:
            r = compare(rets[0].value, '%s %% 2' % counters[0], alternatives=('%s %% 2 == 1' % counters[0], '%s %% 2 != 0' % counters[0], 'bool(%s %% 2)' % counters[0]))
            if r == 'equal': run.ok(k, where=fi.where(rets[0]))
            elif r == 'different': run.violated(k, 'returns %s' % norm(rets[0].value), where=fi.where(rets[0]))
            else: run.unknown(k, 'returns %s' % norm(rets[0].value), where=fi.where(rets[0]))
    x = [n for n in ast.walk(fi.node) if isinstance(n, ast.Assign) and norm(n.targets[0]) == 'x']
    if x:
        r = compare(x[0].value, 'p1[0] + (v[1] - p1[1]) * d[0] / d[1]')
        k = 'geometry.in_polygon :: crossing abscissa'
        if r == 'equal': run.ok(k, where=fi.where(x[0]))
        elif r == 'different': run.violated(k, 'x = %s' % norm(x[0].value), where=fi.where(x[0]))
        else: run.unknown(k, norm(x[0].value), where=fi.where(x[0]))
    ir = prog.func('geometry.in_rectangle')
    check_return(run, 'geometry.in_rectangle :: closed on both ends', ir, 'all([rect[0][i] <= pos[i] <= rect[1][i] for i in range(2)])',
                 'rectangle test is not closed at both ends in both coordinates')
    ce = prog.func('mulgrids.layer.contains_elevation')
    check_return(run, 'layer.contains_elevation :: closed on both ends', ce, 'self.bottom <= z <= self.top',
                 'layer elevation test is not bottom <= z <= top')


def rule_cacheinv(run):
    run.rule('CACHEINV', 'a value memoised from node positions (lazy `if self.A is None: self.A = ...`) is reset by every function that '
             'writes node positions (translate, rotate, optimisation, snapping)', floor=1)
    from .cacheinv import cacheinv_rule
    # memos that point / line location consults: anything kept on columns, nodes, the quadtree or by the search functions
    cacheinv_rule(run, 'mulgrids', only=lambda m: (m.cls is not None and m.cls.name in ('column', 'node', 'quadtree')) or
                  m.name in ('column_containing_point', 'column_track', 'block_name_containing_point', 'block_contains_point', 'column_quadtree'))


def rule_param(run):
    run.rule('PARAM', 'line_polygon_intersections solves for (position along the polygon edge, position along the line): the crossing point is '
             'built from the edge parameter, the edge parameter is the one tested to lie on the edge, and both ends of the line are '
             'tested on the line parameter - the roles are read off the columns of the 2x2 system', floor=3)
    prog = run.prog
    fi = prog.func('geometry.line_polygon_intersections')
    # xi = solve(A, b);  A = column_stack((E0, E1))
    sols = [(nm, v) for nm, v, st in roles.assignments(fi.node) if isinstance(v, ast.Call) and call_name(v) == 'solve' and len(v.args) == 2]
    if len(sols) != 1:
        run.unknown('line_polygon_intersections :: 2x2 system', 'solve() call not found exactly once', where=fi.where()); return
    X, sv = sols[0]
    A = sv.args[0]
    defs = dict((nm, v) for nm, v, st in roles.assignments(fi.node))
    if isinstance(A, ast.Name) and A.id in defs: A = defs[A.id]
    if not (isinstance(A, ast.Call) and call_name(A) == 'column_stack' and len(A.args) == 1 and isinstance(A.args[0], (ast.Tuple, ast.List)) and len(A.args[0].elts) == 2):
        run.unknown('line_polygon_intersections :: 2x2 system', 'matrix is not column_stack((a, b))', where=fi.where()); return
    cols = [norm(e) for e in A.args[0].elts]
    def comp_index(e):
        return e.slice.value if isinstance(e, ast.Subscript) and isinstance(e.value, ast.Name) and e.value.id == X and isinstance(e.slice, ast.Constant) \
            and isinstance(e.slice.value, int) else None
    # the crossing point: ... + X[k] * V  with V the direction in column k
    kedge = None
    for n in ast.walk(fi.node):
        if isinstance(n, ast.BinOp) and isinstance(n.op, ast.Mult):
            for a, b in ((n.left, n.right), (n.right, n.left)):
                k = comp_index(a)
                if k is not None and norm(b) in cols:
                    key = 'line_polygon_intersections :: crossing point = edge start + %s[k] * edge direction' % X
                    if cols[k] == norm(b): run.ok(key, {'component': k, 'direction': norm(b)}, where=fi.where(n)); kedge = k
                    else:
                        run.violated(key, 'the point is built from `%s`, but component %d multiplies `%s` in the system, not `%s`' % (norm(n), k, cols[k], norm(b)),
                                     where=fi.where(n), robust=True)
                        return
    if kedge is None:
        run.unknown('line_polygon_intersections :: crossing point', 'expression %s[k] * direction not found' % X, where=fi.where()); return
    kline = 1 - kedge
    # tests
    for n in ast.walk(fi.node):
        if isinstance(n, ast.If) and isinstance(n.test, ast.Subscript) and norm(n.test.value) == fi.params[2] and isinstance(n.test.slice, ast.Constant):
            end = n.test.slice.value
            used = sorted(set(comp_index(x) for x in ast.walk(ast.Module(body=n.body, type_ignores=[])) if comp_index(x) is not None))
            key = 'line_polygon_intersections :: end %d of the line is tested on the line parameter %s[%d]' % (end, X, kline)
            if used == [kline]: run.ok(key, where=fi.where(n))
            elif used:
                run.violated(key, 'the test for end %d of the line reads %s%s, the position along the polygon *edge*: a crossing beyond that end of the '
                             'line is accepted (and one on the line can be rejected), so column_track lists columns the line does not reach'
                             % (end, X, used), where=fi.where(n), robust=True)
            else: run.unknown(key, 'no component of %s tested' % X, where=fi.where(n))
    # the crossings are ordered by their distance from the start of the line, both in the same frame (the system is solved relative
    # to polygon[0]; the crossing points are turned back into absolute coordinates by adding it)
    ks = 'line_polygon_intersections :: crossings sorted by distance from the start of the line (same coordinate frame)'
    lineparam = fi.params[1]
    subs = [b for n in ast.walk(fi.node) if isinstance(n, ast.ListComp) for b in ast.walk(n.elt)
            if isinstance(b, ast.Call) and call_name(b) == 'norm' and b.args and isinstance(b.args[0], ast.BinOp) and isinstance(b.args[0].op, ast.Sub)
            and isinstance(b.args[0].left, ast.Name) and b.args[0].left.id in [x.id for x in ast.walk(n.generators[0].target) if isinstance(x, ast.Name)]]
    if len(subs) != 1: run.unknown(ks, 'distance comprehension not found', where=fi.where())
    else:
        origin = roles.inline_locals(subs[0].args[0].right, fi.node.body)
        refs = [nm for nm, v, st in roles.assignments(fi.node) if norm(v) == '%s[0]' % fi.params[0]]
        absolute_points = any(isinstance(b, ast.BinOp) and isinstance(b.op, ast.Add) and isinstance(b.left, ast.Name) and b.left.id in refs for b in ast.walk(fi.node))
        if norm(origin) == '%s[0]' % lineparam and absolute_points: run.ok(ks, norm(origin), where=fi.where(subs[0]))
        elif absolute_points and norm(origin) == '%s[1]' % lineparam:
            run.violated(ks, 'the crossings are ordered by their distance from the END of the line (`%s`): entry and exit of every column are swapped'
                         % norm(origin), where=fi.where(subs[0]), robust=True)
        elif absolute_points and isinstance(origin, ast.BinOp) and isinstance(origin.op, ast.Sub) and norm(origin.left) in ('%s[0]' % lineparam, '%s[1]' % lineparam) \
                and norm(origin.right) in refs + ['%s[0]' % fi.params[0]]:
            run.violated(ks, 'the crossing points are absolute coordinates but their distance is measured from `%s`, the start of the line relative to '
                         'polygon[0]: the order of entry and exit depends on where the polygon lies, and column_track swaps them'
                         % norm(subs[0].args[0].right), where=fi.where(subs[0]), robust=True)
        else: run.unknown(ks, 'origin `%s`' % norm(origin), where=fi.where(subs[0]))
    units = [c for c in ast.walk(fi.node) if isinstance(c, ast.Call) and call_name(c) == 'in_unit' and len(c.args) == 1 and comp_index(c.args[0]) is not None]
    key = 'line_polygon_intersections :: the edge parameter is tested to lie on the edge'
    if not units: run.unknown(key, 'in_unit(%s[k]) not found' % X, where=fi.where())
    elif all(comp_index(c.args[0]) == kedge for c in units): run.ok(key, where=fi.where(units[0]))
    else: run.violated(key, 'in_unit() is applied to %s[%d], the position along the line' % (X, kline), where=fi.where(units[0]), robust=True)


def _ancestors(pm, n):
    out = []
    while n in pm:
        n = pm[n]; out.append(n)
    return out


def check(run):
    run.guarded('PARAM', rule_param)
    run.guarded('CACHEINV', rule_cacheinv)
    run.guarded('DOM', rule_dom)
    run.guarded('HALFOPEN', rule_halfopen)
    run.guarded('PRED', lambda r: rule_pred(r, floor=2, only=('mulgrid.block_name_containing_point', 'mulgrid.block_contains_point')))
