"""C06 - history extraction terminates and leaves the reader unchanged.
Rules NONE, LOOPEXIT (evidence), RESTORE, FRAME, SIGN."""
import ast
from ..core import AnalysisError, norm, dotted, call_name, walk_no_nested, is_self_attr, parent_map
from .. import flow, roles
from .listing_common import binding, listing_effects, SIMS

LEVEL = 'other'
EXPLANATION = (
    "Decides the termination and frame clauses of C06 from the code: (NONE) every next_table_* "
    "variant can return None ('no more tables'); every consumer of that result must test it in the "
    "condition that governs re-calling it - a loop `while t != wanted` whose t comes from next_table "
    "cannot exit at end of file and is the exact shape of a hang; the same rule covers scanning loops "
    "that re-read a line until it matches (EOF ''); (RESTORE) history() saves the cursor to a local "
    "before its first write and re-assigns it on every path to a normal return after a write; (FRAME) "
    "the transitive write set of history(), resolved through the per-simulator binding, contains no "
    "cursor state other than _index and no table data; (SIGN) both reverse-key paths negate. Equality "
    "of the series with stepping is not decided.")


def returns_none(cls, mname, eff, _seen=None):
    """may the method return None / fall off the end?"""
    _seen = _seen or set()
    if mname in _seen: return False
    _seen.add(mname)
    fi = cls.methods[mname]

    class Nop(flow.Analysis):
        def join(self, a, b): return a
    out = flow.run(Nop(), fi.node.body, True)
    if out.fall is not None:
        return True
    for node, _ in out.rets:
        v = node.value
        if v is None or (isinstance(v, ast.Constant) and v.value is None):
            return True
        if isinstance(v, ast.Call) and isinstance(v.func, ast.Attribute) and is_self_attr(v.func):
            for t in eff.targets(v.func.attr):
                if returns_none(cls, t, eff, _seen): return True
    return False


def _tests_none(test, var):
    """does the condition become false (loop exits) when var is None?"""
    if isinstance(test, ast.Name) and test.id == var:
        return True
    if isinstance(test, ast.Compare) and isinstance(test.left, ast.Name) and test.left.id == var \
       and len(test.ops) == 1 and isinstance(test.ops[0], ast.IsNot) and \
       isinstance(test.comparators[0], ast.Constant) and test.comparators[0].value is None:
        return True
    if isinstance(test, ast.BoolOp) and isinstance(test.op, ast.And):
        return any(_tests_none(v, var) for v in test.values)
    if isinstance(test, ast.BoolOp) and isinstance(test.op, ast.Or):
        return all(_tests_none(v, var) for v in test.values)
    if isinstance(test, ast.UnaryOp) and isinstance(test.op, ast.Not):
        # not (var is None or ...)
        o = test.operand
        if isinstance(o, ast.BoolOp) and isinstance(o.op, ast.Or):
            return any(_is_none_test(v, var) for v in o.values)
        return _is_none_test(o, var)
    return False


def _is_none_test(t, var):
    """true exactly/at least when var is None"""
    if isinstance(t, ast.Compare) and isinstance(t.left, ast.Name) and t.left.id == var and len(t.ops) == 1 \
       and isinstance(t.ops[0], (ast.Is, ast.Eq)) and isinstance(t.comparators[0], ast.Constant) \
       and t.comparators[0].value is None:
        return True
    if isinstance(t, ast.UnaryOp) and isinstance(t.op, ast.Not) and isinstance(t.operand, ast.Name) \
       and t.operand.id == var:
        return True
    return False


def _exits(stmts):
    """does this statement list unconditionally leave the loop (break/return/raise)?"""
    for s in stmts:
        if isinstance(s, (ast.Break, ast.Return, ast.Raise)): return True
    return False


def rule_none(run):
    run.rule('NONE', "every consumer of a next_table result ('None' = no more tables) tests it in the "
             "condition governing the next call, so the scan cannot continue past the end of the results",
             floor=8)
    prog = run.prog
    cls = prog.cls('t2listing', 't2listing')
    eff = listing_effects(prog)
    family = sorted(m for m in cls.methods if m.startswith('next_table_'))
    if len(family) < 3:
        raise AnalysisError('next_table_* family has %d members (3 expected)' % len(family))
    nullable = dict((m, returns_none(cls, m, eff)) for m in family)
    run.notes.append('next_table family may return None: %s' % nullable)
    names = set(family) | set(['next_table'])
    for mname, fi in sorted(cls.methods.items()):
        pm = parent_map(fi.node)
        for n in walk_no_nested(fi.node):
            if not (isinstance(n, ast.Call) and isinstance(n.func, ast.Attribute) and
                    is_self_attr(n.func) and n.func.attr in names):
                continue
            targets = eff.targets(n.func.attr)
            if not any(nullable.get(t) for t in targets):
                run.ok('t2listing.%s :: %s' % (mname, norm(n)), 'callee never returns None', where=fi.where(n))
                continue
            key = 't2listing.%s :: %s' % (mname, norm(pm.get(n, n)))
            asg = pm.get(n)
            if not (isinstance(asg, ast.Assign) and len(asg.targets) == 1 and isinstance(asg.targets[0], ast.Name)):
                if isinstance(asg, ast.Return):
                    run.ok(key, 'result returned to the caller (checked at its consumers)', where=fi.where(n))
                else:
                    run.unknown(key, 'result of next_table not bound to a simple name', where=fi.where(n))
                continue
            var = asg.targets[0].id
            # nearest enclosing while loop
            p, loop = asg, None
            while p in pm:
                p = pm[p]
                if isinstance(p, ast.While): loop = p; break
                if isinstance(p, ast.For): loop = p; break
            if loop is None or isinstance(loop, ast.For):
                run.ok(key, 'not re-called in a while loop', where=fi.where(n)); continue
            if _tests_none(loop.test, var):
                run.ok(key, 'loop condition `%s` exits on None' % norm(loop.test), where=fi.where(n))
                continue
            # or: an `if var is None: break/return/raise` after the assignment in the same block
            handled = False
            holder = pm.get(asg)
            body = None
            for fld in ('body', 'orelse'):
                b = getattr(holder, fld, None)
                if isinstance(b, list) and asg in b: body = b
            if body:
                for s in body[body.index(asg) + 1:]:
                    if isinstance(s, ast.If) and _is_none_test(s.test, var) and _exits(s.body):
                        handled = True
                    if isinstance(s, ast.If) and _tests_none(s.test, var) and _exits(s.orelse):
                        handled = True
            if handled:
                run.ok(key, 'None tested right after the call, leaving the loop', where=fi.where(n))
            else:
                run.violated(key, "the result of %s may be None (end of the results) but the governing loop "
                             "`while %s` never becomes false for None: at end of file the call returns None "
                             "forever and the loop does not terminate" % (n.func.attr, norm(loop.test)),
                             where=fi.where(n))


def rule_loopexit(run):
    run.rule('LOOPEXIT', 'inventory of while loops of class t2listing and how each can exit (evidence only)')
    cls = run.prog.cls('t2listing', 't2listing')
    n = 0
    for mname, fi in sorted(cls.methods.items()):
        for w in walk_no_nested(fi.node):
            if isinstance(w, ast.While):
                n += 1
                test = norm(w.test)
                kind = 'data-invariant'
                if "== ''" in test or "!= ''" in test: kind = 'exits on EOF value'
                elif any(isinstance(x, ast.Return) for x in ast.walk(w)) or any(isinstance(x, ast.Break) for x in ast.walk(w)):
                    kind = 'has return/break exit'
                elif 'len(' in test or '<' in test or '>' in test: kind = 'monotone counter'
                run.ok('t2listing.%s :: while %s' % (mname, test[:80]), kind, where=fi.where(w))
    run.count('while_loops', n)


def rule_restore(run):
    run.rule('RESTORE', 'history() saves the cursor index in a local before its first write to it and '
             're-assigns it from that local on every path to a normal return after a write', floor=1)
    prog = run.prog
    cls = prog.cls('t2listing', 't2listing')
    fi = prog.func('t2listing.t2listing.history')
    eff = listing_effects(prog)
    CLEAN, DIRTY, RESTORED = 'clean', 'dirty', 'restored'

    def writers_of_index(call):
        if isinstance(call.func, ast.Attribute) and is_self_attr(call.func):
            for t in eff.targets(call.func.attr):
                if '_index' in eff.transitive(t)[1]: return True
        return False

    class A(flow.Analysis):
        saved = None

        def transfer(self, stmt, st):
            state, saved = st
            if isinstance(stmt, (ast.FunctionDef, ast.ExceptHandler, ast.With)): return st
            if isinstance(stmt, ast.Assign) and len(stmt.targets) == 1:
                t, v = stmt.targets[0], stmt.value
                if isinstance(t, ast.Name) and dotted(v) in ('self.index', 'self._index') and state == CLEAN:
                    return (state, t.id)
                if isinstance(t, ast.Name) and t.id == saved:
                    return (state, None)          # the save variable was overwritten
                if dotted(t) in ('self._index', 'self.index'):
                    if isinstance(v, ast.Name) and v.id == saved and dotted(t) == 'self._index':
                        return (RESTORED, saved)
                    if isinstance(v, ast.Name) and v.id == saved and dotted(t) == 'self.index':
                        return (RESTORED, saved)
                    return (DIRTY, saved)
            for n in [stmt] + list(walk_no_nested(stmt)):
                if isinstance(n, ast.Call) and writers_of_index(n):
                    state = DIRTY
                if isinstance(n, ast.AugAssign) and dotted(n.target) in ('self._index', 'self.index'):
                    state = DIRTY
            return (state, saved)

        def on_expr(self, e, st):
            return self.transfer(ast.Expr(value=e), st)

        def join(self, a, b):
            order = {CLEAN: 0, RESTORED: 1, DIRTY: 2}
            s = a[0] if order[a[0]] >= order[b[0]] else b[0]
            return (s, a[1] if a[1] == b[1] else None)

    out = flow.run(A(), fi.node.body, (CLEAN, None))
    exits = list(out.rets)
    if out.fall is not None: exits.append((fi.node, out.fall))
    nd = 0
    for node, st in exits:
        if st is None: continue
        key = 't2listing.history :: exit %s' % (norm(node)[:60] if isinstance(node, ast.Return) else 'fall-through')
        # several returns share text: add ordinal
        key += ' #%d' % nd; nd += 1
        if st[0] == DIRTY:
            run.violated(key, 'this exit is reached after the cursor index was changed (rewind / per-time '
                         'positioning) without re-assigning the saved index: the reader is left at another '
                         'result set than before the call', where=fi.where(node))
        else:
            run.ok(key, {'state': st[0], 'saved_in': st[1]}, where=fi.where(node))


def rule_frame(run):
    run.rule('FRAME', 'transitive write set of history() (through the per-simulator binding) contains no '
             'cursor state other than _index and no table data', floor=6)
    prog = run.prog
    for sim in SIMS:
        eff = listing_effects(prog, sim)
        R, W, C = eff.transitive('history')
        bad = sorted(w for w in W if w in ('_time', '_step', 'TABLEDATA', '_table', '_fullpos', 'fulltimes',
                                           'fullsteps', 'times', 'steps', '_pos', '_short', 'title',
                                           '_tablenames', 'skip_tables', 'DYNAMIC', '_table[]'))
        key = 't2listing.history :: %s' % sim
        if bad:
            culprits = sorted(m for m in C if set(eff.direct(m)[1]) & set(bad))
            run.violated(key, 'history() may write %s (via %s): the reader does not show the same time/tables '
                         'after the call' % (bad, culprits), where='t2listing.py (t2listing.history)')
        else:
            run.ok(key, {'write_set': sorted(W), 'methods_reached': len(C)})


class SelRoles(object):
    """The local variables of history()/ordered_selection, found by what they are assigned from
    (never by name): reversed key, reverse flag, converted list, full/short line index, per-table lists."""

    def __init__(self, prog):
        self.hi = hi = prog.func('t2listing.t2listing.history')
        # the nested helper is the one called with self.short_indices
        self.osel = osel = None
        call = None
        for n in walk_no_nested(hi.node):
            if isinstance(n, ast.Call) and isinstance(n.func, ast.Name) and \
               any(is_self_attr(a, 'short_indices') for a in n.args):
                call = n
        if call is None: raise AnalysisError('history(): call of the selection-ordering helper (gets self.short_indices) not found')
        self.osel = osel = prog.nested(hi, call.func.id)
        params = roles.param_names(osel.node)
        self.p_short_indices = params[[i for i, a in enumerate(call.args) if is_self_attr(a, 'short_indices')][0]]
        on = osel.node
        self.revkey = roles.one_local(on, roles.is_reversed_slice, 'reversed key (X[::-1])', nested=True)
        # the If testing `revkey in ...`
        self.rev_ifs = [n for n in ast.walk(on) if isinstance(n, ast.If) and isinstance(n.test, ast.Compare) and
                        isinstance(n.test.left, ast.Name) and n.test.left.id == self.revkey and isinstance(n.test.ops[0], ast.In)]
        if len(self.rev_ifs) != 1: raise AnalysisError('`if <reversed key> in ...` not found exactly once in the helper')
        inside = set(id(x) for st in self.rev_ifs[0].body for x in ast.walk(st))
        flags = []
        for name, v, st in roles.assignments(on, nested=True):
            if id(st) in inside and isinstance(v, ast.Constant) and v.value is True and name not in flags: flags.append(name)
        if len(flags) != 1: raise AnalysisError('reverse flag: exactly one variable set True in the reversed-key branch expected, found %s' % flags)
        self.flag = flags[0]
        self.inside_rev = inside
        # the converted list: receives append((..., flag, ...))
        apps = [n for n in ast.walk(on) if isinstance(n, ast.Call) and call_name(n) == 'append' and n.args and
                isinstance(n.args[0], ast.Tuple) and any(isinstance(e, ast.Name) and e.id == self.flag for e in n.args[0].elts)
                and isinstance(n.func.value, ast.Name)]
        if len(apps) != 1: raise AnalysisError('append of the converted selection item (a tuple carrying the reverse flag) not found exactly once')
        self.app = apps[0]
        self.conv = apps[0].func.value.id
        self.item = [e.id if isinstance(e, ast.Name) else None for e in apps[0].args[0].elts]
        self.p_flag = self.item.index(self.flag)
        # full line index: assigned from <...>._row[...] ; short line index: from the short_indices parameter
        full = roles.locals_where(on, lambda v: isinstance(v, ast.Subscript) and isinstance(v.value, ast.Attribute) and v.value.attr == '_row', nested=True)
        short = roles.locals_where(on, lambda v: isinstance(v, ast.Subscript) and self.p_short_indices in roles.names_in(v.value), nested=True)
        full = [x for x in full if x in self.item]; short = [x for x in short if x in self.item]
        if len(full) != 1 or len(short) != 1 or full == short:
            raise AnalysisError('full/short line index of the item not identified (%s / %s)' % (full, short))
        self.p_full, self.p_short = self.item.index(full[0]), self.item.index(short[0])
        # the conversion loop
        self.loop = None
        for n in walk_no_nested(on):
            if isinstance(n, ast.For) and any(x is self.app for x in ast.walk(n)): self.loop = n; break
        # per-table lists: history() picks `S if is_short else F` where is_short comes from self._short[...]
        shortflag = roles.locals_where(hi.node, lambda v: isinstance(v, ast.Subscript) and is_self_attr(v.value, '_short'))
        pick = [n for n in walk_no_nested(hi.node) if isinstance(n, ast.IfExp) and isinstance(n.test, ast.Name) and n.test.id in shortflag
                and isinstance(n.body, ast.Name) and isinstance(n.orelse, ast.Name)]
        if len(pick) != 1: raise AnalysisError('history(): `<short list> if <is short> else <full list>` not found exactly once')
        S, F = pick[0].body.id, pick[0].orelse.id
        self.pick = pick[0]
        pos = None
        for n in walk_no_nested(hi.node):
            if isinstance(n, ast.For) and isinstance(n.target, ast.Tuple):
                tn = [e.id if isinstance(e, ast.Name) else None for e in n.target.elts]
                if S in tn and F in tn: pos = (tn.index(F), tn.index(S))
        if pos is None: raise AnalysisError('history(): loop unpacking the per-table selection lists not found')
        # helper side: the returned list receives append((table, F, S))
        rets = [r.value.id for r in ast.walk(on) if isinstance(r, ast.Return) and isinstance(r.value, ast.Name)]
        self.list_full = self.list_short = None
        for n in ast.walk(on):
            if isinstance(n, ast.Call) and call_name(n) == 'append' and isinstance(n.func.value, ast.Name) and n.func.value.id in rets \
               and n.args and isinstance(n.args[0], ast.Tuple) and len(n.args[0].elts) > max(pos):
                e = n.args[0].elts
                if isinstance(e[pos[0]], ast.Name) and isinstance(e[pos[1]], ast.Name):
                    self.list_full, self.list_short = e[pos[0]].id, e[pos[1]].id
        if self.list_full is None: raise AnalysisError('helper: append of (table, full list, short list) to the returned list not found')


def rule_sign(run):
    run.rule('SIGN', 'both lookup paths that accept a reversed connection key negate the values', floor=2)
    prog = run.prog
    # (a) listingtable.__getitem__
    gi = prog.func('t2listing.listingtable.__getitem__')
    key = 'listingtable.__getitem__ :: reversed key negates'
    rk = roles.locals_where(gi.node, roles.is_reversed_slice)
    found = False
    for n in walk_no_nested(gi.node):
        if isinstance(n, ast.If) and isinstance(n.test, ast.Compare) and isinstance(n.test.left, ast.Name) \
           and n.test.left.id in rk and isinstance(n.test.ops[0], ast.In):
            found = True
            rets = [r for r in ast.walk(ast.Module(body=n.body, type_ignores=[])) if isinstance(r, ast.Return)]
            neg = False
            for r in rets:
                for x in ast.walk(r):
                    if isinstance(x, ast.UnaryOp) and isinstance(x.op, ast.USub) and \
                       any(is_self_attr(y, '_data') for y in ast.walk(x.operand)):
                        neg = True
            if not rets: run.unknown(key, 'no return in the reversed-key branch', where=gi.where(n))
            else:
                run.check(neg, key, 'the row returned for a reversed connection key is not negated (-self._data[...])',
                          where=gi.where(n))
    if not found:
        run.unknown(key, '`if <key[::-1]> in self.row_name` not found', where=gi.where())
    # (b) history: reverse flag set where the reversed key matched, consumed as a sign
    R = SelRoles(prog)
    hi, osel = R.hi, R.osel
    # every other assignment of the flag is a constant False
    others = [(v, st) for name, v, st in roles.assignments(osel.node, nested=True) if name == R.flag and id(st) not in R.inside_rev]
    nonfalse = [st for v, st in others if not (isinstance(v, ast.Constant) and v.value is False)]
    key = 'history.ordered_selection :: reverse flag'
    if not others: run.violated(key, 'the reverse flag `%s` has no default (False) outside the reversed-key branch' % R.flag, where=osel.where())
    elif nonfalse:
        if all(isinstance(v, ast.Constant) for v, st in others):
            run.violated(key, 'the reverse flag `%s` is set to a value other than False outside the reversed-key branch' % R.flag,
                         where=osel.where(nonfalse[0]))
        else: run.unknown(key, 'reverse flag assigned a non-constant value', where=osel.where(nonfalse[0]))
    else: run.ok(key, 'flag `%s`: True only where the reversed key matched, False otherwise' % R.flag, where=osel.where())
    # tuple positions: flag position in the item -> position in the per-table tuples
    comp_bad, comp_unknown = [], []
    out_pos = set()
    ncomp = 0
    for n in ast.walk(osel.node):
        if isinstance(n, ast.ListComp) and isinstance(n.elt, ast.Tuple) and len(n.generators) == 1 and \
           isinstance(n.generators[0].iter, ast.Name) and n.generators[0].iter.id == R.conv and isinstance(n.generators[0].target, ast.Tuple):
            ncomp += 1
            tn = [e.id if isinstance(e, ast.Name) else None for e in n.generators[0].target.elts]
            if len(tn) != len(R.item): comp_bad.append('unpacks %d of %d item fields' % (len(tn), len(R.item))); continue
            rv = tn[R.p_flag]
            en = [e.id if isinstance(e, ast.Name) else None for e in n.elt.elts]
            if rv is not None and en.count(rv) == 1: out_pos.add(en.index(rv))
            elif None in en: comp_unknown.append('non-name element in the per-table tuple')
            else: comp_bad.append('the flag (field %d of the item) is not passed on' % R.p_flag)
    key = 'history.ordered_selection :: reverse flag position'
    if ncomp < 2 or comp_unknown: run.unknown(key, 'per-table comprehensions over `%s` not recognised (%d found) %s' % (R.conv, ncomp, comp_unknown), where=osel.where())
    elif comp_bad or len(out_pos) != 1:
        run.violated(key, 'the reverse flag does not travel at a consistent tuple position from the converted item to the '
                     'table selections: %s' % (comp_bad or sorted(out_pos)), where=osel.where())
    else: run.ok(key, 'item field %d -> table tuple field %d' % (R.p_flag, list(out_pos)[0]), where=osel.where())
    # consumption
    key = 'history :: reverse flag consumed as sign'
    consumed, seen_loop = False, False
    for n in walk_no_nested(hi.node):
        if isinstance(n, ast.For) and isinstance(n.target, ast.Tuple) and len(out_pos) == 1 and isinstance(n.iter, ast.Name) and \
           any(x is R.pick for x in ast.walk(hi.node)) and n.iter.id in [nm for nm, v, st in roles.assignments(hi.node) if v is R.pick]:
            seen_loop = True
            tn = [e.id if isinstance(e, ast.Name) else None for e in n.target.elts]
            p = list(out_pos)[0]
            if p < len(tn) and tn[p] is not None:
                flag = tn[p]
                sgnvar = None
                def is_sign(v):
                    # `-1. if flag else 1.` (the selector [1., -1.][flag] arrives in this form: N11)
                    if isinstance(v, ast.IfExp) and isinstance(v.test, ast.Name) and v.test.id == flag:
                        try: return [ast.literal_eval(v.orelse), ast.literal_eval(v.body)] == [1.0, -1.0]
                        except Exception: return False
                    return False
                for s_ in ast.walk(n):
                    if isinstance(s_, ast.Assign) and isinstance(s_.targets[0], ast.Name) and is_sign(s_.value):
                        sgnvar = s_.targets[0].id
                for s_ in ast.walk(n):
                    if isinstance(s_, ast.Call) and call_name(s_) == 'append' and s_.args and sgnvar:
                        a_ = s_.args[0]
                        if isinstance(a_, ast.BinOp) and isinstance(a_.op, ast.Mult) and \
                           any(isinstance(x, ast.Name) and x.id == sgnvar for x in (a_.left, a_.right)):
                            consumed = True
                for s_ in ast.walk(n):
                    # sign used in place: append((-1. if flag else 1.) * value), or append(-value if flag else value)
                    if isinstance(s_, ast.Call) and call_name(s_) == 'append' and s_.args:
                        a_ = s_.args[0]
                        if isinstance(a_, ast.BinOp) and isinstance(a_.op, ast.Mult) and any(is_sign(x) for x in (a_.left, a_.right)): consumed = True
                        if isinstance(a_, ast.IfExp) and isinstance(a_.test, ast.Name) and a_.test.id == flag and isinstance(a_.body, ast.UnaryOp) and \
                           isinstance(a_.body.op, ast.USub) and norm(a_.body.operand) == norm(a_.orelse): consumed = True
    if not seen_loop: run.unknown(key, 'loop over the chosen per-table list not found', where=hi.where())
    else:
        run.check(consumed, key, 'the value appended to the history is not multiplied by [1,-1][<reverse flag>]', where=hi.where())


def rule_selection(run):
    run.rule('SELORDER', 'history.ordered_selection: every value put into a converted selection item is assigned within the same '
             'loop iteration on every path (no flag carried over from the previous item), and each per-table selection list is '
             'sorted by the line index its sequential reader advances on (full-table row for full output, short-table line for '
             'short output)', floor=3)
    prog = run.prog
    R = SelRoles(prog)
    hi, osel = R.hi, R.osel
    key = 'history.ordered_selection :: selection item built from values assigned in the same iteration'
    if R.loop is None:
        run.unknown(key, 'conversion loop not found', where=osel.where())
    else:
        lp = R.loop
        stmt = None
        for st in ast.walk(lp):
            if isinstance(st, ast.Expr) and st.value is R.app: stmt = st
        da = flow.DefAssign()
        targets = set()
        flow.DefAssign.targets(lp.target, targets)

        class Probe(flow.Analysis):
            states = []
            def transfer(self, st, s):
                if st is stmt: Probe.states.append(s)
                return da.transfer(st, s)
            def loop_head(self, n, s): return da.loop_head(n, s)
            def join(self, a, b): return da.join(a, b)
        Probe.states = []
        flow.run(Probe(), lp.body, frozenset(targets))
        assigned = None
        for s_ in Probe.states: assigned = s_ if assigned is None else (assigned & s_)
        names = [e for e in R.item if e is not None]
        outer = set(roles.param_names(osel.node))
        stale = [n for n in names if assigned is not None and n not in assigned and n not in outer]
        if assigned is None: run.unknown(key, 'append not reached', where=osel.where(lp))
        elif stale:
            run.violated(key, '%s can reach the appended item without having been assigned in this iteration: the value left by the previous '
                         'selection item is used (a row given by integer index inherits the reversed-name flag of the item before it and '
                         'comes back negated)' % stale, where=osel.where(R.app))
        else: run.ok(key, names, where=osel.where(R.app))
    # sortedness of the per-table lists
    conv_sorted = any(isinstance(c, ast.Call) and call_name(c) == 'sort' and isinstance(c.func.value, ast.Name) and c.func.value.id == R.conv
                      for c in ast.walk(osel.node))
    for role, lst, want_pos, other_pos in (('full-output list', R.list_full, R.p_full, R.p_short),
                                           ('short-output list', R.list_short, R.p_short, R.p_full)):
        key = 'history.ordered_selection :: %s ordered by its own line index' % role
        asg = [v for n, v, st in roles.assignments(osel.node, nested=True) if n == lst]
        if len(asg) != 1 or not isinstance(asg[0], (ast.ListComp, ast.Call)):
            run.unknown(key, 'construction of `%s` not found' % lst, where=osel.where()); continue
        v = asg[0]
        wrapped = isinstance(v, ast.Call) and call_name(v) == 'sorted'
        comp = v.args[0] if wrapped and v.args else v
        if not (isinstance(comp, ast.ListComp) and isinstance(comp.elt, ast.Tuple) and isinstance(comp.generators[0].target, ast.Tuple)
                and isinstance(comp.generators[0].iter, ast.Name) and comp.generators[0].iter.id == R.conv
                and isinstance(comp.elt.elts[0], ast.Name)):
            run.unknown(key, 'construction of `%s` is not a comprehension of tuples over `%s`' % (lst, R.conv), where=osel.where(v)); continue
        own = wrapped or any(isinstance(c, ast.Call) and call_name(c) == 'sort' and isinstance(c.func.value, ast.Name) and c.func.value.id == lst
                             for c in ast.walk(osel.node))
        tgt = [e.id if isinstance(e, ast.Name) else None for e in comp.generators[0].target.elts]
        lead = comp.elt.elts[0].id
        lead_pos = tgt.index(lead) if lead in tgt and len(tgt) == len(R.item) else None
        inherited = conv_sorted and lead_pos == 1 and want_pos == 1      # the converted list sorted by (table, full index, ...)
        if lead_pos is None:
            run.unknown(key, 'leading element `%s` is not a field of the converted item' % lead, where=osel.where(v))
        elif lead_pos == other_pos:
            run.violated(key, 'the %s leads with the %s line index (item field %d), but its reader advances on item field %d'
                         % (role, 'short' if other_pos == R.p_short else 'full', lead_pos, want_pos), where=osel.where(v))
        elif lead_pos != want_pos:
            run.unknown(key, 'leads with item field %d, which is neither line index' % lead_pos, where=osel.where(v))
        elif own or inherited: run.ok(key, 'sorted' if own else 'inherits the order of the converted list', where=osel.where(v))
        else:
            run.violated(key, '`%s` is never sorted by its line index: history() reads each table forwards only, so an item whose line lies before the '
                         'previous item\'s re-uses the line already read and returns the wrong row' % lst, where=osel.where(v))


def _dup_policy(fn, is_target):
    """how a scan that may meet the same row twice keeps it: 'last' (plain keyed store, overwriting), 'first' (setdefault or a
    store guarded by a membership test), None (cannot tell).  is_target(expr) says whether expr is the keyed container."""
    pm = parent_map(fn)
    pol = set()
    for n in walk_no_nested(fn):
        if isinstance(n, ast.Assign) and len(n.targets) == 1 and isinstance(n.targets[0], ast.Subscript) and is_target(n.targets[0].value) \
           and not isinstance(n.targets[0].slice, ast.Slice):
            guarded, p = False, pm.get(n)
            while p is not None and not isinstance(p, (ast.For, ast.While, ast.FunctionDef)):
                if isinstance(p, ast.If) and any(isinstance(c, ast.Compare) and any(isinstance(o, (ast.In, ast.NotIn)) for o in c.ops) and
                                                 any(is_target(x) for x in c.comparators) for c in ast.walk(p.test)):
                    guarded = True
                p = pm.get(p)
            pol.add('first' if guarded else 'last')
        if isinstance(n, ast.Call) and isinstance(n.func, ast.Attribute) and n.func.attr == 'setdefault' and is_target(n.func.value):
            pol.add('first')
    return pol.pop() if len(pol) == 1 else None


def rule_duprow(run):
    run.rule('DUPROW', 'a row printed more than once in a table (TOUGH2_MP prints border rows once per processor) is resolved the same '
             'way by the line index history() seeks with and by the table reader used when stepping: both keep the last copy', floor=1)
    prog = run.prog
    st = prog.func('t2listing.t2listing.setup_table_TOUGH2')
    rt = prog.func('t2listing.t2listing.read_table_TOUGH2')
    # the row dictionary: a local bound to {} from which the per-row line numbers are later taken
    dicts = roles.locals_where(st.node, lambda v: isinstance(v, ast.Dict) and not v.keys)
    dicts = [d for d in dicts if any(isinstance(n, ast.Subscript) and isinstance(n.value, ast.Subscript) and isinstance(n.value.value, ast.Name)
                                     and n.value.value.id == d and isinstance(n.ctx, ast.Load) for n in ast.walk(st.node))]
    key = 't2listing :: duplicate rows: setup_table_TOUGH2 (line index) vs read_table_TOUGH2 (values)'
    if len(dicts) != 1:
        run.unknown(key, 'role "row dictionary of setup_table_TOUGH2": %s' % (dicts or 'not found'), where=st.where()); return
    p1 = _dup_policy(st.node, lambda e: isinstance(e, ast.Name) and e.id == dicts[0])
    tabs = roles.locals_where(rt.node, lambda v: isinstance(v, ast.Subscript) and norm(v.value) == 'self._table')
    p2 = _dup_policy(rt.node, lambda e: (isinstance(e, ast.Name) and e.id in tabs) or
                     (isinstance(e, ast.Subscript) and norm(e.value) == 'self._table'))
    if p1 is None or p2 is None:
        run.unknown(key, 'policy not recognised (line index: %s, values: %s)' % (p1, p2), where=st.where()); return
    if p1 != p2:
        run.violated(key, 'the line index keeps the %s copy of a repeated row, the table reader the %s copy: where the copies differ, '
                     'history() returns a value that stepping through the results does not show' % (p1, p2), where=st.where(), robust=True)
    else: run.ok(key, {'line_index': p1, 'values': p2}, where=st.where())


def rule_tplusnav(run):
    run.rule('TPLUSNAV', 'history() moves from the table it has just read to the next selected one with skip_to_table_TOUGHplus: for every '
             'order of TOUGH+ tables in a result set, every table just read and every later target, the function - interpreted on a '
             'model listing - stops at the target table (the numbered element tables are told apart by counting the element tables up to '
             'and including the one just read)', floor=20)
    from ..consteval import Interp, Obj, Raised
    prog = run.prog
    fi = prog.func('t2listing.t2listing.skip_to_table_TOUGHplus')
    layouts = (['element', 'element1', 'connection', 'primary', 'element2'], ['element', 'connection', 'primary'],
               ['element', 'element1', 'element2', 'connection'], ['element', 'connection', 'element1', 'element2', 'primary'])
    raw = lambda t: 'element' if t.startswith('element') else t
    for names in layouts:
        for li in range(-1, len(names) - 1):
            last = None if li < 0 else names[li]
            for ti in range(li + 1, len(names)):
                if li == ti: continue
                target = names[ti]
                key = 'skip_to_table_TOUGHplus :: tables %s, after %s to %s' % ('/'.join(names), last, target)
                cursor = {'i': li}          # index of the table whose rows the reader is in (-1: before the first header)
                me = Obj()
                me.attrs['_tablenames'] = list(names)
                def next_table():
                    cursor['i'] += 1
                    return raw(names[cursor['i']]) if cursor['i'] < len(names) else None
                me.attrs['__methods__'] = {'skipto': lambda *a, **k: None, 'skip_to_nonblank': lambda *a, **k: None,
                                           'next_table_TOUGHplus': next_table}
                if last is None: cursor['i'] = 0      # the preamble positions the reader at the first (element) table
                try:
                    Interp({}, max_steps=20000).call_function(fi.node, [me, target, last, -1])
                    if cursor['i'] == ti: run.ok(key, where=fi.where())
                    else:
                        run.violated(key, 'the function stops at table %s (position %d), not at %s' % (names[min(cursor['i'], len(names) - 1)], cursor['i'], target),
                                     where=fi.where(), robust=True)
                except Raised as e:
                    run.violated(key, 'the target table is present but the function raises `%s`: the numbered element tables after the one just read '
                                 'are given the wrong number, so the target name never matches' % e.what, where=fi.where(), robust=True)
                except AnalysisError as e:
                    run.unknown(key, 'left the constant-evaluation whitelist: %s' % e, where=fi.where())


def rule_timepair(run):
    run.rule('TIMEPAIR', 'each series is paired with the time array of its own length: the selector between the short-output and the '
             'full-output times is decided per series, by the length of that series', floor=1)
    prog = run.prog
    hi = prog.func('t2listing.t2listing.history')
    key = 't2listing.history :: times chosen by the length of the series they are paired with'
    found = 0
    for lc in [n for n in walk_no_nested(hi.node) if isinstance(n, (ast.ListComp, ast.For))]:
        gens = lc.generators if isinstance(lc, ast.ListComp) else [lc]
        for g in gens:
            it = g.iter
            if isinstance(it, ast.Call) and call_name(it) == 'enumerate' and it.args: it = it.args[0]
            if not isinstance(it, ast.Name): continue
            elts = [x.id for x in ast.walk(g.target) if isinstance(x, ast.Name)]
            body = lc.elt if isinstance(lc, ast.ListComp) else ast.Module(body=lc.body, type_ignores=[])
            lens = [c for c in ast.walk(body) if isinstance(c, ast.Call) and call_name(c) == 'len' and c.args and isinstance(c.args[0], ast.Name)
                    and any('num_fulltimes' in norm(p) for p in [pp for pp in ast.walk(body) if isinstance(pp, ast.Compare) and c in list(ast.walk(pp))])]
            for c in lens:
                found += 1
                if c.args[0].id in elts: run.ok(key, norm(c), where=hi.where(c))
                elif c.args[0].id == it.id:
                    run.violated(key, '`%s` is the number of selected items, not the length of the series `%s` being paired: a series without short-output '
                                 'values is paired with all times (and the other way round when the number of items happens to equal the number of '
                                 'full results)' % (norm(c), elts[-1] if elts else '?'), where=hi.where(c), robust=True)
                else: run.unknown(key, 'length of `%s`' % c.args[0].id, where=hi.where(c))
    if not found: run.unknown(key, 'selector not found', where=hi.where())


def check(run):
    run.guarded('DUPROW', rule_duprow)
    run.guarded('TIMEPAIR', rule_timepair)
    run.guarded('TPLUSNAV', rule_tplusnav)
    run.guarded('NONE', rule_none)
    run.guarded('LOOPEXIT', rule_loopexit)
    run.guarded('RESTORE', rule_restore)
    run.guarded('FRAME', rule_frame)
    run.guarded('SIGN', rule_sign)
    run.guarded('SELORDER', rule_selection)
