"""C06 - history extraction terminates and leaves the reader unchanged.
Rules NONE, LOOPEXIT (evidence), RESTORE, FRAME, SIGN."""
import ast
from ..core import AnalysisError, norm, dotted, call_name, walk_no_nested, is_self_attr, parent_map
from .. import flow
from .listing_common import binding, listing_effects, SIMS

LEVEL = 'other'
EXPLANATION = (
    "Decides the termination and frame clauses of C06 from the code: (NONE) every next_table_* "
    "variant can return None ('no more tables'); every consumer of that result must test it in the "
    "condition that governs re-calling it - a loop `while t != wanted` whose t comes from next_table "
    "cannot exit at end of file and is the exact shape of a hang; the same rule covers scanning loops "
    "that re-read a line until it matches (EOF ''); (RESTORE) history() saves the cursor to a local "
    "before its first write and re-assigns it on every path to a normal return after a write; (FRAME) "
    "the transitive write set of history(), resolved through the per-simulator binding, contains no "
    "cursor state other than _index and no table data; (SIGN) both reverse-key paths negate. Equality "
    "of the series with stepping is not decided.")


def returns_none(cls, mname, eff, _seen=None):
    """may the method return None / fall off the end?"""
    _seen = _seen or set()
    if mname in _seen: return False
    _seen.add(mname)
    fi = cls.methods[mname]

    class Nop(flow.Analysis):
        def join(self, a, b): return a
    out = flow.run(Nop(), fi.node.body, True)
    if out.fall is not None:
        return True
    for node, _ in out.rets:
        v = node.value
        if v is None or (isinstance(v, ast.Constant) and v.value is None):
            return True
        if isinstance(v, ast.Call) and isinstance(v.func, ast.Attribute) and is_self_attr(v.func):
            for t in eff.targets(v.func.attr):
                if returns_none(cls, t, eff, _seen): return True
    return False


def _tests_none(test, var):
    """does the condition become false (loop exits) when var is None?"""
    if isinstance(test, ast.Name) and test.id == var:
        return True
    if isinstance(test, ast.Compare) and isinstance(test.left, ast.Name) and test.left.id == var \
       and len(test.ops) == 1 and isinstance(test.ops[0], ast.IsNot) and \
       isinstance(test.comparators[0], ast.Constant) and test.comparators[0].value is None:
        return True
    if isinstance(test, ast.BoolOp) and isinstance(test.op, ast.And):
        return any(_tests_none(v, var) for v in test.values)
    if isinstance(test, ast.BoolOp) and isinstance(test.op, ast.Or):
        return all(_tests_none(v, var) for v in test.values)
    if isinstance(test, ast.UnaryOp) and isinstance(test.op, ast.Not):
        # not (var is None or ...)
        o = test.operand
        if isinstance(o, ast.BoolOp) and isinstance(o.op, ast.Or):
            return any(_is_none_test(v, var) for v in o.values)
        return _is_none_test(o, var)
    return False


def _is_none_test(t, var):
    """true exactly/at least when var is None"""
    if isinstance(t, ast.Compare) and isinstance(t.left, ast.Name) and t.left.id == var and len(t.ops) == 1 \
       and isinstance(t.ops[0], (ast.Is, ast.Eq)) and isinstance(t.comparators[0], ast.Constant) \
       and t.comparators[0].value is None:
        return True
    if isinstance(t, ast.UnaryOp) and isinstance(t.op, ast.Not) and isinstance(t.operand, ast.Name) \
       and t.operand.id == var:
        return True
    return False


def _exits(stmts):
    """does this statement list unconditionally leave the loop (break/return/raise)?"""
    for s in stmts:
        if isinstance(s, (ast.Break, ast.Return, ast.Raise)): return True
    return False


def rule_none(run):
    run.rule('NONE', "every consumer of a next_table result ('None' = no more tables) tests it in the "
             "condition governing the next call, so the scan cannot continue past the end of the results",
             floor=8)
    prog = run.prog
    cls = prog.cls('t2listing', 't2listing')
    eff = listing_effects(prog)
    family = sorted(m for m in cls.methods if m.startswith('next_table_'))
    if len(family) < 3:
        raise AnalysisError('next_table_* family has %d members (3 expected)' % len(family))
    nullable = dict((m, returns_none(cls, m, eff)) for m in family)
    run.notes.append('next_table family may return None: %s' % nullable)
    names = set(family) | set(['next_table'])
    for mname, fi in sorted(cls.methods.items()):
        pm = parent_map(fi.node)
        for n in walk_no_nested(fi.node):
            if not (isinstance(n, ast.Call) and isinstance(n.func, ast.Attribute) and
                    is_self_attr(n.func) and n.func.attr in names):
                continue
            targets = eff.targets(n.func.attr)
            if not any(nullable.get(t) for t in targets):
                run.ok('t2listing.%s :: %s' % (mname, norm(n)), 'callee never returns None', where=fi.where(n))
                continue
            key = 't2listing.%s :: %s' % (mname, norm(pm.get(n, n)))
            asg = pm.get(n)
            if not (isinstance(asg, ast.Assign) and len(asg.targets) == 1 and isinstance(asg.targets[0], ast.Name)):
                if isinstance(asg, ast.Return):
                    run.ok(key, 'result returned to the caller (checked at its consumers)', where=fi.where(n))
                else:
                    run.unknown(key, 'result of next_table not bound to a simple name', where=fi.where(n))
                continue
            var = asg.targets[0].id
            # nearest enclosing while loop
            p, loop = asg, None
            while p in pm:
                p = pm[p]
                if isinstance(p, ast.While): loop = p; break
                if isinstance(p, ast.For): loop = p; break
            if loop is None or isinstance(loop, ast.For):
                run.ok(key, 'not re-called in a while loop', where=fi.where(n)); continue
            if _tests_none(loop.test, var):
                run.ok(key, 'loop condition `%s` exits on None' % norm(loop.test), where=fi.where(n))
                continue
            # or: an `if var is None: break/return/raise` after the assignment in the same block
            handled = False
            holder = pm.get(asg)
            body = None
            for fld in ('body', 'orelse'):
                b = getattr(holder, fld, None)
                if isinstance(b, list) and asg in b: body = b
            if body:
                for s in body[body.index(asg) + 1:]:
                    if isinstance(s, ast.If) and _is_none_test(s.test, var) and _exits(s.body):
                        handled = True
                    if isinstance(s, ast.If) and _tests_none(s.test, var) and _exits(s.orelse):
                        handled = True
            if handled:
                run.ok(key, 'None tested right after the call, leaving the loop', where=fi.where(n))
            else:
                run.violated(key, "the result of %s may be None (end of the results) but the governing loop "
                             "`while %s` never becomes false for None: at end of file the call returns None "
                             "forever and the loop does not terminate" % (n.func.attr, norm(loop.test)),
                             where=fi.where(n))


def rule_loopexit(run):
    run.rule('LOOPEXIT', 'inventory of while loops of class t2listing and how each can exit (evidence only)')
    cls = run.prog.cls('t2listing', 't2listing')
    n = 0
    for mname, fi in sorted(cls.methods.items()):
        for w in walk_no_nested(fi.node):
            if isinstance(w, ast.While):
                n += 1
                test = norm(w.test)
                kind = 'data-invariant'
                if "== ''" in test or "!= ''" in test: kind = 'exits on EOF value'
                elif any(isinstance(x, ast.Return) for x in ast.walk(w)) or any(isinstance(x, ast.Break) for x in ast.walk(w)):
                    kind = 'has return/break exit'
                elif 'len(' in test or '<' in test or '>' in test: kind = 'monotone counter'
                run.ok('t2listing.%s :: while %s' % (mname, test[:80]), kind, where=fi.where(w))
    run.count('while_loops', n)


def rule_restore(run):
    run.rule('RESTORE', 'history() saves the cursor index in a local before its first write to it and '
             're-assigns it from that local on every path to a normal return after a write', floor=1)
    prog = run.prog
    cls = prog.cls('t2listing', 't2listing')
    fi = prog.func('t2listing.t2listing.history')
    eff = listing_effects(prog)
    CLEAN, DIRTY, RESTORED = 'clean', 'dirty', 'restored'

    def writers_of_index(call):
        if isinstance(call.func, ast.Attribute) and is_self_attr(call.func):
            for t in eff.targets(call.func.attr):
                if '_index' in eff.transitive(t)[1]: return True
        return False

    class A(flow.Analysis):
        saved = None

        def transfer(self, stmt, st):
            state, saved = st
            if isinstance(stmt, (ast.FunctionDef, ast.ExceptHandler, ast.With)): return st
            if isinstance(stmt, ast.Assign) and len(stmt.targets) == 1:
                t, v = stmt.targets[0], stmt.value
                if isinstance(t, ast.Name) and dotted(v) in ('self.index', 'self._index') and state == CLEAN:
                    return (state, t.id)
                if isinstance(t, ast.Name) and t.id == saved:
                    return (state, None)          # the save variable was overwritten
                if dotted(t) in ('self._index', 'self.index'):
                    if isinstance(v, ast.Name) and v.id == saved and dotted(t) == 'self._index':
                        return (RESTORED, saved)
                    if isinstance(v, ast.Name) and v.id == saved and dotted(t) == 'self.index':
                        return (RESTORED, saved)
                    return (DIRTY, saved)
            for n in [stmt] + list(walk_no_nested(stmt)):
                if isinstance(n, ast.Call) and writers_of_index(n):
                    state = DIRTY
                if isinstance(n, ast.AugAssign) and dotted(n.target) in ('self._index', 'self.index'):
                    state = DIRTY
            return (state, saved)

        def on_expr(self, e, st):
            return self.transfer(ast.Expr(value=e), st)

        def join(self, a, b):
            order = {CLEAN: 0, RESTORED: 1, DIRTY: 2}
            s = a[0] if order[a[0]] >= order[b[0]] else b[0]
            return (s, a[1] if a[1] == b[1] else None)

    out = flow.run(A(), fi.node.body, (CLEAN, None))
    exits = list(out.rets)
    if out.fall is not None: exits.append((fi.node, out.fall))
    nd = 0
    for node, st in exits:
        if st is None: continue
        key = 't2listing.history :: exit %s' % (norm(node)[:60] if isinstance(node, ast.Return) else 'fall-through')
        # several returns share text: add ordinal
        key += ' #%d' % nd; nd += 1
        if st[0] == DIRTY:
            run.violated(key, 'this exit is reached after the cursor index was changed (rewind / per-time '
                         'positioning) without re-assigning the saved index: the reader is left at another '
                         'result set than before the call', where=fi.where(node))
        else:
            run.ok(key, {'state': st[0], 'saved_in': st[1]}, where=fi.where(node))


def rule_frame(run):
    run.rule('FRAME', 'transitive write set of history() (through the per-simulator binding) contains no '
             'cursor state other than _index and no table data', floor=6)
    prog = run.prog
    for sim in SIMS:
        eff = listing_effects(prog, sim)
        R, W, C = eff.transitive('history')
        bad = sorted(w for w in W if w in ('_time', '_step', 'TABLEDATA', '_table', '_fullpos', 'fulltimes',
                                           'fullsteps', 'times', 'steps', '_pos', '_short', 'title',
                                           '_tablenames', 'skip_tables', 'DYNAMIC', '_table[]'))
        key = 't2listing.history :: %s' % sim
        if bad:
            culprits = sorted(m for m in C if set(eff.direct(m)[1]) & set(bad))
            run.violated(key, 'history() may write %s (via %s): the reader does not show the same time/tables '
                         'after the call' % (bad, culprits), where='t2listing.py (t2listing.history)')
        else:
            run.ok(key, {'write_set': sorted(W), 'methods_reached': len(C)})


def rule_sign(run):
    run.rule('SIGN', 'both lookup paths that accept a reversed connection key negate the values', floor=2)
    prog = run.prog
    # (a) listingtable.__getitem__
    gi = prog.func('t2listing.listingtable.__getitem__')
    found = False
    for n in walk_no_nested(gi.node):
        if isinstance(n, ast.If) and isinstance(n.test, ast.Compare) and isinstance(n.test.left, ast.Name) \
           and n.test.left.id == 'revkey' and isinstance(n.test.ops[0], ast.In):
            found = True
            rets = [r for r in ast.walk(ast.Module(body=n.body, type_ignores=[])) if isinstance(r, ast.Return)]
            neg = False
            for r in rets:
                for x in ast.walk(r):
                    if isinstance(x, ast.UnaryOp) and isinstance(x.op, ast.USub) and \
                       any(is_self_attr(y, '_data') for y in ast.walk(x.operand)):
                        neg = True
            run.check(neg, 'listingtable.__getitem__ :: reversed key negates',
                      'the row returned for a reversed connection key is not negated (-self._data[...])',
                      where=gi.where(n))
    if not found:
        run.unknown('listingtable.__getitem__ :: reversed key negates', '`if revkey in self.row_name` not found',
                    where=gi.where())
    # (b) history: reverse flag set where the reversed key matched, consumed as a sign
    hi = prog.func('t2listing.t2listing.history')
    osel = prog.nested(hi, 'ordered_selection')
    flag_set = False
    for n in ast.walk(osel.node):
        if isinstance(n, ast.If) and isinstance(n.test, ast.Compare) and isinstance(n.test.left, ast.Name) \
           and n.test.left.id == 'revkey' and isinstance(n.test.ops[0], ast.In):
            for s in n.body:
                if isinstance(s, ast.Assign) and isinstance(s.targets[0], ast.Name) and \
                   s.targets[0].id == 'reverse' and isinstance(s.value, ast.Constant) and s.value.value is True:
                    flag_set = True
    # defaults to False elsewhere
    dflt = all(not (isinstance(s, ast.Assign) and isinstance(s.targets[0], ast.Tuple) and
                    any(isinstance(e, ast.Name) and e.id == 'reverse' for e in s.targets[0].elts) and
                    isinstance(s.value, ast.Tuple) and
                    any(isinstance(v, ast.Constant) and v.value is True for v in s.value.elts))
               for s in ast.walk(osel.node))
    run.check(flag_set and dflt, 'history.ordered_selection :: reverse flag',
              'reverse flag is not set exactly in the reversed-key branch', where=osel.where())
    # tuple positions: append((tablename, index, ishort, h, reverse, sel_index)) ; comprehension
    # (i, h, rev, sel_index) for (tname, i, ishort, h, rev, sel_index) ; for (lineindex, colname, reverse, sel_index) in ts
    pos_app = None
    for n in ast.walk(osel.node):
        if isinstance(n, ast.Call) and call_name(n) == 'append' and dotted(n.func.value) == 'converted_selection' \
           and n.args and isinstance(n.args[0], ast.Tuple):
            names = [e.id if isinstance(e, ast.Name) else None for e in n.args[0].elts]
            if 'reverse' in names: pos_app = names.index('reverse')
    comp_ok = True
    out_pos = set()
    ncomp = 0
    for n in ast.walk(osel.node):
        if isinstance(n, ast.ListComp) and isinstance(n.elt, ast.Tuple) and len(n.generators) == 1 and \
           dotted(n.generators[0].iter) == 'converted_selection' and isinstance(n.generators[0].target, ast.Tuple):
            ncomp += 1
            tn = [e.id if isinstance(e, ast.Name) else None for e in n.generators[0].target.elts]
            if pos_app is None or pos_app >= len(tn): comp_ok = False; continue
            rv = tn[pos_app]
            en = [e.id if isinstance(e, ast.Name) else None for e in n.elt.elts]
            if rv in en: out_pos.add(en.index(rv))
            else: comp_ok = False
    run.check(pos_app is not None and comp_ok and ncomp >= 2 and len(out_pos) == 1,
              'history.ordered_selection :: reverse flag position',
              'the reverse flag does not travel at a consistent tuple position from converted_selection to the '
              'table selections', where=osel.where())
    # consumption
    consumed = False
    for n in walk_no_nested(hi.node):
        if isinstance(n, ast.For) and isinstance(n.target, ast.Tuple) and out_pos:
            tn = [e.id if isinstance(e, ast.Name) else None for e in n.target.elts]
            p = list(out_pos)[0]
            if p < len(tn) and tn[p] is not None and isinstance(n.iter, ast.Name):
                flag = tn[p]
                sgnvar = None
                for s in ast.walk(n):
                    if isinstance(s, ast.Assign) and isinstance(s.targets[0], ast.Name) and \
                       isinstance(s.value, ast.Subscript) and isinstance(s.value.value, ast.List) and \
                       isinstance(s.value.slice, ast.Name) and s.value.slice.id == flag:
                        vals = [ast.literal_eval(e) if isinstance(e, (ast.Constant, ast.UnaryOp)) else None
                                for e in s.value.value.elts]
                        if vals == [1.0, -1.0]: sgnvar = s.targets[0].id
                for s in ast.walk(n):
                    if isinstance(s, ast.Call) and call_name(s) == 'append' and s.args and sgnvar:
                        a = s.args[0]
                        if isinstance(a, ast.BinOp) and isinstance(a.op, ast.Mult) and \
                           any(isinstance(x, ast.Name) and x.id == sgnvar for x in (a.left, a.right)):
                            consumed = True
    run.check(consumed, 'history :: reverse flag consumed as sign',
              'the value appended to the history is not multiplied by [1,-1][reverse]', where=hi.where())


def rule_selection(run):
    run.rule('SELORDER', 'history.ordered_selection: every value put into a converted selection item is assigned within the same '
             'loop iteration on every path (no flag carried over from the previous item), and each per-table selection list is '
             'sorted by the line index its sequential reader advances on (full-table row for full output, short-table line for '
             'short output)', floor=3)
    prog = run.prog
    hi = prog.func('t2listing.t2listing.history')
    osel = prog.nested(hi, 'ordered_selection')
    loops = [n for n in walk_no_nested(osel.node) if isinstance(n, ast.For) and 'selection' in norm(n.iter)]
    key = 'history.ordered_selection :: selection item built from values assigned in the same iteration'
    if not loops:
        run.unknown(key, 'conversion loop not found', where=osel.where())
    else:
        lp = loops[0]
        apps = [c for c in ast.walk(lp) if isinstance(c, ast.Call) and call_name(c) == 'append' and norm(c.func.value) == 'converted_selection']
        if len(apps) != 1 or not isinstance(apps[0].args[0], ast.Tuple):
            run.unknown(key, 'append of the converted item not found', where=osel.where(lp))
        else:
            stmt = None
            for st in ast.walk(lp):
                if isinstance(st, ast.Expr) and st.value is apps[0]: stmt = st
            da = flow.DefAssign()
            targets = set()
            flow.DefAssign.targets(lp.target, targets)

            class Probe(flow.Analysis):
                states = []
                def transfer(self, st, s):
                    if st is stmt: Probe.states.append(s)
                    return da.transfer(st, s)
                def loop_head(self, n, s): return da.loop_head(n, s)
                def join(self, a, b): return da.join(a, b)
            Probe.states = []
            flow.run(Probe(), lp.body, frozenset(targets))
            assigned = None
            for s_ in Probe.states: assigned = s_ if assigned is None else (assigned & s_)
            names = [e.id for e in apps[0].args[0].elts if isinstance(e, ast.Name)]
            stale = [n for n in names if assigned is not None and n not in assigned]
            if assigned is None: run.unknown(key, 'append not reached', where=osel.where(lp))
            elif stale:
                run.violated(key, '%s can reach the appended item without having been assigned in this iteration: the value left by the previous '
                             'selection item is used (a row given by integer index inherits the reversed-name flag of the item before it and '
                             'comes back negated)' % stale, where=osel.where(apps[0]))
            else: run.ok(key, names, where=osel.where(apps[0]))
    # sortedness of the per-table lists
    conv_sorted = any(isinstance(c, ast.Call) and call_name(c) == 'sort' and norm(c.func.value) == 'converted_selection' for c in ast.walk(osel.node))
    for lst in ('tselect', 'tselect_short'):
        key = 'history.ordered_selection :: %s ordered by its own line index' % lst
        asg = [n for n in ast.walk(osel.node) if isinstance(n, ast.Assign) and norm(n.targets[0]) == lst]
        if not asg or not isinstance(asg[0].value, (ast.ListComp, ast.Call)):
            run.unknown(key, 'construction not found', where=osel.where()); continue
        v = asg[0].value
        wrapped = isinstance(v, ast.Call) and call_name(v) == 'sorted'
        comp = v.args[0] if wrapped and v.args else v
        own = wrapped or any(isinstance(c, ast.Call) and call_name(c) == 'sort' and norm(c.func.value) == lst for c in ast.walk(osel.node))
        lead = norm(comp.elt.elts[0]) if isinstance(comp, ast.ListComp) and isinstance(comp.elt, ast.Tuple) else None
        tgt = [norm(e) for e in comp.generators[0].target.elts] if isinstance(comp, ast.ListComp) and isinstance(comp.generators[0].target, ast.Tuple) else []
        inherited = conv_sorted and len(tgt) > 1 and lead == tgt[1]      # converted_selection sorted by (table, full index, ...)
        want = 'i' if lst == 'tselect' else 'ishort'
        if lead is not None and lead != want and lead in tgt:
            run.violated(key, 'the list leads with `%s`, but its reader advances on `%s`' % (lead, want), where=osel.where(asg[0]))
        elif own or inherited: run.ok(key, 'sorted' if own else 'inherits the order of converted_selection', where=osel.where(asg[0]))
        else:
            run.violated(key, '%s is never sorted by `%s`: history() reads each table forwards only, so an item whose line lies before the '
                         'previous item\'s re-uses the line already read and returns the wrong row' % (lst, lead), where=osel.where(asg[0]))


def check(run):
    run.guarded('NONE', rule_none)
    run.guarded('LOOPEXIT', rule_loopexit)
    run.guarded('RESTORE', rule_restore)
    run.guarded('FRAME', rule_frame)
    run.guarded('SIGN', rule_sign)
    run.guarded('SELORDER', rule_selection)
