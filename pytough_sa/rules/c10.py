"""C10 - mulgrid consistency.  Rules PAIR(+BACKREF), NBRSYM, COUPLE, REFRESH, NAMEKEY, REKEY."""
import ast
from ..core import argof, parent_map, AnalysisError, norm, dotted, call_name, walk_no_nested, is_self_attr
from .. import flow, roles
from ..containers import PAIRS
from .c08 import pair_rule, namekey_rule, rule_rekey

LEVEL = 'other'
EXPLANATION = (
    "Per-function invariant preservation for class mulgrid, decided for every function of mulgrids.py: "
    "(PAIR/BACKREF) the five dict/list pairs (node, column, layer, connection, well) change membership "
    "together on every path, and column / connection membership changes update node.column / "
    "column.connection; (NBRSYM) neighbour sets are only ever updated symmetrically; (COUPLE) a store to a "
    "column's surface, or a column constructed with a surface and added to the geometry, is followed on "
    "every path by setting that column's num_layers; (REFRESH) every composite mutator reaches both "
    "setup_block_name_index and setup_block_connection_name_index after its last mutation on every path to a "
    "normal return (primitives are a frozen list, each with the callers that refresh); (NAMEKEY/REKEY) "
    "renaming re-keys the column/layer dictionary and the connection keys, without sequential in-place "
    "re-keying. Because each mutator preserves the invariants on all paths, they hold after any edit "
    "sequence. Geometric validity (orientation, positive area) after arbitrary edits is not decided.")

MODS = ['mulgrids']


def rule_pair(run):
    pair_rule(run, MODS + ['t2grids', 't2data'], set(['mulgrid']), floor=20)


def rule_nbrsym(run, only=None, floor=3):
    run.rule('NBRSYM', 'every add/remove on a column neighbour set is matched by the symmetric update in the '
             'same function', floor=floor)
    prog = run.prog
    for fi in prog.all_functions(MODS):
        if only is not None and fi.name not in only: continue
        ops = []
        for n in walk_no_nested(fi.node):
            if isinstance(n, ast.Call) and isinstance(n.func, ast.Attribute) and n.func.attr in ('add', 'remove', 'discard') \
               and isinstance(n.func.value, ast.Attribute) and n.func.value.attr == 'neighbour' and len(n.args) == 1:
                ops.append((norm(n.func.value.value), n.func.attr, norm(n.args[0]), n))
        # bulk forms: X.neighbour.update(S) / X.neighbour |= S (and the difference forms) touch one side only; the other side
        # must be a loop over the same S doing the element-wise symmetric update
        bulk = []
        for n in walk_no_nested(fi.node):
            if isinstance(n, ast.Call) and isinstance(n.func, ast.Attribute) and n.func.attr in ('update', 'difference_update') \
               and isinstance(n.func.value, ast.Attribute) and n.func.value.attr == 'neighbour' and len(n.args) == 1:
                bulk.append((norm(n.func.value.value), 'add' if n.func.attr == 'update' else 'remove', n.args[0], n))
            if isinstance(n, ast.AugAssign) and isinstance(n.op, (ast.BitOr, ast.Sub)) and isinstance(n.target, ast.Attribute) and n.target.attr == 'neighbour':
                bulk.append((norm(n.target.value), 'add' if isinstance(n.op, ast.BitOr) else 'remove', n.value, n))
        for a, op, sexp, n in bulk:
            kb = '%s :: bulk neighbour update `%s`' % (fi.short, norm(n)[:60])
            stext = norm(sexp)
            alt = ('remove', 'discard') if op == 'remove' else ('add',)
            matched = False
            for l in walk_no_nested(fi.node):
                if isinstance(l, ast.For) and isinstance(l.target, ast.Name) and norm(l.iter) == stext:
                    for c in ast.walk(l):
                        if isinstance(c, ast.Call) and isinstance(c.func, ast.Attribute) and c.func.attr in alt and isinstance(c.func.value, ast.Attribute) \
                           and c.func.value.attr == 'neighbour' and norm(c.func.value.value) == l.target.id and len(c.args) == 1 and norm(c.args[0]) == a:
                            matched = True
            if matched: run.ok(kb, where=fi.where(n))
            else:
                run.violated(kb, '%s.neighbour gains/loses the whole of `%s` but no loop over `%s` updates the neighbour set of each of its '
                             'members with %s: the neighbour relation becomes one-sided' % (a, stext, stext, a), where=fi.where(n))
        if not ops: continue
        key = '%s :: neighbour updates' % fi.short
        seen = set((a, op, b) for a, op, b, _ in ops)
        bad = []
        for a, op, b, n in ops:
            if (b, op, a) in seen: continue
            # `for i in range(2): X[i].neighbour.add(X[not i])` is symmetric by construction
            if a.endswith('[i]') and b == a[:-3] + '[not i]': continue
            # `for nbr in C.neighbour: nbr.neighbour.remove(C)` while C is being deleted
            loops = [l for l in walk_no_nested(fi.node) if isinstance(l, ast.For) and isinstance(l.target, ast.Name)
                     and l.target.id == a and norm(l.iter) == b + '.neighbour']
            if loops and op in ('remove', 'discard') and fi.name.startswith('delete_'): continue
            # the other side is done in bulk: `b.neighbour.update(S)` with this call inside `for a in S`
            pm_ = parent_map(fi.node)
            encl = []
            cur = n
            while cur in pm_:
                cur = pm_[cur]
                if isinstance(cur, ast.For) and isinstance(cur.target, ast.Name) and cur.target.id == a: encl.append(norm(cur.iter))
            want = 'add' if op == 'add' else 'remove'
            if any(ba == b and bop == want and norm(bs) in encl for ba, bop, bs, _ in bulk): continue
            bad.append((a, op, b, n))
        if bad:
            a, op, b, n = bad[0]
            run.violated(key, '%s.neighbour.%s(%s) has no matching %s.neighbour.%s(%s): neighbour relation becomes '
                         'one-sided' % (a, op, b, b, op, a), where=fi.where(n))
        else: run.ok(key, {'updates': len(ops)}, where=fi.where())


# ---------------------------------------------------------------------------
COUPLE_EXEMPT = {
    'mulgrid.translate': 'all layers are translated by the same shift[2], so the count of layers below the surface is unchanged',
    'column.__init__': 'constructor; num_layers is initialised there and set by the geometry that adopts the column',
    'column.set_surface': 'property setter of the backing field',
}


def rule_couple(run):
    run.rule('COUPLE', "a column's surface store (or construction with surface= and adoption by the geometry) is "
             'followed on every path by setting that column\'s num_layers', floor=10)
    prog = run.prog
    for fi in list(prog.all_functions(MODS)) + [f for f in prog.all_functions(['t2grids'])]:
        funcs = [fi] + [prog.nested(fi, n.name) for n in ast.walk(fi.node)
                        if isinstance(n, ast.FunctionDef) and n is not fi.node]
        for f in funcs:
            _couple_function(run, prog, f)


def _couple_function(run, prog, fi):
    has = False
    for n in walk_no_nested(fi.node):
        if isinstance(n, (ast.Assign, ast.AugAssign)):
            ts = n.targets if isinstance(n, ast.Assign) else [n.target]
            if any(isinstance(t, ast.Attribute) and t.attr == 'surface' for t in ts): has = True
        if isinstance(n, ast.Call) and isinstance(n.func, ast.Name) and n.func.id == 'column' and \
           any(k.arg == 'surface' for k in n.keywords): has = True
    if not has: return
    if fi.short in COUPLE_EXEMPT:
        run.ok('%s :: exempt' % fi.short, COUPLE_EXEMPT[fi.short], where=fi.where()); return
    toplayer_of = {}     # name -> column text for `t = self.column_surface_layer(col)`
    for n in walk_no_nested(fi.node):
        if isinstance(n, ast.Assign) and isinstance(n.targets[0], ast.Name) and isinstance(n.value, ast.Call) \
           and call_name(n.value) == 'column_surface_layer' and n.value.args:
            toplayer_of[n.targets[0].id] = norm(n.value.args[0])

    class A(flow.Analysis):
        handler_from_entry = True

        def transfer(self, st, pend):
            pend = set(pend)
            if isinstance(st, (ast.FunctionDef, ast.ExceptHandler, ast.With)): return frozenset(pend)
            for n in [st] + list(walk_no_nested(st)):
                if isinstance(n, ast.Assign):
                    for t in n.targets:
                        if isinstance(t, ast.Attribute) and t.attr == 'surface':
                            r = norm(t.value)
                            v = n.value
                            # surface := top of the column's own surface layer keeps the layer count
                            if isinstance(v, ast.Attribute) and v.attr == 'top' and isinstance(v.value, ast.Name) \
                               and toplayer_of.get(v.value.id) == r:
                                continue
                            pend.add(r)
                        if isinstance(t, ast.Attribute) and t.attr == 'num_layers':
                            pend.discard(norm(t.value))
                        if isinstance(t, ast.Name) and isinstance(n.value, ast.Call) and \
                           isinstance(n.value.func, ast.Name) and n.value.func.id == 'column' and \
                           any(k.arg == 'surface' for k in n.value.keywords):
                            pend.add(t.id)
                if isinstance(n, ast.AugAssign) and isinstance(n.target, ast.Attribute):
                    if n.target.attr == 'surface': pend.add(norm(n.target.value))
                    if n.target.attr == 'num_layers': pend.discard(norm(n.target.value))
                if isinstance(n, ast.Call):
                    cn = call_name(n)
                    if cn == 'set_column_num_layers' and n.args: pend.discard(norm(n.args[0]))
                    if cn == 'set_default_surface': pend.clear()
                    if cn == 'add_column' and n.args and isinstance(n.args[0], ast.Call) and \
                       isinstance(n.args[0].func, ast.Name) and n.args[0].func.id == 'column' and \
                       any(k.arg == 'surface' for k in n.args[0].keywords):
                        pend.add(norm(n.func.value) + '.columnlist[-1]')
            return frozenset(pend)

        def on_expr(self, e, pend): return self.transfer(ast.Expr(value=e), pend)
        def join(self, a, b): return a | b

    out = flow.run(A(), fi.node.body, frozenset())
    exits = [(n, s) for n, s in out.rets if s is not None]
    if out.fall is not None: exits.append(('fall', out.fall))
    pend = set()
    where = None
    for n, s in exits:
        if s:
            pend |= set(s)
            where = where or (None if n == 'fall' else n)
    key = '%s :: surface <-> num_layers' % fi.short
    if pend:
        run.violated(key, 'the surface of %s is set (or a column is built with a surface and added) but its num_layers '
                     'is not updated before the function returns: column_surface_layer / snapping / layer counts use a '
                     'stale count' % sorted(pend), where=fi.where(where))
    else:
        run.ok(key, where=fi.where())


# ---------------------------------------------------------------------------
# methods that change what the block / connection name lists depend on
INDEX_PRIMS = set(['add_column', 'delete_column', 'add_layer', 'delete_layer', 'add_connection',
                   'delete_connection', 'clear_layers'])
# frozen list of primitives that do not refresh themselves, with the reason (callers are checked by this rule)
REFRESH_PRIMITIVES = {
    'add_node': 'nodes do not enter the name lists', 'delete_node': 'nodes do not enter the name lists',
    'add_column': 'primitive; composites refresh', 'delete_column': 'primitive; composites refresh',
    'add_layer': 'primitive', 'delete_layer': 'primitive', 'clear_layers': 'primitive',
    'add_connection': 'primitive', 'delete_connection': 'primitive',
    'add_well': 'wells do not enter the name lists', 'delete_well': 'wells do not enter the name lists',
    'delete_orphan_wells': 'wells only', 'copy_wells_from': 'wells only',
    'add_layers': 'building block of rectangular/refine_layers/from_*; those refresh',
    'subdivide_column': 'called by decompose_column(s); decompose_columns refreshes',
    'triangulate_column': 'as subdivide_column', 'decompose_column': 'as subdivide_column',
    'delete_orphans': 'nodes only', 'check': 'repair helper; callers (reduce, from_amesh, from_layermesh) refresh',
    'empty': 'resets the name lists itself', 'set_default_surface': 'building block of read_layers / constructors',
    'read_nodes': 'read() refreshes', 'read_columns': 'read() refreshes', 'read_connections': 'read() refreshes',
    'read_layers': 'read() refreshes', 'read_surface': 'read() refreshes', 'read_wells': 'read() refreshes',
    'read_header': 'read() refreshes', 'set_column_num_layers': 'per-column helper; callers refresh',
    'identify_neighbours': 'no membership change', 'identify_layer_tops': 'no membership change',
    '__init__': 'constructor delegates to read()', 'translate': 'names and membership unchanged',
    'rotate': 'names and membership unchanged',
}


def rule_refresh(run):
    run.rule('REFRESH', 'every composite mutator of mulgrid reaches both setup_block_name_index and '
             'setup_block_connection_name_index after its last mutation on every path to a normal return', floor=15)
    prog = run.prog
    cls = prog.cls('mulgrids', 'mulgrid')

    def direct_calls(fi):
        out = set()
        for n in ast.walk(fi.node):
            if isinstance(n, ast.Call) and isinstance(n.func, ast.Attribute):
                out.add((dotted(n.func.value), n.func.attr))
        return out
    # transitive: does method m mutate index-relevant state (through self-calls)?
    memo = {}

    def mutates(m, stack=()):
        if m in memo: return memo[m]
        if m in stack: return False
        fi = cls.methods.get(m)
        if fi is None: return False
        r = m in INDEX_PRIMS
        if not r:
            for n in ast.walk(fi.node):
                if isinstance(n, (ast.Assign, ast.AugAssign)):
                    ts = n.targets if isinstance(n, ast.Assign) else [n.target]
                    for t in ts:
                        if isinstance(t, ast.Attribute) and t.attr in ('surface',) and not is_self_attr(t): r = True
                        if isinstance(t, ast.Attribute) and t.attr == 'name' and not is_self_attr(t): r = True
        if not r:
            for rcv, name in direct_calls(fi):
                if rcv == 'self' and name in cls.methods and name not in ('setup_block_name_index', 'setup_block_connection_name_index'):
                    if mutates(name, stack + (m,)): r = True; break
        memo[m] = r
        return r
    def locals_built(fi):
        from ..containers import owner_receivers
        return set(k for k, v in owner_receivers(prog, fi).items() if v == 'mulgrid' and k != 'self')
    ncomp = 0
    for m, fi in sorted(cls.methods.items()):
        if m in REFRESH_PRIMITIVES or m.startswith('setup_block') or m.startswith('get_') or m.startswith('set_'):
            continue
        # which geometry objects does the method mutate: self, or one built locally (grid, geo)?
        rcvs = set(r for r, name in direct_calls(fi)
                   if r and (name in INDEX_PRIMS or (name in cls.methods and name not in REFRESH_PRIMITIVES
                                                      and not name.startswith('setup_block') and mutates(name)))
                   and (r == 'self' or r in locals_built(fi)))
        stores = any(isinstance(n, (ast.Assign, ast.AugAssign)) and any(
            isinstance(t, ast.Attribute) and t.attr in ('surface', 'name') and not is_self_attr(t)
            for t in (n.targets if isinstance(n, ast.Assign) else [n.target])) for n in walk_no_nested(fi.node))
        if stores and not rcvs: rcvs = set(['self'])
        for rcv in sorted(rcvs):
            ncomp += 1
            _refresh_check(run, fi, rcv, cls, mutates, stores_dirty=True)
    run.count('composite_mutators', ncomp)
    run.assume('an exception caught by a handler inside a mutator is raised by a lookup before the first mutation')


def _refresh_check(run, fi, rcv, cls, mutates, stores_dirty=True):
    NAMES = ('setup_block_name_index', 'setup_block_connection_name_index')

    class A(flow.Analysis):
        handler_from_entry = True

        def transfer(self, st, state):
            if isinstance(st, (ast.FunctionDef, ast.ExceptHandler, ast.With)): return state
            d1, d2 = state
            for n in [st] + list(walk_no_nested(st)):
                if isinstance(n, ast.Call) and isinstance(n.func, ast.Attribute) and dotted(n.func.value) == rcv:
                    name = n.func.attr
                    if name == NAMES[0]: d1 = False
                    elif name == NAMES[1]: d2 = False
                    elif name in INDEX_PRIMS or (name in cls.methods and mutates(name)):
                        callee = cls.methods.get(name)
                        if name in INDEX_PRIMS or name in REFRESH_PRIMITIVES:
                            d1 = d2 = True
                        elif callee is not None:
                            # a composite callee that refreshes unconditionally leaves the lists fresh
                            def calls(nm):
                                return lambda x: isinstance(x, ast.Expr) and isinstance(x.value, ast.Call) and \
                                    call_name(x.value) == nm and dotted(x.value.func.value) == 'self'
                            if not flow.must_pass(callee.node, calls(NAMES[0])): d1 = False
                            if not flow.must_pass(callee.node, calls(NAMES[1])): d2 = False
                if isinstance(n, (ast.Assign, ast.AugAssign)) and stores_dirty:
                    ts = n.targets if isinstance(n, ast.Assign) else [n.target]
                    for t in ts:
                        if isinstance(t, ast.Attribute) and t.attr in ('surface', 'name') and not is_self_attr(t):
                            d1 = d2 = True
            return (d1, d2)

        def on_expr(self, e, s): return self.transfer(ast.Expr(value=e), s)
        def join(self, a, b): return (a[0] or b[0], a[1] or b[1])

    out = flow.run(A(), fi.node.body, (False, False))
    exits = [(n, s) for n, s in out.rets if s is not None]
    if out.fall is not None: exits.append(('fall', out.fall))
    bad = [(n, s) for n, s in exits if s[0] or s[1]]
    key = 'mulgrid.%s :: refresh of %s' % (fi.name, rcv)
    if bad:
        n, s = bad[0]
        miss = [NAMES[i] for i in (0, 1) if s[i]]
        run.violated(key, 'a path returns after changing columns/layers/connections/surfaces of %s without calling %s: '
                     'block_name_list / block_connection_name_list no longer match a fresh recomputation'
                     % (rcv, ' and '.join(miss)), where=fi.where(None if n == 'fall' else n))
    else:
        run.ok(key, where=fi.where())


def rule_nodeedit(run):
    run.rule('NODEEDIT', "a function that removes a node from a column's node list also removes the column from that node's "
             'column set; a function that re-points an end of a connection to another column re-keys the connection dictionary', floor=1)
    prog = run.prog
    cls = prog.cls('mulgrids', 'mulgrid')
    found = 0
    for name, fi in sorted(cls.methods.items()):
        dels = [n for n in walk_no_nested(fi.node) if isinstance(n, ast.Delete) and any(
            isinstance(t, ast.Subscript) and isinstance(t.value, ast.Attribute) and t.value.attr == 'node' and not is_self_attr(t.value)
            for t in n.targets)]
        rem = [c for c in walk_no_nested(fi.node) if isinstance(c, ast.Call) and call_name(c) in ('remove', 'pop') and
               isinstance(c.func.value, ast.Attribute) and c.func.value.attr == 'node' and not is_self_attr(c.func.value)]
        for d in dels + rem:
            found += 1
            owner = norm(d.targets[0].value.value) if isinstance(d, ast.Delete) else norm(d.func.value.value)
            back = [c for c in walk_no_nested(fi.node) if isinstance(c, ast.Call) and call_name(c) in ('remove', 'discard') and
                    isinstance(c.func.value, ast.Attribute) and c.func.value.attr == 'column' and c.args and norm(c.args[0]) == owner]
            key = 'mulgrid.%s :: node removed from %s.node' % (name, owner)
            if back: run.ok(key, where=fi.where(d))
            else:
                run.violated(key, 'a node is removed from %s.node but %s stays in that node\'s .column set: the node still claims a column that '
                             'does not use it (boundary traversal and point searches then fail on it)' % (owner, owner), where=fi.where(d))
        # connection end re-pointed
        rp = [n for n in walk_no_nested(fi.node) if isinstance(n, ast.Assign) and isinstance(n.targets[0], ast.Subscript) and
              isinstance(n.targets[0].value, ast.Attribute) and n.targets[0].value.attr == 'column' and
              isinstance(n.targets[0].value.value, ast.Name) and n.targets[0].value.value.id != 'self']
        if rp:
            found += 1
            rekey = any(isinstance(x, ast.Assign) and any(norm(t) == 'self.connection' or
                                                           (isinstance(t, ast.Subscript) and norm(t.value) == 'self.connection') for t in x.targets)
                        for x in walk_no_nested(fi.node))
            key = 'mulgrid.%s :: connection end re-pointed' % name
            if rekey: run.ok(key, where=fi.where(rp[0]))
            else:
                run.violated(key, '`%s` gives a connection another column, but self.connection is not re-keyed: the connection is still filed '
                             'under the names of its old pair of columns' % norm(rp[0]), where=fi.where(rp[0]))
    if not found: run.unknown('NODEEDIT :: sites', 'no node-list edit found (split_column is expected to have one)')


def rule_midonce(run):
    run.rule('MIDONCE', 'refine(): a mid-side node is created at most once per side - the loop over boundary sides skips sides '
             'that already have one', floor=1)
    prog = run.prog
    fi = prog.func('mulgrids.mulgrid.refine')
    # the loop: for i, corner in enumerate(col.node): ... if (corner in bdy) and (next_corner in bdy): create_mid_node(...)
    ifs = [n for n in ast.walk(fi.node) if isinstance(n, ast.If) and 'in bdy' in norm(n.test) and
           any(isinstance(c, ast.Call) and call_name(c) == 'create_mid_node' for c in ast.walk(n))]
    key = 'mulgrid.refine :: boundary mid-side nodes only where none exists yet'
    if len(ifs) != 1:
        run.unknown(key, 'boundary-side loop not found', where=fi.where()); return
    t = norm(ifs[0])
    guarded = 'not in sidenodes' in t or 'connection_with_nodes' in t
    if guarded: run.ok(key, where=fi.where(ifs[0]))
    else:
        run.violated(key, 'a side is taken to lie on the grid boundary when both its corners are boundary nodes (`%s`); an interior side '
                     'between two boundary corners (any side across an N x 1 strip) already received a mid-side node from its connection, '
                     'gets a second one here, and the first is left as an orphan node' % norm(ifs[0].test), where=fi.where(ifs[0]))


def rule_itermut(run):
    run.rule('ITERMUT', 'no loop or comprehension iterates a by-name list of the geometry/grid itself (or an alias of it) while its '
             'body adds or deletes elements of that list', floor=1)
    prog = run.prog
    from ..containers import PairAnalysis, owner_receivers
    pa = PairAnalysis(prog)
    LISTS = {'mulgrid': ['nodelist', 'columnlist', 'layerlist', 'connectionlist', 'welllist'],
             't2grid': ['blocklist', 'connectionlist', 'rocktypelist'], 't2data': ['generatorlist']}
    MUT = {'columnlist': ['add_column', 'delete_column', 'subdivide_column', 'triangulate_column', 'decompose_column', 'split_column'],
           'nodelist': ['add_node', 'delete_node'], 'layerlist': ['add_layer', 'delete_layer'],
           'connectionlist': ['add_connection', 'delete_connection', 'delete_column', 'delete_block'], 'welllist': ['add_well', 'delete_well'],
           'blocklist': ['add_block', 'delete_block'], 'rocktypelist': ['add_rocktype', 'delete_rocktype'],
           'generatorlist': ['add_generator', 'delete_generator']}
    nsites = 0
    for fi in prog.all_functions(['mulgrids', 't2grids', 't2data']):
        if fi.cls is None or fi.cls.name not in LISTS: continue
        alias = {}
        for n in walk_no_nested(fi.node):
            if isinstance(n, ast.Assign) and isinstance(n.targets[0], ast.Name) and isinstance(n.value, ast.Attribute) and \
               dotted(n.value.value) == 'self' and n.value.attr in LISTS[fi.cls.name]:
                alias[n.targets[0].id] = n.value.attr
        its = []
        for n in walk_no_nested(fi.node):
            if isinstance(n, ast.For): its.append((n.iter, n.body, n))
            if isinstance(n, (ast.ListComp, ast.GeneratorExp, ast.SetComp, ast.DictComp)):
                for g in n.generators: its.append((g.iter, [ast.Expr(value=n)], n))
        for it, body, node in its:
            lst = None
            if isinstance(it, ast.Attribute) and dotted(it.value) == 'self' and it.attr in LISTS[fi.cls.name]: lst = it.attr
            elif isinstance(it, ast.Name) and it.id in alias: lst = alias[it.id]
            if lst is None: continue
            muts = [c for b in body for c in ast.walk(b) if isinstance(c, ast.Call) and isinstance(c.func, ast.Attribute)
                    and dotted(c.func.value) == 'self' and c.func.attr in MUT.get(lst, [])]
            if not muts: continue
            nsites += 1
            key = '%s :: iterates self.%s while calling %s' % (fi.short, lst, muts[0].func.attr)
            run.violated(key, 'the %s runs over self.%s itself%s while its body calls %s(), which appends to / removes from that list: '
                         'elements are skipped (or visited twice)' % ('loop' if isinstance(node, ast.For) else 'comprehension', lst,
                                                                       ' (through the alias `%s`)' % norm(it) if isinstance(it, ast.Name) else '',
                                                                       muts[0].func.attr), where=fi.where(node))
    run.ok('ITERMUT :: scan', {'violating_sites': nsites, 'functions_scanned': sum(1 for _ in prog.all_functions(['mulgrids', 't2grids', 't2data']))})


def rule_namekey(run):
    namekey_rule(run, 'mulgrids', 'mulgrid', floor=2)


def rule_rekey10(run):
    rule_rekey(run, mods=MODS, anchors=['mulgrids.mulgrid.rename_column', 'mulgrids.mulgrid.rename_layer'])


def rule_laycount(run):
    run.rule('LAYCOUNT', 'a column\'s layer count is a recount from its surface (set_column_num_layers / set_default_surface): a function that '
             'rebuilds the layers of a geometry recounts its columns afterwards, and the only arithmetic updates of num_layers are the '
             '"-1" that goes with moving the surface to the bottom of its top layer', floor=2)
    prog = run.prog
    cls = prog.cls('mulgrids', 'mulgrid')
    RECOUNT = ('set_column_num_layers', 'set_default_surface')
    for fi in sorted(list(cls.methods.values()) + list(prog.mod('mulgrids').functions.values()), key=lambda f: f.qual):
        if fi.name in ('add_layers', 'clear_layers'): continue
        body = list(walk_no_nested(fi.node))
        rebuilds = [c for c in body if isinstance(c, ast.Call) and call_name(c) in ('add_layers', 'clear_layers') and isinstance(c.func, ast.Attribute)]
        if rebuilds:
            key = '%s :: columns recounted after the layers are rebuilt' % fi.short
            last = max(c.lineno for c in rebuilds)
            rc = [c for c in body if isinstance(c, ast.Call) and call_name(c) in RECOUNT and c.lineno > last]
            # recount of *all* columns: set_default_surface, or set_column_num_layers inside a loop over a column list
            from ..core import parent_map
            pm = parent_map(fi.node)
            def in_column_loop(c):
                cur = c
                while cur in pm:
                    cur = pm[cur]
                    if isinstance(cur, ast.For) and 'column' in norm(cur.iter): return True
                return False
            full = [c for c in rc if call_name(c) == 'set_default_surface' or in_column_loop(c)]
            # ... of the geometry whose layers were rebuilt, not of another one that happens to be at hand
            def loop_owner(c):
                cur = c
                while cur in pm:
                    cur = pm[cur]
                    if isinstance(cur, ast.For) and 'column' in norm(cur.iter):
                        it = cur.iter
                        while isinstance(it, ast.Attribute): it = it.value
                        direct = c.args and isinstance(c.args[0], ast.Name) and isinstance(cur.target, ast.Name) and c.args[0].id == cur.target.id
                        return it.id if isinstance(it, ast.Name) and it is not cur.iter and direct else None
                return None
            owner = norm(rebuilds[-1].func.value)
            params = set(a.arg for a in fi.node.args.args)
            foreign = [c for c in full if call_name(c) == 'set_column_num_layers' and loop_owner(c) in params - set([owner])
                       and isinstance(c.func, ast.Attribute) and norm(c.func.value) == owner]
            if foreign and len(foreign) == len(full):
                run.violated(key, 'the layers of `%s` are rebuilt but the recount `%s` runs over the columns of `%s`: the columns of `%s` keep '
                             'their old layer counts (and those of `%s` are overwritten)' % (owner, norm(foreign[0]), loop_owner(foreign[0]), owner,
                                                                                           loop_owner(foreign[0])), where=fi.where(foreign[0]), robust=True)
            elif full: run.ok(key, norm(full[0]), where=fi.where(full[0]))
            else:
                run.violated(key, 'the layers are rebuilt (%s) but the columns are not recounted with set_column_num_layers afterwards: a column '
                             'whose surface lies inside the changed layers keeps a layer count that no longer matches its surface'
                             % norm(rebuilds[-1]), where=fi.where(rebuilds[-1]))
        for n in body:
            if isinstance(n, ast.AugAssign) and isinstance(n.target, ast.Attribute) and n.target.attr == 'num_layers' and fi.name != 'set_column_num_layers':
                key = '%s :: arithmetic update of %s' % (fi.short, norm(n.target))
                rcv = norm(n.target.value)
                blk = [b for b in _blocks_of(fi.node) if n in b]
                sib = blk[0] if blk else []
                ok = isinstance(n.op, ast.Sub) and norm(n.value) == '1' and any(
                    isinstance(s_, ast.Assign) and any(isinstance(t, ast.Attribute) and t.attr == 'surface' and norm(t.value) == rcv for t in s_.targets)
                    and isinstance(s_.value, ast.Attribute) and s_.value.attr == 'bottom' for s_ in sib)
                if ok: run.ok(key, 'goes with moving the surface to the bottom of its layer', where=fi.where(n))
                else:
                    run.violated(key, '`%s` adjusts the layer count by arithmetic instead of recounting it from the surface: for a column whose surface '
                                 'lies inside the affected layers the count ends up wrong (column_surface_layer then points above ground and '
                                 'num_layers disagrees with the block name list)' % norm(n), where=fi.where(n))


def _blocks_of(fnode):
    out = []
    for n in ast.walk(fnode):
        for f in ('body', 'orelse', 'finalbody'):
            b = getattr(n, f, None)
            if isinstance(b, list) and b and isinstance(b[0], ast.stmt): out.append(b)
    return out


def rule_nodeowner(run):
    run.rule('NODEOWNER', 'add_column() registers the new column in the `column` set of each of its nodes: the nodes handed to a column that is '
             'added to geometry G are taken from G\'s own node dictionary / list, not from another geometry\'s (whose nodes would then '
             'list a column of a foreign geometry)', floor=4)
    prog = run.prog
    nsite = 0
    for fi in sorted(prog.all_functions(MODS), key=lambda f: f.qual):
        body = list(walk_no_nested(fi.node))
        once = {}
        for nm, v, st in roles.assignments(fi.node): once.setdefault(nm, []).append(v)
        appends = {}
        for c in body:
            if isinstance(c, ast.Call) and isinstance(c.func, ast.Attribute) and c.func.attr == 'append' and isinstance(c.func.value, ast.Name) and len(c.args) == 1:
                appends.setdefault(c.func.value.id, []).append(c.args[0])

        def owner_of(e, depth=0):
            """R for `R.node[..]` / `R.nodelist[..]`; through a local bound once; None if not syntactic"""
            if isinstance(e, ast.Subscript) and isinstance(e.value, ast.Attribute) and e.value.attr in ('node', 'nodelist') and isinstance(e.value.value, ast.Name):
                return e.value.value.id
            if isinstance(e, ast.Name) and len(once.get(e.id, [])) == 1 and depth < 3: return owner_of(once[e.id][0], depth + 1)
            return None

        def elements(n, depth=0):
            if isinstance(n, ast.ListComp): return [n.elt]
            if isinstance(n, (ast.List, ast.Tuple)): return list(n.elts)
            if isinstance(n, ast.Name) and depth < 3:
                out = list(appends.get(n.id, []))
                for v in once.get(n.id, []): out += elements(v, depth + 1)
                return out
            return []
        for c in body:
            if not (isinstance(c, ast.Call) and isinstance(c.func, ast.Attribute) and c.func.attr == 'add_column' and isinstance(c.func.value, ast.Name) and len(c.args) == 1):
                continue
            G = c.func.value.id
            arg = c.args[0]
            if isinstance(arg, ast.Name) and len(once.get(arg.id, [])) == 1: arg = once[arg.id][0]
            if not (isinstance(arg, ast.Call) and call_name(arg) == 'column' and len(arg.args) >= 2): continue
            # geometries at hand: `self`, and whatever columns / nodes are added to in this function (a column's own `.node` list is not one)
            geoms = set(['self']) | set(x.func.value.id for x in body if isinstance(x, ast.Call) and isinstance(x.func, ast.Attribute)
                                        and x.func.attr in ('add_column', 'add_node') and isinstance(x.func.value, ast.Name))
            owners = set(o for o in (owner_of(e) for e in elements(arg.args[1])) if o is not None and o in geoms)
            if not owners: continue
            nsite += 1
            key = '%s :: nodes of the column added to `%s` come from `%s`' % (fi.short, G, G)
            foreign = sorted(owners - set([G]))
            if foreign:
                run.violated(key, 'the column is added to `%s` but its nodes are looked up in `%s.node`: add_column() then records the new column in the '
                             'node objects of `%s`, which end up listing a column that is not in their geometry (check() reports bogus missing '
                             'connections, refine() raises KeyError)' % (G, foreign[0], foreign[0]), where=fi.where(c), robust=True)
            else: run.ok(key, where=fi.where(c))
    run.ok('add_column sites with syntactic node owners', {'sites': nsite})


def rule_validexit(run):
    run.rule('VALIDEXIT', 'an operation that ends by repairing the mesh (`<geometry>.check(fix=True)`: missing connections added, extra ones and '
             'orphan nodes removed) does so on every path to a normal return - in particular on the path where it finds nothing of its '
             'own to do, because the debris it promises to remove may have been left by earlier low-level edits', floor=3)
    prog = run.prog
    n = 0
    for fi in sorted(prog.all_functions(MODS), key=lambda f: f.qual):
        fixes = [st for st in walk_no_nested(fi.node) if isinstance(st, ast.Expr) and isinstance(st.value, ast.Call) and call_name(st.value) == 'check'
                 and isinstance(st.value.func, ast.Attribute) and isinstance(argof(st.value, 'fix'), ast.Constant) and argof(st.value, 'fix').value is True]
        if not fixes: continue
        n += 1
        rcv = norm(fixes[0].value.func.value)
        key = '%s :: %s.check(fix=True) on every normal exit' % (fi.short, rcv)
        bad = flow.must_pass(fi.node, lambda x: x in fixes)
        if bad:
            b0 = bad[0]
            run.violated(key, 'a path returns without the repair pass: connections missing, extra connections or orphan nodes left by earlier edits '
                         'survive an operation that promises a valid mesh', where=fi.where(None if b0 == 'fall' else b0), robust=True)
        else: run.ok(key, where=fi.where(fixes[0]))
    if n == 0: run.unknown('mulgrids :: repairing operations', 'no call of check(fix=True) found', where='mulgrids.py')


def rule_keynorm(run):
    run.rule('KEYNORM', 'a by-name dictionary keyed by a pair of names is looked up with keys normalised the way its writers normalise them: '
             'no writer of `connection` sorts the pair (keys keep the order of the connection\'s columns / blocks), so a reader that sorts '
             'its key misses every connection stored in descending name order', floor=1)
    prog = run.prog
    def sorts(fi, e):
        """does the key expression (or the local it names, bound once in the function) pass through sorted()?"""
        def has(x): return any(isinstance(c, ast.Call) and call_name(c) == 'sorted' for c in ast.walk(x))
        if has(e): return True
        names = set(x.id for x in ast.walk(e) if isinstance(x, ast.Name))
        for n in walk_no_nested(fi.node):
            if isinstance(n, ast.Assign) and len(n.targets) == 1 and isinstance(n.targets[0], ast.Name) and n.targets[0].id in names and has(n.value): return True
        return False
    writers, readers = [], []
    for fi in prog.all_functions(['mulgrids']):
        for n in walk_no_nested(fi.node):
            if isinstance(n, ast.Subscript) and isinstance(n.value, ast.Attribute) and n.value.attr == 'connection' and norm(n.value.value) in ('self', 'geo'):
                (writers if isinstance(n.ctx, ast.Store) else readers).append((fi, n, n.slice))
            if isinstance(n, ast.Compare) and len(n.ops) == 1 and isinstance(n.ops[0], (ast.In, ast.NotIn)) and isinstance(n.comparators[0], ast.Attribute) \
               and n.comparators[0].attr == 'connection' and norm(n.comparators[0].value) in ('self', 'geo'):
                readers.append((fi, n, n.left))
    if not writers: raise AnalysisError('no store into mulgrid.connection found')
    wsorted = [w for w in writers if sorts(w[0], w[2])]
    for fi, n, k in readers:
        key = '%s :: %s' % (fi.short, norm(n)[:70])
        if sorts(fi, k) and not wsorted:
            run.violated(key, 'the key is sorted (`%s`) but add_connection() stores the pair in the order of the connection\'s columns: a connection '
                         'whose first column has the larger name (after rename_column, or added that way round) is not found, so it is reported '
                         'missing and added a second time' % norm(k)[:60], where=fi.where(n))
        else: run.ok(key, where=fi.where(n))


def check(run):
    run.guarded('KEYNORM', rule_keynorm)
    run.guarded('LAYCOUNT', rule_laycount)
    run.guarded('VALIDEXIT', rule_validexit)
    run.guarded('NODEOWNER', rule_nodeowner)
    from .pred_common import rule_pred
    run.guarded('PRED', lambda r: rule_pred(r, floor=1, only=('mulgrid.set_column_num_layers',)))
    run.guarded('PAIR', rule_pair)
    run.guarded('NBRSYM', rule_nbrsym)
    run.guarded('COUPLE', rule_couple)
    run.guarded('REFRESH', rule_refresh)
    run.guarded('NODEEDIT', rule_nodeedit)
    run.guarded('MIDONCE', rule_midonce)
    run.guarded('ITERMUT', rule_itermut)
    run.guarded('NAMEKEY', rule_namekey)
    run.guarded('REKEY', rule_rekey10)
