"""Rules shared by the three file round-trip properties (C01, C03, C13)."""
import ast
from ..core import AnalysisError, norm, dotted, call_name, walk_no_nested, const_str, Folder, TOP
from ..iomodel import IOBuilder, dispatch_table, normal_form, included, show, layout_equiv, blanks_as
from ..layout import load_table, fields_of
from .. import flow


def single_string_kinds(tab):
    return [k for k, sp in tab.items() if len(sp[1]) == 1 and sp[1][0].endswith('s')]


def recseq_pair(run, key, prog, rfi, rvar, wfi, wvar, equiv, drop, blank_kind=None, strip_opt=True):
    """L(writer record tree) included in L(reader record tree)"""
    br, bw = IOBuilder(prog, 'read'), IOBuilder(prog, 'write')
    tr, tw = br.tree(rfi, rvar), bw.tree(wfi, wvar)
    if blank_kind: tw = blanks_as(tw, blank_kind)
    unk = br.unknown + bw.unknown
    if unk:
        f, c, why = unk[0]
        run.unknown(key, '%s (%s)' % (why, f.short), where=f.where(c)); return None, None
    nr, nw = normal_form(tr, equiv, drop), normal_form(tw, equiv, drop)
    if strip_opt and nw is not None and nw[0] == 'opt': nw = nw[1]
    if included(nw, nr):
        run.ok(key, {'reader': show(nr), 'writer': show(nw)}, where=wfi.where())
    else:
        run.violated(key, 'the records the writer can emit are not what the reader parses: writer `%s`, reader `%s` '
                     '(a record is missing, extra, of another kind, or in another order, so every later field of the '
                     'section is read from the wrong line)' % (show(nw), show(nr)), where=wfi.where())
    return tr, tw


def reader_needs_blank(tree):
    """does the reader stop a repetition on a blank line? (idioms A/A'/B/C): a loop whose
    condition / inner test is `<line>.strip()`"""
    return tree


def term_rule(run, key, prog, rfi, wfi, wvar):
    """TERM: if the reader loops until a blank line, the writer writes a blank line after its
    last record / keyword on every path on which it wrote anything."""
    # reader idiom: while <x>.strip(): / while more: ... if line.strip() ... else: more = False / while f.readline().strip()
    needs = False
    for n in ast.walk(rfi.node):
        if isinstance(n, ast.While):
            tests = [n.test] + [x.test for x in ast.walk(n) if isinstance(x, ast.If)]
            for t in tests:
                for c in ast.walk(t):
                    if isinstance(c, ast.Call) and call_name(c) == 'strip' and not c.args:
                        needs = True
    # a reader that also stops on a section keyword (and hands the line back) does not need the blank line
    for n in ast.walk(rfi.node):
        if isinstance(n, ast.While):
            for c in ast.walk(n):
                if isinstance(c, ast.Call) and call_name(c) == 'startswith' and any(
                        isinstance(r, ast.Return) and r.value is not None for r in ast.walk(rfi.node)):
                    needs = False
    if not needs:
        return False
    W, T = 1, 2     # something written and not terminated / terminated

    class A(flow.Analysis):
        def transfer(self, st, s):
            if isinstance(st, (ast.FunctionDef, ast.ExceptHandler, ast.With)): return s
            for c in [x for x in [st] + list(walk_no_nested(st)) if isinstance(x, ast.Call)]:
                if isinstance(c.func, ast.Attribute) and dotted(c.func.value) == wvar:
                    m = c.func.attr
                    if m == 'write' and c.args:
                        lit = const_str(c.args[0])
                        if lit == '\n': s = T
                        else: s = W
                    elif m in ('write_values', 'write_value_line'): s = W
                else:
                    # helper that receives the file writes records
                    if any(isinstance(a, ast.Name) and a.id == wvar for a in c.args): s = W
            return s
        def on_expr(self, e, s): return self.transfer(ast.Expr(value=e), s)
        def join(self, a, b): return W if W in (a, b) else max(a, b)
    out = flow.run(A(), wfi.node.body, 0)
    exits = [(n, s) for n, s in out.rets if s is not None]
    if out.fall is not None: exits.append(('fall', out.fall))
    bad = [(n, s) for n, s in exits if s == W]
    if bad:
        n = bad[0][0]
        run.violated(key, 'the reader (%s) repeats until a blank line, but a path through the writer ends after writing '
                     'records without the terminating blank line: the reader runs on into the next section'
                     % rfi.short, where=wfi.where(None if n == 'fall' else n))
    else:
        run.ok(key, 'blank line written after the last record on every path', where=wfi.where())
    return True


def first_keyword(wfi, wvar):
    """the literal first line a section writer emits (joined 'kwpart's), and the call node"""
    for n in walk_no_nested(wfi.node):
        if isinstance(n, ast.Call) and isinstance(n.func, ast.Attribute) and dotted(n.func.value) == wvar \
           and n.func.attr == 'write' and n.args:
            s = const_str(n.args[0])
            if s is not None and s.strip(): return s.strip(), n
            if s is None: return None, n
        if isinstance(n, ast.Call) and isinstance(n.func, ast.Attribute) and dotted(n.func.value) == wvar \
           and n.func.attr in ('write_values', 'write_value_line'):
            return None, n
    return None, None


def chunk_rule(run, prog, fi, tables, role):
    """CHUNK obligations in one function: nlines = int(ceil(N / K.)), slices i*K : min((i+1)*K, M),
    padding to K, and K = number of fields of the record written / read in that loop."""
    n_found = 0
    # name -> (N expr, K) for nlines = int(ceil(N / K.))
    ceil = {}
    for n in walk_no_nested(fi.node):
        if isinstance(n, ast.Assign) and isinstance(n.targets[0], ast.Name) and isinstance(n.value, ast.Call) \
           and call_name(n.value) == 'int' and n.value.args and isinstance(n.value.args[0], ast.Call) and \
           call_name(n.value.args[0]) == 'ceil':
            d = n.value.args[0].args[0]
            if isinstance(d, ast.BinOp) and isinstance(d.op, ast.Div) and isinstance(d.right, ast.Constant):
                ceil[n.targets[0].id] = (d.left, d.right.value, n)
    loops = [n for n in walk_no_nested(fi.node) if isinstance(n, ast.For) and isinstance(n.iter, ast.Call)
             and call_name(n.iter) == 'range' and len(n.iter.args) == 1 and isinstance(n.iter.args[0], ast.Name)]
    for lp in loops:
        nl = lp.iter.args[0].id
        recs = [c for c in ast.walk(lp) if isinstance(c, ast.Call) and isinstance(c.func, ast.Attribute) and
                c.func.attr in ('write_values', 'read_values')]
        if not recs: continue
        kindnode = recs[0].args[1] if recs[0].func.attr == 'write_values' else recs[0].args[0]
        kind = const_str(kindnode)
        nf = None
        for tab in tables:
            if kind in tab: nf = len(tab[kind][1])
        if nf is None: continue
        n_found += 1
        key = '%s :: chunk loop over %s (%s)' % (fi.short, nl, kind)
        probs = []
        if nl in ceil:
            N, K, node = ceil[nl]
            if float(K) != float(nf):
                probs.append('line count uses %s per line but record %s has %d fields' % (K, kind, nf))
        else:
            N = None
        if role == 'write':
            i = lp.target.id if isinstance(lp.target, ast.Name) else None
            sl = [n for n in ast.walk(lp) if isinstance(n, ast.Assign) and isinstance(n.targets[0], ast.Tuple)
                  and len(n.targets[0].elts) == 2 and isinstance(n.value, ast.Tuple)]
            if sl and i:
                lo, hi = sl[0].value.elts
                from ..formula import compare
                if compare(lo, '%s * %d' % (i, nf)) != 'equal':
                    probs.append('slice start is `%s`, expected %s*%d' % (norm(lo), i, nf))
                if isinstance(hi, ast.Call) and call_name(hi) == 'min' and len(hi.args) == 2:
                    if compare(hi.args[0], '(%s + 1) * %d' % (i, nf)) != 'equal':
                        probs.append('slice end is `%s`, expected (%s+1)*%d' % (norm(hi.args[0]), i, nf))
                    M = hi.args[1]
                    # the bound must be defined on every path reaching the loop and denote the sliced list's length / count
                    names = [x.id for x in ast.walk(M) if isinstance(x, ast.Name)]
                    da = flow.DefAssign()
                    st = flow.state_at(fi.node, lp, da, frozenset(fi.params))
                    for nm in names:
                        if st is not None and nm not in st and nm not in ('len', 'self', 'min', 'max') :
                            probs.append('slice bound `%s` uses `%s`, which is not assigned on every path reaching this loop '
                                         '(UnboundLocalError, or a stale count from another list)' % (norm(M), nm))
                    # which list is sliced
                    sliced = [x for x in ast.walk(lp) if isinstance(x, ast.Subscript) and isinstance(x.slice, ast.Slice)
                              and isinstance(x.slice.lower, ast.Name) and x.slice.lower.id == norm(sl[0].targets[0].elts[0])]
                    if sliced and N is not None:
                        lst = norm(sliced[0].value)
                        okM = norm(M) in (norm(N), 'len(%s)' % lst) or (isinstance(M, ast.Name) and _is_len_of(fi, M.id, lst, lp)) \
                            or norm(M) == norm(N)
                        if not okM and not any('not assigned' in p for p in probs):
                            probs.append('slice bound `%s` is neither the count `%s` used for the line count nor len(%s)'
                                         % (norm(M), norm(N), lst))
                pad = [n for n in ast.walk(lp) if isinstance(n, ast.If) and isinstance(n.test, ast.Compare) and
                       isinstance(n.test.left, ast.Call) and call_name(n.test.left) == 'len']
                for p in pad:
                    c = n_const(p.test.comparators[0])
                    if c is not None and c != nf: probs.append('padding tests len < %s for a %d-field record' % (c, nf))
        if probs: run.violated(key, '; '.join(probs), where=fi.where(lp))
        else: run.ok(key, {'per_line': nf}, where=fi.where(lp))
    # stepped slices:  for start in range(0, N, K): vals = X[start: start + K]; write_values(vals, kind)
    if role == 'write':
        for lp in [n for n in walk_no_nested(fi.node) if isinstance(n, ast.For) and isinstance(n.iter, ast.Call) and call_name(n.iter) == 'range'
                   and len(n.iter.args) == 3 and isinstance(n.target, ast.Name)]:
            recs = [c for c in ast.walk(lp) if isinstance(c, ast.Call) and isinstance(c.func, ast.Attribute) and c.func.attr == 'write_values' and len(c.args) == 2]
            if not recs: continue
            kind = const_str(recs[0].args[1])
            nf = None
            for tab in tables:
                if kind in tab: nf = len(tab[kind][1])
            if nf is None: continue
            n_found += 1
            key = '%s :: chunk loop over stepped slices (%s)' % (fi.short, kind)
            v = lp.target.id
            step = n_const(lp.iter.args[2])
            start0 = n_const(lp.iter.args[0])
            sl = [x for x in ast.walk(lp) if isinstance(x, ast.Subscript) and isinstance(x.slice, ast.Slice) and isinstance(x.slice.lower, ast.Name)
                  and x.slice.lower.id == v and x.slice.step is None]
            if step is None or start0 is None or len(sl) != 1:
                run.unknown(key, 'step / slice of the chunk loop not recognised', where=fi.where(lp)); continue
            up = sl[0].slice.upper
            width = None
            if isinstance(up, ast.BinOp) and isinstance(up.op, ast.Add):
                for a_, b_ in ((up.left, up.right), (up.right, up.left)):
                    if isinstance(a_, ast.Name) and a_.id == v and n_const(b_) is not None: width = n_const(b_)
            elif isinstance(up, ast.Call) and call_name(up) == 'min' and len(up.args) == 2:
                for a_ in up.args:
                    if isinstance(a_, ast.BinOp) and isinstance(a_.op, ast.Add) and isinstance(a_.left, ast.Name) and a_.left.id == v and n_const(a_.right) is not None:
                        width = n_const(a_.right)
            probs = []
            if width is None:
                run.unknown(key, 'slice end `%s` not recognised' % (norm(up) if up is not None else None), where=fi.where(lp)); continue
            if start0 != 0: probs.append('the first chunk starts at %s' % start0)
            if step != width: probs.append('the loop advances by %s but each slice holds %s values: values are %s' % (step, width, 'written twice' if width > step else 'skipped'))
            if width > nf: probs.append('%s values per line but record %s has %d fields' % (width, kind, nf))
            elif width < nf and not probs: pass     # shorter lines are legal (the reader accumulates), if wasteful
            lst = norm(sl[0].value)
            bound = lp.iter.args[1]
            okb = norm(bound) == 'len(%s)' % lst or (isinstance(bound, ast.Name) and _is_len_of(fi, bound.id, lst, lp))
            if not okb:
                # a count read from the data structure next to the list: accepted when it is what the reader loops over too; undecided otherwise
                if not probs:
                    run.ok(key, {'per_line': width, 'bound': norm(bound), 'note': 'bound is a stored count, not len() of the sliced list'}, where=fi.where(lp)); continue
            if probs: run.violated(key, '; '.join(probs), where=fi.where(lp))
            else: run.ok(key, {'per_line': width}, where=fi.where(lp))
    return n_found


def n_const(e):
    return e.value if isinstance(e, ast.Constant) and isinstance(e.value, (int, float)) else None


def _is_len_of(fi, name, lst, before):
    for n in walk_no_nested(fi.node):
        if isinstance(n, ast.Assign) and norm(n.targets[0]) == name and norm(n.value) == 'len(%s)' % lst:
            return True
    return False


# ---------------------------------------------------------------------------
def linecount_rule(run, fi, tables, rule=None):
    """CEILDIV: every line-count expression that bounds a loop of K-field record reads / writes equals
    ceil(N / K) for every N - decided by exact constant propagation of the expression over N = 0..4K+1."""
    from ..consteval import Interp
    import math
    found = 0
    assigns = {}
    for n in walk_no_nested(fi.node):
        if isinstance(n, ast.Assign) and len(n.targets) == 1 and isinstance(n.targets[0], ast.Name):
            assigns.setdefault(n.targets[0].id, []).append(n)
    for lp in [n for n in walk_no_nested(fi.node) if isinstance(n, ast.For) and isinstance(n.iter, ast.Call)
               and call_name(n.iter) == 'range' and len(n.iter.args) == 1]:
        recs = [c for c in ast.walk(lp) if isinstance(c, ast.Call) and isinstance(c.func, ast.Attribute) and
                c.func.attr in ('write_values', 'read_values')]
        if not recs: continue
        kindnode = recs[0].args[1] if recs[0].func.attr == 'write_values' else recs[0].args[0]
        kind = const_str(kindnode)
        K = None
        for tab in tables:
            if kind in tab: K = len(tab[kind][1])
        if K is None or K < 2: continue
        e = lp.iter.args[0]
        if isinstance(e, ast.Name):
            cands = [a for a in assigns.get(e.id, []) if a.lineno < lp.lineno]
            if not cands: continue
            e = cands[-1].value
        # only expressions converting a number of values into a number of lines (a division) are in scope
        if not any(isinstance(x, ast.BinOp) and isinstance(x.op, (ast.Div, ast.FloorDiv)) for x in ast.walk(e)): continue
        # the count variable: the single Name / len(...) / subscript the expression depends on
        atoms = []
        for x in ast.walk(e):
            if isinstance(x, ast.Call) and call_name(x) == 'len': atoms.append(norm(x))
        if not atoms:
            for x in ast.walk(e):
                if isinstance(x, ast.Subscript): atoms.append(norm(x))
        if not atoms:
            for x in ast.walk(e):
                if isinstance(x, ast.Name) and x.id not in ('int', 'ceil', 'float', 'abs', 'max', 'min'): atoms.append(x.id)
        atoms = sorted(set(atoms))
        if len(atoms) != 1: continue
        src = norm(e).replace(atoms[0], '__N__')
        try:
            tree = ast.parse(src, mode='eval').body
        except SyntaxError:
            continue
        found += 1
        key = '%s :: line count `%s` for %d-per-line %s' % (fi.short, norm(e), K, kind)
        bad = None
        try:
            for N in range(0, 4 * K + 2):
                it = Interp({'__N__': N, 'ceil': math.ceil})
                from ..consteval import BUILTINS
                v = it.expr(tree) if 'ceil' not in src else _eval_with_ceil(tree, N)
                want = -(-N // K)
                if int(v) != want:
                    if N == 0: continue          # an empty list is excluded by the guard around the loop
                    bad = (N, int(v), want); break
        except AnalysisError as ex:
            run.unknown(key, 'line-count expression not evaluable: %s' % ex, where=fi.where(lp), rule=rule); continue
        # counts of a partly negative convention (-const_timestep) etc. are outside this shape
        if bad:
            # N = 0 is excluded when the loop is guarded to be non-empty
            if True:
                run.violated(key, 'for N = %d values the expression gives %d lines, but %d values fit %d per line in %d lines: '
                             'a record too many is %s (the reader/writer pair goes out of step on exact multiples of %d)'
                             % (bad[0], bad[1], bad[0], K, bad[2], 'written' if recs[0].func.attr == 'write_values' else 'read', K),
                             where=fi.where(lp), rule=rule, robust=True)     # the expression is evaluated, no local is matched by name
        else:
            run.ok(key, 'equals ceil(N/%d) for N = 0..%d' % (K, 4 * K + 1), where=fi.where(lp), rule=rule)
    return found


def _eval_with_ceil(tree, N):
    """tiny evaluator for the int(ceil(N / K.)) idiom (floats allowed)"""
    import math

    def ev(n):
        if isinstance(n, ast.Constant): return n.value
        if isinstance(n, ast.Name):
            if n.id == '__N__': return N
            raise AnalysisError('name %s' % n.id)
        if isinstance(n, ast.BinOp):
            a, b = ev(n.left), ev(n.right)
            if isinstance(n.op, ast.Div): return a / b
            if isinstance(n.op, ast.FloorDiv): return a // b
            if isinstance(n.op, ast.Add): return a + b
            if isinstance(n.op, ast.Sub): return a - b
            if isinstance(n.op, ast.Mult): return a * b
            raise AnalysisError('operator')
        if isinstance(n, ast.UnaryOp) and isinstance(n.op, ast.USub): return -ev(n.operand)
        if isinstance(n, ast.Call) and call_name(n) in ('int', 'ceil', 'float', 'abs') and len(n.args) == 1:
            v = ev(n.args[0])
            return {'int': int, 'ceil': math.ceil, 'float': float, 'abs': abs}[call_name(n)](v)
        raise AnalysisError('expression %s' % norm(n))
    return ev(tree)


# ---------------------------------------------------------------------------
class _T(object):
    def __init__(self, test): self.test = test


def truth_uses(e, is_subject):
    """subject nodes whose truth value decides the condition e (e is in a boolean position)"""
    if is_subject(e): return [e]
    if isinstance(e, ast.UnaryOp) and isinstance(e.op, ast.Not): return truth_uses(e.operand, is_subject)
    if isinstance(e, ast.BoolOp): return [x for v in e.values for x in truth_uses(v, is_subject)]
    return truth_uses_inner(e, is_subject, top_only=True)


def truth_uses_inner(e, is_subject, top_only=False):
    """subjects used as a truth value by an operator that forces one, wherever the expression stands:
    `not x`, `x and/or y`, bool(x), all((x, ...)), any([x, ...])"""
    out = []
    if isinstance(e, ast.UnaryOp) and isinstance(e.op, ast.Not):
        out += truth_uses(e.operand, is_subject)
    elif isinstance(e, ast.BoolOp):
        # the last operand of and/or is passed through, not tested
        for v in e.values[:-1]: out += truth_uses(v, is_subject)
    elif isinstance(e, ast.Call) and isinstance(e.func, ast.Name) and e.func.id in ('bool', 'all', 'any') and len(e.args) == 1:
        a = e.args[0]
        if e.func.id == 'bool': out += truth_uses(a, is_subject)
        elif isinstance(a, (ast.Tuple, ast.List, ast.Set)):
            for x in a.elts: out += truth_uses(x, is_subject)
        elif isinstance(a, (ast.GeneratorExp, ast.ListComp)) and is_subject_elt(a, is_subject):
            out += is_subject_elt(a, is_subject)
    return out


def is_subject_elt(comp, is_subject):
    """all(v for v in (k1, k2, k3)) : the element is the loop variable of a literal tuple of subjects"""
    g = comp.generators[0]
    if isinstance(comp.elt, ast.Name) and isinstance(g.target, ast.Name) and comp.elt.id == g.target.id and \
       isinstance(g.iter, (ast.Tuple, ast.List)):
        return [x for x in g.iter.elts if is_subject(x)]
    return []


def nonetest_rule(run, fi, tables, rule='NONETEST'):
    """a real-valued field read from a record must be tested for absence with `is None`; a truthiness test
    (`if x:`, `not x`, `x and y`) also fires for a legitimate 0.0 in the file."""
    from ..fmap import find_destructure
    n = 0
    for blk in _all_blocks(fi.node):
        for st in blk:
            if not (isinstance(st, ast.Assign) and isinstance(st.value, ast.Call) and call_name(st.value) in ('parse_string', 'read_values')):
                continue
            c = st.value
            k = const_str(c.args[1] if call_name(c) == 'parse_string' else c.args[0])
            spec = None
            for tab in tables:
                if k in tab: spec = tab[k]
            if spec is None or not isinstance(st.targets[0], (ast.List, ast.Tuple)): continue
            floats = {}
            for t, fmt in zip(st.targets[0].elts, spec[1]):
                if isinstance(t, ast.Name) and fmt[-1] in 'efg': floats[t.id] = fmt
            if not floats: continue
            n += 1
            bad = []

            def truthy(e):
                return truth_uses(e, lambda z: isinstance(z, ast.Name) and z.id in floats)
            for x in ast.walk(fi.node):
                tests = []
                if isinstance(x, (ast.If, ast.While, ast.IfExp)): tests.append((x.test, True))
                elif isinstance(x, ast.comprehension): tests.extend((t, True) for t in x.ifs)
                elif isinstance(x, ast.expr): tests.append((x, False))
                for t, is_test in tests:
                    for nm in (truthy(t) if is_test else truth_uses_inner(t, lambda z: isinstance(z, ast.Name) and z.id in floats)):
                        if nm.lineno >= st.lineno: bad.append((nm, x if is_test else _T(t)))
            key = '%s :: %s real fields tested for absence with `is None`' % (fi.short, k)
            if bad:
                nm, x = bad[0]
                run.violated(key, 'the real field `%s` (%s) is used as a truth value in `%s`: a value of exactly 0.0 in the file is '
                             'treated like a blank field' % (nm.id, floats[nm.id], norm(x.test)), where=fi.where(nm), rule=rule)
            else:
                run.ok(key, sorted(floats), where=fi.where(st), rule=rule)
    return n


def _all_blocks(fnode):
    out = []
    for n in ast.walk(fnode):
        for f in ('body', 'orelse', 'finalbody'):
            b = getattr(n, f, None)
            if isinstance(b, list) and b and isinstance(b[0], ast.stmt): out.append(b)
    return out


def fix_dominates_rule(run, fi, ctors, rule='NAMEFIX'):
    """In a record reader a block name read from the file is re-bound `X = fix_blockname(X)` and then handed to a constructor /
    adder.  The re-binding must have happened on EVERY path reaching that hand-over (a fix made under an option leaves the raw
    name in the object when the option is off, while the writer un-fixes unconditionally).  Returns the number of hand-overs."""
    fixed = {}
    for n in walk_no_nested(fi.node):
        if isinstance(n, ast.Assign) and len(n.targets) == 1:
            pairs = []
            t, v = n.targets[0], n.value
            if isinstance(t, ast.Name): pairs = [(t, v)]
            elif isinstance(t, (ast.Tuple, ast.List)) and isinstance(v, (ast.Tuple, ast.List)) and len(t.elts) == len(v.elts):
                pairs = list(zip(t.elts, v.elts))
            for a, b in pairs:
                if isinstance(a, ast.Name) and isinstance(b, ast.Call) and call_name(b) == 'fix_blockname' and b.args and \
                   isinstance(b.args[0], ast.Name) and b.args[0].id == a.id:
                    fixed.setdefault(a.id, []).append(n)
    count = 0
    for name, fixes in sorted(fixed.items()):
        binds = [n for n in walk_no_nested(fi.node) if isinstance(n, ast.Assign) and n not in fixes and
                 any(isinstance(x, ast.Name) and x.id == name and isinstance(x.ctx, ast.Store) for t in n.targets for x in ast.walk(t))]
        uses = []
        for st in walk_no_nested(fi.node):
            if isinstance(st, (ast.Assign, ast.Expr)) and st not in fixes:
                if isinstance(st, ast.Assign) and any(isinstance(t, ast.Subscript) and any(isinstance(x, ast.Name) and x.id == name for x in ast.walk(t.slice))
                                                      for t in st.targets):
                    uses.append(st); continue
                for c in ast.walk(st.value):
                    if isinstance(c, ast.Call) and call_name(c) in ctors and \
                       any(isinstance(x, ast.Name) and x.id == name for a in list(c.args) + [k.value for k in c.keywords] for x in ast.walk(a)):
                        uses.append(st); break
        for st in uses:
            count += 1
            key = '%s :: `%s` is fixed on every path to `%s`' % (fi.short, name, norm(st)[:50])
            an = flow.MustPass(lambda n: n in fixes, kill=lambda n: n in binds)
            state = flow.state_at(fi.node, st, an, False)
            if state is True: run.ok(key, where=fi.where(st), rule=rule)
            elif state is False:
                run.violated(key, 'the block name `%s` reaches `%s` on a path that skips `%s`: names of the form "AB  1" are then stored as read '
                             'while the writer un-fixes every name, so they change on a round trip' % (name, norm(st)[:50], norm(fixes[0])),
                             where=fi.where(st), rule=rule, robust=True)
            else: run.unknown(key, 'hand-over not reached by the path analysis', where=fi.where(st), rule=rule)
    return count
