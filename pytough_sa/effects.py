"""Attribute effect summaries over the methods of one class (self-calls),
with optional dynamic-binding resolution (t2listing.detect_simulator)."""
import ast
from .core import AnalysisError, walk_no_nested, dotted, call_name, is_self_attr
from . import flow


class ClassEffects(object):
    """Direct and transitive read/write sets of ``self.<attr>`` per method.

    pseudo attributes:
      FILEPOS   - position of self._file (seek = write; readline/read/tell = read+write)
      TABLEDATA - cells of listing tables (stores through self._table[...])
    """

    def __init__(self, prog, cls, bound=None, file_attr='_file', table_attr='_table'):
        self.prog, self.cls = prog, cls
        self.bound = bound or {}          # unsuffixed name -> [method names]
        self.file_attr, self.table_attr = file_attr, table_attr
        self._direct = {}
        self._trans = {}

    # -- resolution -------------------------------------------------------
    def targets(self, name):
        """method names a call self.<name>() may reach"""
        if name in self.cls.methods: return [name]
        if name in self.bound: return list(self.bound[name])
        return []

    def prop_getter(self, attr):
        p = self.cls.properties.get(attr)
        return p[0] if p else None

    def prop_setter(self, attr):
        p = self.cls.properties.get(attr)
        return p[1] if p else None

    # -- direct effects of a node (expression or simple statement) --------------
    def node_effects(self, node, aliases=None):
        """returns (reads, writes, calls) for this node, not descending into
        nested function definitions. calls = method names on self."""
        reads, writes, calls = set(), set(), []
        aliases = aliases or {}
        for n in [node] + list(walk_no_nested(node)):
            if isinstance(n, ast.Attribute) and isinstance(n.value, ast.Name) and n.value.id == 'self':
                a = n.attr
                if isinstance(n.ctx, ast.Store):
                    s = self.prop_setter(a)
                    if a in self.cls.properties:
                        if s: calls.append(s)
                    else: writes.add(a)
                elif isinstance(n.ctx, ast.Del):
                    writes.add(a)
                else:
                    g = self.prop_getter(a)
                    if g: calls.append(g)
                    elif a in self.cls.methods or a in self.bound:
                        pass   # method reference: handled at Call
                    else: reads.add(a)
            if isinstance(n, ast.AugAssign) and is_self_attr(n.target):
                a = n.target.attr
                g = self.prop_getter(a)
                if g: calls.append(g)
                elif a not in self.cls.properties: reads.add(a)
            if isinstance(n, ast.Call):
                f = n.func
                if isinstance(f, ast.Attribute) and isinstance(f.value, ast.Name) and f.value.id == 'self':
                    for t in self.targets(f.attr):
                        calls.append(t)
                # file position
                if isinstance(f, ast.Attribute) and is_self_attr(f.value, self.file_attr):
                    if f.attr == 'seek':
                        writes.add('FILEPOS')
                    elif f.attr in ('readline', 'read', 'tell', 'readlines'):
                        reads.add('FILEPOS'); writes.add('FILEPOS')
                if isinstance(f, ast.Name) and f.id == 'setattr' and n.args and \
                   isinstance(n.args[0], ast.Name) and n.args[0].id == 'self':
                    writes.add('DYNAMIC')
            # stores through the table dictionary: self._table[x][y] = v, table[key] = v (alias)
            if isinstance(n, ast.Subscript) and isinstance(n.ctx, ast.Store):
                base = n.value
                root = base
                while isinstance(root, (ast.Subscript, ast.Attribute)) and not is_self_attr(root):
                    root = root.value
                if is_self_attr(root, self.table_attr):
                    if root is base: writes.add(self.table_attr)    # self._table[k] = ...
                    else: writes.add('TABLEDATA')
                elif isinstance(root, ast.Name) and aliases.get(root.id) == 'TABLE':
                    writes.add('TABLEDATA')
                elif is_self_attr(root):
                    writes.add(root.attr + '[]')
        return reads, writes, calls

    def aliases_of(self, fnode):
        al = {}
        for n in walk_no_nested(fnode):
            if isinstance(n, ast.Assign) and len(n.targets) == 1 and isinstance(n.targets[0], ast.Name):
                v = n.value
                if isinstance(v, ast.Subscript) and is_self_attr(v.value, self.table_attr):
                    al[n.targets[0].id] = 'TABLE'
        return al

    def direct(self, mname):
        if mname not in self._direct:
            fi = self.cls.methods[mname]
            r, w, c = set(), set(), []
            al = self.aliases_of(fi.node)
            for st in fi.node.body:
                a, b, d = self.node_effects(st, al)
                r |= a; w |= b; c += d
            # nested functions defined inside are treated as part of the method
            for n in ast.walk(fi.node):
                if isinstance(n, (ast.FunctionDef, ast.Lambda)) and n is not fi.node:
                    body = n.body if isinstance(n.body, list) else [n.body]
                    for st in body:
                        a, b, d = self.node_effects(st, al)
                        r |= a; w |= b; c += d
            self._direct[mname] = (r, w, c)
        return self._direct[mname]

    def transitive(self, mname, _stack=None):
        if mname in self._trans: return self._trans[mname]
        _stack = _stack or []
        if mname in _stack:
            return set(), set(), set()
        r, w, c = self.direct(mname)
        R, W, C = set(r), set(w), set([mname])
        for callee in c:
            if callee in self.cls.methods:
                a, b, d = self.transitive(callee, _stack + [mname])
                R |= a; W |= b; C |= d
        if not _stack:
            self._trans[mname] = (R, W, C)
        return R, W, C

    # -- read-before-write -----------------------------------------------------
    def rbw(self, mname, _stack=None):
        """(RBW, MW): attributes possibly read before being written in the call
        tree of mname, and attributes certainly written on every normal exit."""
        _stack = _stack or []
        key = ('rbw', mname)
        if key in self._trans: return self._trans[key]
        if mname in _stack:
            R, W, _ = self.transitive(mname)
            return set(R), set()
        fi = self.cls.methods[mname]
        outer = self
        al = self.aliases_of(fi.node)
        rbw = set()

        class A(flow.Analysis):
            def eff(self, node, st):
                r, w, calls = outer.node_effects(node, al)
                W = set(st)
                # order inside one simple statement: calls/reads happen before its stores,
                # except seek-then-read chains which do not occur in one statement
                for a in r:
                    if a not in W: rbw.add(a)
                mw_all = set()
                for cal in calls:
                    if cal in outer.cls.methods:
                        cr, cw = outer.rbw(cal, _stack + [mname])
                        for a in cr:
                            if a not in W: rbw.add(a)
                        mw_all |= cw
                W |= mw_all
                W |= w
                return frozenset(W)

            def transfer(self, stmt, st):
                if isinstance(stmt, (ast.FunctionDef, ast.ClassDef, ast.ExceptHandler)):
                    return st
                if isinstance(stmt, ast.With):
                    return st
                return self.eff(stmt, st)

            def on_expr(self, e, st):
                return self.eff(e, st)

            def loop_head(self, node, st):
                return st

            def join(self, a, b):
                return a & b

        out = flow.run(A(), fi.node.body, frozenset())
        exits = [s for _, s in out.rets if s is not None]
        if out.fall is not None: exits.append(out.fall)
        mw = None
        for s in exits:
            mw = set(s) if mw is None else (mw & set(s))
        res = (rbw, mw or set())
        if not _stack:
            self._trans[key] = res
        return res
