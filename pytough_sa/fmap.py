"""Field <-> attribute maps of positional fixed-format records.

Reader side: the names a record is destructured into are followed through
normalising re-assignments into constructor arguments, which are bound to
attributes through the class's __init__.  Writer side: the list expression handed
to write_values is evaluated symbolically into one source per field.  Both
sides yield, per field index, a descriptor  <attr path> {wrappers}  that the
rules compare."""
import ast
from .core import AnalysisError, norm, dotted, call_name, walk_no_nested, const_str

ELEMENT_OF = {'rocktypelist': 'rocktype', 'blocklist': 't2block', 'connectionlist': 't2connection',
              'generatorlist': 't2generator', '_blocklist': 't2blockincon', 'nodelist': 'node',
              'columnlist': 'column', 'layerlist': 'layer', 'welllist': 'well',
              'rocktype': 'rocktype', 'block': 't2block', 'connection': 't2connection', 'generator': 't2generator',
              'column': 'column', 'layer': 'layer', 'node': 'node', 'well': 'well'}


class Sym(object):
    """symbolic value: kind in {'field','attr','const','none','list','top'}"""
    def __init__(self, kind, **kw):
        self.kind = kind
        self.wr = ()           # wrappers applied (innermost first)
        self.__dict__.update(kw)

    def wrap(self, w):
        s = Sym(self.kind, **dict((k, v) for k, v in self.__dict__.items() if k not in ('kind',)))
        s.wr = self.wr + (w,)
        return s

    def __repr__(self):
        base = {'field': lambda: 'F%s' % (self.index,), 'attr': lambda: self.path, 'const': lambda: repr(self.value),
                'none': lambda: 'None', 'list': lambda: '[%s]' % ', '.join(map(repr, self.items)),
                'top': lambda: '?(%s)' % getattr(self, 'why', '')}[self.kind]()
        return base + ''.join('.' + w for w in self.wr)


TOPS = lambda why: Sym('top', why=why)

WRAP_CALLS = {'fix_blockname': 'Fix', 'unfix_blockname': 'Unfix', 'trim_trailing_nones': 'Trim',
              'list': None, 'float': None, 'copy': None, 'padstring': None}


def ctor_attr_map(prog, clsname):
    """param name -> attribute name(s) from __init__ (self.a = a ; self.a, self.b = a, b)"""
    cls = prog.find_class(clsname)
    if cls is None or '__init__' not in cls.methods:
        raise AnalysisError('class %s / its __init__ not found' % clsname)
    init = cls.methods['__init__']
    out = {}
    for n in walk_no_nested(init.node):
        if isinstance(n, ast.Assign):
            pairs = []
            for t in n.targets:
                if isinstance(t, ast.Tuple) and isinstance(n.value, ast.Tuple) and len(t.elts) == len(n.value.elts):
                    pairs += list(zip(t.elts, n.value.elts))
                else: pairs.append((t, n.value))
            for t, v in pairs:
                if isinstance(t, ast.Attribute) and dotted(t.value) == 'self':
                    src = v
                    if isinstance(src, ast.Call) and call_name(src) in ('list', 'copy') and src.args: src = src.args[0]
                    if isinstance(src, ast.Name) and src.id in init.params:
                        out.setdefault(src.id, t.attr)
    return init.params[1:], out


def _with_unit_aliases(fi, unit_names):
    """the unit scale may be held in a local (`scale = self.unit_scale`, hoisted out of a loop): such locals, assigned
    nothing else in the function, stand for it"""
    names = list(unit_names)
    binds = {}
    for n in ast.walk(fi.node):
        if isinstance(n, ast.Assign):
            for t in n.targets:
                if isinstance(t, ast.Name): binds.setdefault(t.id, []).append(n.value)
        elif isinstance(n, (ast.AugAssign, ast.For)) and isinstance(n.target, ast.Name):
            binds.setdefault(n.target.id, []).append(None)
    for k, vals in binds.items():
        if len(vals) == 1 and vals[0] is not None and norm(vals[0]) in unit_names: names.append(k)
    return tuple(names)


class ReaderEval(object):
    """symbolic evaluation of the reader statements that follow a destructuring"""

    def __init__(self, prog, fi, unit_names=('self.unit_scale',)):
        self.prog, self.fi = prog, fi
        self.unit_names = _with_unit_aliases(fi, unit_names)
        self.env = {}

    def expr(self, e):
        if isinstance(e, ast.Name):
            return self.env.get(e.id, TOPS('name ' + e.id))
        if isinstance(e, ast.Constant):
            return Sym('none') if e.value is None else Sym('const', value=e.value)
        if isinstance(e, (ast.List, ast.Tuple)):
            return Sym('list', items=[self.expr(x) for x in e.elts])
        if isinstance(e, ast.Call):
            cn = call_name(e)
            if cn in ('array', 'asarray') and e.args: return self.expr(e.args[0])
            if cn in WRAP_CALLS and e.args:
                v = self.expr(e.args[0])
                return v.wrap(WRAP_CALLS[cn]) if WRAP_CALLS[cn] else v
            if isinstance(e.func, ast.Attribute) and cn in ('strip', 'rjust', 'ljust', 'rstrip', 'lstrip'):
                v = self.expr(e.func.value)
                w = {'strip': 'Strip', 'rstrip': 'Strip', 'lstrip': 'Strip', 'rjust': 'Rjust', 'ljust': 'Ljust'}[cn]
                return v.wrap(w)
            return TOPS('call ' + norm(e)[:40])
        if isinstance(e, ast.BinOp) and isinstance(e.op, (ast.Mult, ast.Div)):
            for a, b in ((e.left, e.right), (e.right, e.left)):
                if norm(b) in self.unit_names:
                    v = self.expr(a)
                    w = 'MulUnit' if isinstance(e.op, ast.Mult) else 'DivUnit'
                    if v.kind == 'list': return Sym('list', items=[x.wrap(w) for x in v.items])
                    return v.wrap(w)
            return TOPS('arith')
        if isinstance(e, ast.Subscript):
            # D[fieldname] : lookup of an object by a name read from the file
            if isinstance(e.slice, ast.Name) and e.slice.id in self.env and self.env[e.slice.id].kind == 'field':
                v = self.env[e.slice.id]
                return v.wrap('ByName')
            v = self.expr(e.value)
            if v.kind == 'list' and isinstance(e.slice, ast.Constant) and isinstance(e.slice.value, int):
                try: return v.items[e.slice.value]
                except IndexError: return TOPS('index')
            if v.kind == 'list' and isinstance(e.slice, ast.Slice):
                lo = e.slice.lower.value if isinstance(e.slice.lower, ast.Constant) else (None if e.slice.lower is None else 'x')
                hi = None
                if e.slice.upper is not None:
                    u = e.slice.upper
                    if isinstance(u, ast.Constant): hi = u.value
                    elif isinstance(u, ast.UnaryOp) and isinstance(u.op, ast.USub) and isinstance(u.operand, ast.Constant): hi = -u.operand.value
                    else: hi = 'x'
                if lo == 'x' or hi == 'x': return TOPS('slice')
                return Sym('list', items=v.items[lo:hi])
            return TOPS('subscript')
        if isinstance(e, ast.ListComp) and len(e.generators) == 1 and not e.generators[0].ifs and \
           isinstance(e.generators[0].target, ast.Name):
            src = self.expr(e.generators[0].iter)
            if src.kind == 'list':
                out = []
                tname = e.generators[0].target.id
                saved = self.env.get(tname)
                for it in src.items:
                    self.env[tname] = it
                    out.append(self.expr(e.elt))
                if saved is None: self.env.pop(tname, None)
                else: self.env[tname] = saved
                return Sym('list', items=out)
            return TOPS('comprehension')
        if isinstance(e, ast.IfExp):
            a, b = self.expr(e.body), self.expr(e.orelse)
            return a if repr(a) == repr(b) else (a if b.kind == 'none' else (b if a.kind == 'none' else TOPS('ifexp')))
        return TOPS(type(e).__name__)

    def bind_fields(self, targets, nfields):
        names = []
        if isinstance(targets, (ast.List, ast.Tuple)):
            for i, t in enumerate(targets.elts):
                if isinstance(t, ast.Name): self.env[t.id] = Sym('field', index=i)
                elif isinstance(t, ast.Subscript): self.env[norm(t)] = Sym('field', index=i)
                names.append(norm(t))
        elif isinstance(targets, ast.Name):
            self.env[targets.id] = Sym('list', items=[Sym('field', index=i) for i in range(nfields)])
        return names

    def assign(self, st):
        """normalising re-assignments of tracked names"""
        if isinstance(st, ast.Assign) and len(st.targets) == 1:
            t = st.targets[0]
            if isinstance(t, ast.Name):
                self.env[t.id] = self.expr(st.value)
            elif isinstance(t, ast.Tuple) and isinstance(st.value, ast.Tuple) and len(t.elts) == len(st.value.elts):
                vals = [self.expr(v) for v in st.value.elts]
                for a, v in zip(t.elts, vals):
                    if isinstance(a, ast.Name): self.env[a.id] = v
        elif isinstance(st, ast.AugAssign) and isinstance(st.target, ast.Name) and isinstance(st.op, (ast.Mult, ast.Div)) \
                and norm(st.value) in self.unit_names and st.target.id in self.env:
            self.env[st.target.id] = self.env[st.target.id].wrap('MulUnit' if isinstance(st.op, ast.Mult) else 'DivUnit')
        elif isinstance(st, ast.If):
            # `if x == 0: x = None`  (zero-to-none normalisation) keeps the binding;
            # other conditionals: evaluate both branches and keep bindings that agree
            t = st.test
            if isinstance(t, ast.Compare) and isinstance(t.left, ast.Name) and len(st.body) == 1 and not st.orelse \
               and isinstance(st.body[0], ast.Assign) and norm(st.body[0].targets[0]) == t.left.id and \
               isinstance(st.body[0].value, ast.Constant) and st.body[0].value.value is None:
                if t.left.id in self.env: self.env[t.left.id] = self.env[t.left.id].wrap('ZeroToNone')
                return
            before = dict(self.env)
            for s in st.body: self.assign(s)
            a = dict(self.env)
            self.env = dict(before)
            for s in st.orelse: self.assign(s)
            b = self.env
            merged = {}
            for k in set(a) | set(b):
                va, vb = a.get(k), b.get(k)
                if va is not None and vb is not None and repr(va) == repr(vb): merged[k] = va
                elif va is not None and vb is not None and vb.kind == 'none': merged[k] = va.wrap('Optional')
                elif va is not None and vb is not None and va.kind == 'none': merged[k] = vb.wrap('Optional')
                elif va is not None and vb is not None and va.kind != 'top' and vb.kind == 'top': merged[k] = va
                elif va is not None and vb is not None and vb.kind != 'top' and va.kind == 'top': merged[k] = vb
                elif va is not None and vb is not None: merged[k] = va if va.kind != 'top' else vb
                else: merged[k] = va if va is not None else vb
            self.env = merged
        elif isinstance(st, ast.Try):
            for s in st.body: self.assign(s)


def flatten_dest(sym, path, out):
    """sym (evaluated constructor argument) -> out[field index] = (path, wrappers)"""
    if sym.kind == 'field':
        out.setdefault(sym.index, []).append((path, sym.wr))
    elif sym.kind == 'list':
        for j, it in enumerate(sym.items):
            flatten_dest(it, '%s[%d]' % (path, j), out)


def reader_ctor_map(prog, ev, call, clsname):
    """field index -> [(attr path, wrappers)] for a constructor call evaluated in ev"""
    params, pmap = ctor_attr_map(prog, clsname)
    out = {}
    for i, a in enumerate(call.args):
        if i < len(params):
            attr = pmap.get(params[i], params[i])
            flatten_dest(ev.expr(a), attr, out)
    for k in call.keywords:
        attr = pmap.get(k.arg, k.arg)
        flatten_dest(ev.expr(k.value), attr, out)
    return out


# ---------------------------------------------------------------------------
class _AliasView(object):
    def __init__(self, we): self.we = we
    def __contains__(self, k): return self.we.alias_at(k) is not None
    def __getitem__(self, k): return self.we.alias_at(k)[1]
    def get(self, k, d=None):
        r = self.we.alias_at(k)
        return r[1] if r else d


class WriterEval(object):
    def __init__(self, prog, fi, unit_names=('self.unit_scale',)):
        self.prog, self.fi = prog, fi
        self.unit_names = _with_unit_aliases(fi, unit_names)
        self.vartype = {}      # name -> class (loop variables over typed containers)
        self.alias = {}
        self.alias_pos = {}
        self.at_line = 10 ** 9
        for n in ast.walk(fi.node):
            if isinstance(n, (ast.For, ast.comprehension)) and isinstance(n.target, ast.Name):
                it = n.iter
                if isinstance(it, ast.ListComp): it = it.generators[0].iter
                if isinstance(it, ast.Attribute) and it.attr in ELEMENT_OF:
                    cls = ELEMENT_OF[it.attr]
                    if fi.module.name == 'mulgrids' and cls == 't2connection': cls = 'connection'
                    self.vartype[n.target.id] = cls
                if isinstance(it, ast.Attribute) and it.attr in ('node', 'column', 'pos', 'block') and isinstance(it.value, ast.Name) \
                   and it.value.id in self.vartype:
                    self.vartype[n.target.id] = {'node': 'node', 'column': 'column', 'block': 't2block'}.get(it.attr, None) \
                        or ('%s.%s[*]' % (self.vartype[it.value.id], it.attr))

    def path(self, e):
        """attribute path of an expression rooted at a typed variable, else None"""
        if isinstance(e, ast.Name):
            if e.id in self.vartype: return self.vartype[e.id]
            return None
        if isinstance(e, ast.Attribute):
            b = self.path(e.value)
            if b is not None: return '%s.%s' % (b, e.attr)
            if isinstance(e.value, ast.Name) and e.value.id == 'self': return 'self.%s' % e.attr
            return None
        if isinstance(e, ast.Subscript):
            b = self.path(e.value)
            if b is None:
                # dictionary copies of an element: blkw['name'] -> t2block.name
                if isinstance(e.value, ast.Name) and e.value.id in self.alias and const_str(e.slice):
                    src = self.alias[e.value.id]
                    if isinstance(src, ast.Attribute) and src.attr == '__dict__':
                        bb = self.path(src.value)
                        if bb: return '%s.%s' % (bb, const_str(e.slice))
                return None
            if isinstance(e.slice, ast.Constant): return '%s[%r]' % (b, e.slice.value) if isinstance(e.slice.value, str) else '%s[%d]' % (b, e.slice.value)
            return '%s[%s]' % (b, norm(e.slice))
        return None

    def collect_aliases(self):
        """name -> [(line, value expr)], and "X['k']" -> [(line, value expr)] for dictionary-entry stores"""
        self.alias_pos = {}
        self.at_line = 10 ** 9
        for n in ast.walk(self.fi.node):
            if isinstance(n, ast.Assign) and len(n.targets) == 1:
                t, v = n.targets[0], n.value
                if isinstance(t, ast.Name):
                    if isinstance(v, ast.Call) and call_name(v) in ('copy', 'deepcopy') and v.args: v = v.args[0]
                    self.alias_pos.setdefault(t.id, []).append((n.lineno, v))
                elif isinstance(t, ast.Subscript) and isinstance(t.value, ast.Name) and const_str(t.slice) is not None:
                    self.alias_pos.setdefault(norm(t), []).append((n.lineno, v))
                elif isinstance(t, ast.Tuple) and isinstance(v, ast.Tuple) and len(t.elts) == len(v.elts):
                    for a, b in zip(t.elts, v.elts):
                        if isinstance(a, ast.Name): self.alias_pos.setdefault(a.id, []).append((n.lineno, b))
            if isinstance(n, ast.AugAssign) and isinstance(n.op, ast.Add) and isinstance(n.target, ast.Name):
                # vals += more  ==  vals = <vals as of before this line> + more
                b = ast.BinOp(left=ast.Name(id=n.target.id, ctx=ast.Load()), op=ast.Add(), right=n.value)
                ast.copy_location(b, n); ast.fix_missing_locations(b)
                self.alias_pos.setdefault(n.target.id, []).append((n.lineno, b))
        for k in self.alias_pos: self.alias_pos[k].sort(key=lambda x: x[0])
        self.alias = _AliasView(self)
        # arm paths: which branch of which `if` a line lies in (assignments in the other arm are not predecessors)
        self._arms = []
        def walk(stmts, path):
            for st in stmts:
                self._arms.append((st.lineno, getattr(st, 'end_lineno', st.lineno) or st.lineno, path))
                if isinstance(st, ast.If):
                    walk(st.body, path + ((id(st), 0),)); walk(st.orelse, path + ((id(st), 1),))
                else:
                    for f in ('body', 'orelse', 'finalbody'):
                        b = getattr(st, f, None)
                        if isinstance(b, list) and b and isinstance(b[0], ast.stmt): walk(b, path)
                    for h in getattr(st, 'handlers', []): walk(h.body, path)
        walk(self.fi.node.body, ())

    def arm_path(self, line):
        best = ()
        for lo, hi, path in self._arms:
            if lo <= line <= hi and len(path) >= len(best): best = path
        return best

    @staticmethod
    def arms_conflict(p, q):
        dp = dict(p)
        return any(i in dp and dp[i] != a for i, a in q)

    def alias_at(self, key, before=None):
        """latest assignment to key strictly before line `before` (default: the use site)"""
        lim = self.at_line if before is None else before
        here = self.arm_path(lim) if lim < 10 ** 9 and getattr(self, '_arms', None) else ()
        cands = [(ln, v) for ln, v in self.alias_pos.get(key, []) if ln < lim and not self.arms_conflict(self.arm_path(ln), here)]
        if not cands: return None
        best = cands[-1]
        # `if c: a = x else: a = None`: the None branch only makes the value optional
        def noneish(v):
            if isinstance(v, ast.Constant): return v.value is None
            if isinstance(v, (ast.List, ast.Tuple)): return bool(v.elts) and all(noneish(x) for x in v.elts)
            if isinstance(v, ast.BinOp) and isinstance(v.op, ast.Mult): return noneish(v.left)
            # `vals += [None, None]` (recorded as vals + [None, None]): the same list with absent values appended
            if isinstance(v, ast.BinOp) and isinstance(v.op, ast.Add) and isinstance(v.left, ast.Name) and v.left.id == key: return noneish(v.right)
            return False
        if noneish(best[1]):
            nn = [c for c in cands if not noneish(c[1])]
            if nn: best = nn[-1]
        return best

    def items(self, e, depth=0):
        """list expression -> list of per-field Sym, with ('rest', Sym) for one part of unknown length"""
        if depth > 6: return [TOPS('depth')]
        if isinstance(e, (ast.List, ast.Tuple)):
            return [self.scalar(x, depth) for x in e.elts]
        if isinstance(e, ast.BinOp) and isinstance(e.op, ast.Add):
            return self.items(e.left, depth) + self.items(e.right, depth)
        if isinstance(e, ast.BinOp) and isinstance(e.op, ast.Mult) and isinstance(e.left, ast.List) and \
           isinstance(e.right, ast.Constant) and isinstance(e.right.value, int):
            return self.items(e.left, depth) * e.right.value
        if isinstance(e, ast.Call) and call_name(e) == 'list' and e.args:
            return self.items(e.args[0], depth)
        if isinstance(e, ast.Name) and e.id not in self.vartype:
            hit = self.alias_at(e.id)
            if hit is not None:
                save = self.at_line
                self.at_line = hit[0]
                try: return self.items(hit[1], depth + 1)
                finally: self.at_line = save
        if isinstance(e, ast.ListComp) and len(e.generators) == 1 and not e.generators[0].ifs and \
           isinstance(e.generators[0].target, ast.Name):
            # [f(v) for v in X]: one item per element of X, described by a template in the element index
            src = self.path(e.generators[0].iter)
            if src is not None:
                v = e.generators[0].target.id
                saved = self.vartype.get(v)
                self.vartype[v] = src + '[{j}]'
                try: el = self.scalar(e.elt, depth + 1)
                finally:
                    if saved is None: self.vartype.pop(v, None)
                    else: self.vartype[v] = saved
                if el.kind == 'attr':
                    t = Sym('attr', path=el.path); t.wr = el.wr; t.template = True
                    return [('rest', t)]
        if isinstance(e, ast.BinOp) and isinstance(e.op, ast.Div) and norm(e.right) in self.unit_names:
            inner = self.items(e.left, depth)
            return [('rest', x[1].wrap('DivUnit')) if isinstance(x, tuple) else x.wrap('DivUnit') for x in inner]
        p = self.path(e)
        if p is not None:
            return [('rest', Sym('attr', path=p))]
        return [('rest', TOPS(norm(e)[:30]))]

    def scalar(self, e, depth=0):
        if isinstance(e, ast.Constant):
            return Sym('none') if e.value is None else Sym('const', value=e.value)
        if isinstance(e, ast.Call):
            cn = call_name(e)
            if cn in WRAP_CALLS and e.args:
                v = self.scalar(e.args[0], depth)
                return v.wrap(WRAP_CALLS[cn]) if WRAP_CALLS[cn] else v
            if isinstance(e.func, ast.Attribute) and cn in ('ljust', 'rjust', 'strip'):
                return self.scalar(e.func.value, depth).wrap({'ljust': 'Ljust', 'rjust': 'Rjust', 'strip': 'Strip'}[cn])
            if cn == 'len' and e.args:
                p = self.path(e.args[0])
                if p: return Sym('attr', path='len(%s)' % p)
            return TOPS('call')
        if isinstance(e, ast.BinOp) and isinstance(e.op, ast.Div) and norm(e.right) in self.unit_names:
            return self.scalar(e.left, depth).wrap('DivUnit')
        if isinstance(e, ast.Name) and e.id not in self.vartype and depth < 6:
            hit = self.alias_at(e.id)
            if hit is not None:
                save = self.at_line
                self.at_line = hit[0]
                try: return self.scalar(hit[1], depth + 1)
                finally: self.at_line = save
        if isinstance(e, ast.Subscript) and isinstance(e.value, ast.Name) and const_str(e.slice) is not None and depth < 6:
            hit = self.alias_at(norm(e))
            if hit is not None:
                save = self.at_line
                self.at_line = hit[0]          # the stored expression is evaluated as of its own line
                try: return self.scalar(hit[1], depth + 1)
                finally: self.at_line = save
        if isinstance(e, ast.Subscript) and isinstance(e.value, ast.Name) and e.value.id in self.alias and \
           isinstance(e.slice, ast.Constant) and isinstance(e.slice.value, int) and depth < 6:
            # pos[0] with pos = node.pos / scale
            hit = self.alias_at(e.value.id)
            save = self.at_line
            self.at_line = hit[0]
            try: inner = self.scalar(hit[1], depth + 1)
            finally: self.at_line = save
            if inner.kind == 'attr':
                s = Sym('attr', path='%s[%d]' % (inner.path, e.slice.value)); s.wr = inner.wr
                return s
        p = self.path(e)
        if p is not None: return Sym('attr', path=p)
        return TOPS(norm(e)[:30])

    def fields(self, e, nfields, at_line=None):
        if at_line is not None: self.at_line = at_line
        its = self.items(e)
        rest = [i for i, x in enumerate(its) if isinstance(x, tuple)]
        if len(rest) > 1: return None
        if not rest:
            return its + [Sym('none')] * max(0, nfields - len(its)) if len(its) <= nfields else its
        k = rest[0]
        n = nfields - (len(its) - 1)
        if n < 0: return None
        base = its[k][1]
        mid = []
        for j in range(n):
            if base.kind == 'attr' and getattr(base, 'template', False):
                s = Sym('attr', path=base.path.replace('{j}', str(j))); s.wr = base.wr
            elif base.kind == 'attr':
                s = Sym('attr', path='%s[%d]' % (base.path, j)); s.wr = base.wr
            else: s = base
            mid.append(s)
        return its[:k] + mid + its[k + 1:]


# ---------------------------------------------------------------------------
def _blocks(fnode):
    out = []
    for n in ast.walk(fnode):
        for f in ('body', 'orelse', 'finalbody'):
            b = getattr(n, f, None)
            if isinstance(b, list) and b and isinstance(b[0], ast.stmt): out.append(b)
    return out


def find_destructure(fi, kind, kinds_alt=()):
    """(assign stmt, enclosing block) for `targets = F.parse_string(line, kind)` / `= F.read_values(kind)`"""
    for blk in _blocks(fi.node):
        for st in blk:
            if isinstance(st, ast.Assign) and isinstance(st.value, ast.Call) and call_name(st.value) in ('parse_string', 'read_values'):
                c = st.value
                k = c.args[1] if call_name(c) == 'parse_string' else c.args[0]
                if const_str(k) == kind or const_str(k) in kinds_alt: return st, blk
    return None, None


def reader_map(prog, fi, kind, clsname, nfields, unit_names=('self.unit_scale',)):
    """field index -> [(attr path, wrappers)], the destructuring statement, and the set of field
    indices that only steer control flow (counts, flags)."""
    st, blk = find_destructure(fi, kind)
    if st is None: raise AnalysisError('%s: no destructuring of record %s' % (fi.short, kind))
    ev = ReaderEval(prog, fi, unit_names)
    ev.bind_fields(st.targets[0], nfields)
    fieldnames = dict((k, v.index) for k, v in ev.env.items() if v.kind == 'field')
    result = {}
    state = {'obj': None, 'done': False}

    def has_ctor(node):
        return [c for c in ast.walk(node) if isinstance(c, ast.Call) and isinstance(c.func, ast.Name) and c.func.id == clsname]

    def process(stmts):
        for s in stmts:
            ctor = has_ctor(s)
            if ctor and not state['done']:
                if isinstance(s, (ast.If, ast.For, ast.While, ast.Try)):
                    # follow the branch that constructs the object
                    for part in (s.body, getattr(s, 'orelse', [])):
                        if any(has_ctor(x) for x in part):
                            process(part); break
                    continue
                m = reader_ctor_map(prog, ev, ctor[0], clsname)
                for k, v in m.items(): result.setdefault(k, []).extend(v)
                state['done'] = True
                if isinstance(s, ast.Assign) and isinstance(s.targets[0], ast.Name) and s.value is ctor[0]:
                    state['obj'] = s.targets[0].id
                continue
            if state['done'] and state['obj'] and isinstance(s, ast.Assign) and isinstance(s.targets[0], ast.Attribute) \
               and isinstance(s.targets[0].value, ast.Name) and s.targets[0].value.id == state['obj']:
                flatten_dest(ev.expr(s.value), s.targets[0].attr, result)
                continue
            ev.assign(s)
    process(blk[blk.index(st) + 1:])
    if not state['done']:
        raise AnalysisError('%s: no %s(...) construction after reading record %s' % (fi.short, clsname, kind))
    # control fields: bound names that are only loaded in tests / ranges
    consumed = set()
    for s in blk[blk.index(st) + 1:]:
        for n in ast.walk(s):
            if isinstance(n, ast.Name) and isinstance(n.ctx, ast.Load) and n.id in fieldnames:
                consumed.add(fieldnames[n.id])
    return result, st, consumed
