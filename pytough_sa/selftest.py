"""placeholder; replaced by the mutation self-test."""
def run_for_property(pid, root=None):
    return 0
def main(args):
    return 0
