"""Mutation self-test of the checkers.

Each entry applies one textual edit to a scratch copy of the nine modules
(under a fresh temporary directory outside /repo and /verif, removed afterwards)
and runs the property's check on the copy.  `bad` entries must be reported as a
VIOLATION by the named rule; `twin` entries are behaviour-preserving and must
leave the check silent (exit 0).  A self-test failure is an ANALYSIS-ERROR of
the checker, never a violation of the tree under analysis.  An entry whose
source fragment no longer exists is reported as skipped."""
import contextlib
import io
import os
import shutil
import sys
import tempfile

from .core import MODULES, REPO

# (id, property, rule, kind, file, old, new)
M = []


def bad(i, pid, rule, f, old, new): M.append((i, pid, rule, 'bad', f, old, new))
def twin(i, pid, f, old, new): M.append((i, pid, None, 'twin', f, old, new))


# ---- C01
bad('c01-term-rocks', 'C01', 'TERM', 't2data.py', "                        outfile.write_values(vals, 'rocks1.2')\n        outfile.write('\\n')\n", "                        outfile.write_values(vals, 'rocks1.2')\n")
bad('c01-kw-coft', 'C01', 'KW', 't2data.py', "outfile.write('COFT\\n')", "outfile.write('COFTS\\n')")
bad('c01-kw-gener', 'C01', 'KW', 't2data.py', "            outfile.write('GENER\\n')\n            for generator", "            outfile.write('GENR\\n')\n            for generator")
bad('c01-recseq-order', 'C01', 'RECSEQ', 't2data.py', "        outfile.write_value_line(paramw, 'param2')\n        self.write_timesteps(outfile)\n        outfile.write_value_line(self.parameter, 'param3')", "        outfile.write_value_line(paramw, 'param2')\n        outfile.write_value_line(self.parameter, 'param3')\n        self.write_timesteps(outfile)")
bad('c01-recseq-missing', 'C01', 'RECSEQ', 't2data.py', "                outfile.write_values(inc[1], 'incon2')\n", "                pass\n")
bad('c01-fmap-swap', 'C01', 'FMAP', 't2data.py', "con.nseq, con.nad1, con.nad2, con.direction] + \\\n                    con.distance", "con.nseq, con.nad2, con.nad1, con.direction] + \\\n                    con.distance")
bad('c01-fmap-volume', 'C01', 'FMAP', 't2data.py', "blk.rocktype.name, blk.volume,\n                            blk.ahtx, blk.pmx]", "blk.rocktype.name, blk.ahtx,\n                            blk.volume, blk.pmx]")
bad('c01-fmap-reader', 'C01', 'FMAP', 't2data.py', "isot, [d1, d2], areax, betax,", "isot, [d2, d1], areax, betax,")
bad('c01-namefix', 'C01', 'NAMEFIX', 't2data.py', "            name1, name2 = fix_blockname(name1), fix_blockname(name2)", "            name1, name2 = fix_blockname(name1), name2")
bad('c01-chunk-k', 'C01', 'CHUNK', 't2data.py', "            nlines = int(ceil(ntimes / 4.))\n            for i in range(nlines):\n                i1, i2 = i * 4, min((i + 1) * 4, ntimes)\n                vals = list(gen.time[i1: i2])", "            nlines = int(ceil(ntimes / 4.))\n            for i in range(nlines):\n                i1, i2 = i * 4, min((i + 1) * 8, ntimes)\n                vals = list(gen.time[i1: i2])")
bad('c01-chunk-ceil', 'C01', 'CHUNK', 't2data.py', "            nlines = int(ceil(self.output_times['num_times_specified'] / 8.))\n            for i in range(nlines):\n                i1, i2", "            nlines = int(ceil(self.output_times['num_times_specified'] / 4.))\n            for i in range(nlines):\n                i1, i2")
bad('c01-twinspec', 'C01', 'TWINSPEC', 't2data.py', "    'blocks': [['name', 'nseq', 'nadd', 'rocktype', 'volume',\n               'ahtx', 'pmx', 'x', 'y', 'z'],\n              ['5s', '5d', '5d', '5s'] + ['15.8e'] * 3", "    'blocks': [['name', 'nseq', 'nadd', 'rocktype', 'volume',\n               'pmx', 'ahtx', 'x', 'y', 'z'],\n              ['5s', '5d', '5d', '5s'] + ['15.8e'] * 3")
bad('c01-present', 'C01', 'PRESENT', 't2data.py', "             self.selection,\n             self.diffusion,", "             self.diffusion,\n             self.selection,")
bad('c01-disp', 'C01', 'DISP', 't2data.py', "                 self.write_lineq,\n                 self.write_solver,", "                 self.write_solver,")
bad('c01-noloss', 'C01', 'NOLOSS', 't2data.py', "                self.write_connections(meshfile)\n                meshfile.close()", "                meshfile.close()")
bad('c01-bin', 'C01', 'BIN', 't2data.py', "        for var in ['d1', 'd2', 'area', 'dircos', 'sigma']:", "        for var in ['d1', 'd2', 'dircos', 'area', 'sigma']:")
bad('c01-endkw', 'C01', 'ENDKW', 't2data.py', "t2data_sections + ['ENDCY', 'ENDFI']])", "t2data_sections])")
bad('c01-byname', 'C01', 'BYNAME', 't2data.py', "            outfile.write_value_line(self.lineq, 'lineq')", "            outfile.write_value_line(self.solver, 'lineq')")
twin('c01-twin-rename', 'C01', 't2data.py', "        if self.selection:\n            outfile.write('SELEC\\n')", "        if len(self.selection) > 0:\n            outfile.write('SELEC\\n')")
twin('c01-twin-comment', 'C01', 't2data.py', "        outfile.write('CONNE\\n')\n", "        # connections section\n        outfile.write('CONNE\\n')\n")
# ---- C02
bad('c02-width', 'C02', 'LAY', 'fixed_format_file.py', "w = abs(int(fmt.partition('.')[0]))", "w = int(fmt.partition('.')[0])")
bad('c02-guard', 'C02', 'FIT', 'fixed_format_file.py', "                if len(valstr) > width: valstr = fit_value_string(val, f, width)\n", "")
bad('c02-helper', 'C02', 'FIT', 'fixed_format_file.py', "            if len(valstr) == width: return valstr", "            if len(valstr) >= width: return valstr")
bad('c02-table', 'C02', 'LAY', 't2incons.py', "'incon2': [['x1', 'x2', 'x3', 'x4'], ['20.13e'] * 4]", "'incon2': [['x1', 'x2', 'x3', 'x4'], ['20.13e'] * 3]")
twin('c02-twin', 'C02', 'fixed_format_file.py', "                width = self.spec_width[f[0:-1]]\n                if len(valstr) > width:", "                width = self.spec_width[f[:-1]]\n                if len(valstr) > width:")
# ---- C03
bad('c03-unit-read', 'C03', 'UNIT', 'mulgrids.py', "            pos = np.array([x, y]) * self.unit_scale\n            newnode", "            pos = np.array([x, y])\n            newnode")
bad('c03-unit-write', 'C03', 'UNIT', 'mulgrids.py', "geo.write_values([col.name.ljust(3), col.surface / self.unit_scale], 'surface')", "geo.write_values([col.name.ljust(3), col.surface], 'surface')")
bad('c03-just', 'C03', 'JUST', 'mulgrids.py', "            name = name.strip().rjust(self.layername_length)\n            bottom *=", "            name = name.strip()\n            bottom *=")
bad('c03-kw', 'C03', 'DISP', 'mulgrids.py', "geo.write('LAYERS\\n')", "geo.write('LAYRS\\n')")
bad('c03-term', 'C03', 'TERM', 'mulgrids.py', "            geo.write_values(vals, 'layer')\n        geo.write('\\n')", "            geo.write_values(vals, 'layer')")
bad('c03-fmap', 'C03', 'FMAP', 'mulgrids.py', "vals = [lay.name.ljust(3), lay.bottom / self.unit_scale, lay.centre / self.unit_scale]", "vals = [lay.name.ljust(3), lay.centre / self.unit_scale, lay.bottom / self.unit_scale]")
bad('c03-byname', 'C03', 'BYNAME', 'mulgrids.py', "                '_unit_type', 'gdcx', 'gdcy', 'cntype',", "                'unit_type', 'gdcx', 'gdcy', 'cntype',")
bad('c03-header', 'C03', 'HEADER', 'mulgrids.py', "        self.atmosphere_type = self._atmosphere_type\n        self.unit_type", "        self.unit_type")
bad('c03-invtable', 'C03', 'HEADER', 'mulgrids.py', "block_orders = {0: 'layer_column', 1: 'dmplex'}", "block_orders = {1: 'layer_column', 0: 'dmplex'}")
# ---- C04
bad('c04-dim-vol', 'C04', 'DIM', 'mulgrids.py', "return (surf - lay.bottom) * col.area", "return (surf + lay.bottom) * col.area")
bad('c04-dim-area', 'C04', 'DIM', 'mulgrids.py', "area = sidelength * height", "area = sidelength + height")
bad('c04-dim-centre', 'C04', 'DIM', 'mulgrids.py', "midelev = 0.5 * (lay.bottom + col.surface)", "midelev = 0.5 * (lay.bottom - col.surface)")
bad('c04-dim-dist', 'C04', 'DIM', 't2grids.py', "belowdist = col.surface - thisblk.centre[2]", "belowdist = col.surface + thisblk.centre[2]")
bad('c04-pred', 'C04', 'PRED', 't2grids.py', "layercols = [col for col in geo.columnlist if col.surface > lay.bottom]", "layercols = [col for col in geo.columnlist if col.surface >= lay.bottom]")
bad('c04-twin-orient', 'C04', 'TWIN', 't2grids.py', "con = t2connection([thisblk, aboveblk], 3,", "con = t2connection([aboveblk, thisblk], 3,")
bad('c04-twin-pred', 'C04', 'TWIN', 't2grids.py', "if (geo.layerlist.index(lay) == 1) or (col.surface <= lay.top):", "if (geo.layerlist.index(lay) == 1) or (col.surface < lay.top):")
bad('c04-twin-above', 'C04', 'TWIN', 'mulgrids.py', "                    abovelayer = self.layerlist[ilay]\n", "                    abovelayer = self.layerlist[ilay + 1]\n")
twin('c04-twin-benign', 'C04', 'mulgrids.py', "            if surf is not None: return (surf - lay.bottom) * col.area", "            if surf is not None: return col.area * (surf - lay.bottom)")
# ---- C06
bad('c06-none', 'C06', 'NONE', 't2listing.py', "            tname = self.next_table_TOUGH2()\n            if tname is None:\n                raise Exception('Table ' + tablename + ' not found in listing at current time.')", "            tname = self.next_table_TOUGH2()")
bad('c06-restore', 'C06', 'RESTORE', 't2listing.py', "        self._index = old_index\n        short_times", "        short_times")
bad('c06-sign', 'C06', 'SIGN', 't2listing.py', "list(-self._data[rowindex,:])", "list(self._data[rowindex,:])")
bad('c06-sign2', 'C06', 'SIGN', 't2listing.py', "hist[sel_index].append(sgn*vals[valindex])", "hist[sel_index].append(vals[valindex])")
bad('c06-frame', 'C06', 'FRAME', 't2listing.py', "                                vals = self.read_table_line(line, ncols, fmt)\n", "                                vals = self.read_table_line(line, ncols, fmt)\n                                self._time = self.fulltimes[0]\n")
# ---- C07
bad('c07-funnel-seek', 'C07', 'FUNNEL', 't2listing.py', "        self._file.seek(self._fullpos[i])\n        self._index = i", "        if i != self._index + 1: self._file.seek(self._fullpos[i])\n        self._index = i")
bad('c07-funnel-write', 'C07', 'FUNNEL', 't2listing.py', "    def first(self): self.index = 0", "    def first(self): self._index = 0")
bad('c07-bounds', 'C07', 'BOUNDS', 't2listing.py', "more = self.index < self.num_fulltimes - 1", "more = self.index < self.num_fulltimes")
bad('c07-nearest', 'C07', 'BOUNDS', 't2listing.py', "        elif t > self.fulltimes[-1]: self.index = -1", "        elif t > self.fulltimes[-1]: self.index = 0")
bad('c07-bind', 'C07', 'BIND', 't2listing.py', "'read_tables','skip_to_table','read_table_line','read_title',", "'read_tables','skip_to_table','read_table_line','read_title','read_footer',")
bad('c07-dep', 'C07', 'DEP', 't2listing.py', "    def set_index(self, i):\n        self._file.seek(self._fullpos[i])\n        self._index = i", "    def set_index(self, i):\n        self._index = i\n        self.skip_to_nonblank()\n        self._file.seek(self._fullpos[i])")
# ---- C08
bad('c08-pair-add', 'C08', 'PAIR', 't2grids.py', "        else: self.blocklist.append(newblock)\n        self.block[newblock.name] = newblock", "        self.block[newblock.name] = newblock")
bad('c08-pair-del', 'C08', 'PAIR', 't2grids.py', "            del self.connection[connectionname]\n            self.connectionlist.remove(con)", "            del self.connection[connectionname]")
bad('c08-backref', 'C08', 'PAIR', 't2grids.py', "            for block in con.block: block.connection_name.remove(connectionname)\n", "")
bad('c08-rekey', 'C08', 'REKEY', 't2grids.py', "        self.block = dict([(blk.name, blk) for blk in self.blocklist])\n", "        for k, v in blockmap.items():\n            if k in self.block:\n                b = self.block[k]\n                del self.block[k]\n                self.block[v] = b\n")
bad('c08-namekey', 'C08', 'NAMEKEY', 't2grids.py', "                rock = self.rocktype[rockname]\n                del self.rocktype[rockname]\n                rock.name = newrockname\n                self.rocktype[newrockname] = rock", "                rock = self.rocktype[rockname]\n                rock.name = newrockname")
bad('c01-pairgen', 'C01', 'PAIR', 't2data.py', "        self.generatorlist, self.generator = [], {}\n        line = infile.readline()", "        self.generatorlist = []\n        line = infile.readline()")
twin('c08-twin-helper', 'C08', 't2grids.py', "            del self.rocktype[rocktypename]\n            self.rocktypelist.remove(rt)", "            self.rocktypelist.remove(rt)\n            del self.rocktype[rocktypename]")
# ---- C09
bad('c09-orient', 'C09', 'ORIENT', 't2grids.py', "                        con.distance = con.distance[::-1]\n", "")
bad('c09-orient2', 'C09', 'ORIENT', 't2grids.py', "                        if con.dircos is not None: con.dircos = -con.dircos\n", "")
bad('c09-frame', 'C09', 'FRAME', 't2grids.py', "            blk.connection_name = cons\n", "            blk.connection_name = cons\n            blk.volume = float(blk.volume)\n")
bad('c09-part-vol', 'C09', 'PART', 't2grids.py', "mincblk = t2block(mblockname, original_vol * vf,", "mincblk = t2block(mblockname, blk.volume * vf,")
bad('c09-part-chain', 'C09', 'PART', 't2grids.py', "                            self.add_connection(con)\n                            lastblk = mincblk", "                            self.add_connection(con)")
bad('c09-part-norm', 'C09', 'PART', 't2grids.py', "            volume_fractions /= np.sum(volume_fractions)\n", "            volume_fractions /= np.max(volume_fractions)\n")
bad('c09-embed', 'C09', 'PART', 't2grids.py', "                result.block[hostblock.name].volume -= subvol # remove subgrid volume from host block\n", "")
# ---- C10
bad('c10-pair', 'C10', 'PAIR', 'mulgrids.py', "        del self.layer[layername]\n        self.layerlist.remove(layer)", "        self.layerlist.remove(layer)")
bad('c10-backref', 'C10', 'PAIR', 'mulgrids.py', "            for node in col.node: node.column.add(col)\n", "")
bad('c10-nbr', 'C10', 'NBRSYM', 'mulgrids.py', "                        c.neighbour.add(col2)\n", "")
bad('c10-couple', 'C10', 'COUPLE', 'mulgrids.py', "                    col2.num_layers = col.num_layers\n", "")
bad('c10-couple2', 'C10', 'COUPLE', 'mulgrids.py', "            col.surface = elev\n            self.set_column_num_layers(col)", "            col.surface = elev")
bad('c10-refresh', 'C10', 'REFRESH', 'mulgrids.py', "        for col in self.columnlist: self.set_column_num_layers(col)\n        self.setup_block_name_index()\n        self.setup_block_connection_name_index()\n\n    def copy_wells_from", "        for col in self.columnlist: self.set_column_num_layers(col)\n        self.setup_block_name_index()\n\n    def copy_wells_from")
bad('c10-namekey', 'C10', 'NAMEKEY', 'mulgrids.py', "            self.connection = dict([(tuple([col.name for col in con.column]), con)\n                                    for con in self.connectionlist])\n", "")
bad('c10-rekey', 'C10', 'REKEY', 'mulgrids.py', "            self.layer = dict([(lay.name, lay) for lay in self.layerlist])\n", "            for olditem, newitem in zip(oldlayername, newlayername):\n                self.layer[newitem] = self.layer.pop(olditem)\n")
# ---- C11
bad('c11-tile', 'C11', 'TILE', 'mulgrids.py', "(1, 0): ((0, (0, 1), 3), ((0, 1), 1, 2),\n                                              ((0, 1), 2, 3)),", "(1, 0): ((0, (0, 1), 3), ((0, 1), 1, 2),\n                                              ((0, 1), 1, 3)),")
bad('c11-tile2', 'C11', 'TILE', 'mulgrids.py', "[(0, 1, 2), (0, 2, 3), (0, 3, 4)]", "[(0, 1, 2), (0, 2, 3), (1, 3, 4)]")
bad('c11-dispatch', 'C11', 'DISPATCH', 'mulgrids.py', "elif nunref == 1: return nref, (missing[0] + 1) % nn, nn - 2", "elif nunref == 1: return nref, missing[0] % nn, nn - 2")
bad('c11-inherit', 'C11', 'INHERIT', 'mulgrids.py', "                    self.add_column(column(name, nodes, surface = col.surface))\n                    self.columnlist[-1].num_layers = col.num_layers\n            # clean up:", "                    self.add_column(column(name, nodes))\n                    self.columnlist[-1].num_layers = col.num_layers\n            # clean up:")
bad('c11-part', 'C11', 'PART', 'mulgrids.py', "thicknesses += [lay.thickness / factor] * factor", "thicknesses += [lay.thickness / factor] * (factor + 1)")
bad('c11-mid', 'C11', 'DISPATCH', 'mulgrids.py', "midpos = 0.5 * (node1.pos + node2.pos)", "midpos = 0.5 * (node1.pos - node2.pos)")
twin('c11-twin', 'C11', 'mulgrids.py', "midpos = 0.5 * (node1.pos + node2.pos)", "midpos = (node2.pos + node1.pos) * 0.5")
# ---- C12
bad('c12-dom', 'C12', 'DOM', 'mulgrids.py', "                        if nearnbrcols[i].contains_point(pos): return nearnbrcols[i]", "                        if nearnbrcols[i].near_point(pos): return nearnbrcols[i]")
bad('c12-halfopen', 'C12', 'HALFOPEN', 'geometry.py', "if p1[1] <= v[1] < p2[1] or p2[1] <= v[1] < p1[1]:", "if p1[1] <= v[1] <= p2[1] or p2[1] <= v[1] < p1[1]:")
bad('c12-pred', 'C12', 'PRED', 'mulgrids.py', "                if (col.surface > layer.bottom):\n                    blkname", "                if (col.surface >= layer.bottom):\n                    blkname")
bad('c12-layer', 'C12', 'HALFOPEN', 'mulgrids.py', "        return self.bottom <= z <= self.top", "        return self.bottom < z <= self.top")
# ---- C13
bad('c13-term', 'C13', 'TERM', 't2incons.py', "if (self.timing is None) or reset: outfile.write('\\n\\n')", "if (self.timing is None) or reset: pass")
bad('c13-fmap', 'C13', 'FMAP', 't2incons.py', "outfile.write_values([blkname, incon.nseq, incon.nadd, incon.porosity], 'incon1')", "outfile.write_values([blkname, incon.nadd, incon.nseq, incon.porosity], 'incon1')")
bad('c13-namefix', 'C13', 'NAMEFIX', 't2incons.py', "            blkname = unfix_blockname(incon.block)", "            blkname = incon.block")
bad('c13-chunk', 'C13', 'CHUNK', 't2incons.py', "linelen = min(len(vals), 4)", "linelen = min(len(vals), 5)")
bad('c13-prefix', 'C13', 'LAYPREFIX', 't2incons.py', "    'incon1': [['name', 'nseq', 'nadd', 'porx'],\n               ['5s', '5d', '5d', '15.9e']],", "    'incon1': [['name', 'nseq', 'nadd', 'porx'],\n               ['5s', '6d', '4d', '15.9e']],")
bad('c13-timing', 'C13', 'LAYPREFIX', 't2incons.py', "            timing_fmt = 'timing'\n            if self.simulator == 'TOUGHREACT': timing_fmt += '_toughreact'\n            outfile.write_value_line", "            timing_fmt = 'timing'\n            if self.simulator != 'TOUGH2': timing_fmt += '_toughreact'\n            outfile.write_value_line")
# ---- C14
bad('c14-chain', 'C14', 'CHAIN', 'IAPWS97.py', "(20, (8, 8, 4)), (21, (20, 1))", "(20, (8, 8, 3)), (21, (20, 1))")
bad('c14-use', 'C14', 'USE', 'IAPWS97.py', "(28, (23, 5)),\n       (29, (22, 7))", "(29, (22, 7))")
bad('c14-deriv', 'C14', 'DERIV', 'IAPWS97.py', "gamt = sum([n * pspow[i] * j * tspow[j - 1] for", "gamt = sum([n * pspow[i] * j * tspow[j] for")
bad('c14-guard', 'C14', 'GUARD', 'IAPWS97.py', "    if t <= 350.0 and p <= 100.e6:\n\n        tk = t + tc_k\n        pi = p / pstar1", "    if t <= 340.0 and p <= 100.e6:\n\n        tk = t + tc_k\n        pi = p / pstar1")
bad('c14-sat', 'C14', 'GUARD', 'IAPWS97.py', "    if 0. <= t <= tcritical:", "    if 0. <= t < tcritical:")
bad('c14-transp', 'C14', 'TRANSP', 'IAPWS97.py', "f = nr4[0] * beta2 + nr4[3] * beta + nr4[6]", "f = nr4[0] * beta2 + nr4[4] * beta + nr4[6]")
# ---- C15
bad('c15-pow', 'C15', 'POWNAME', 't2thermo.py', "        TKR19 = TKR8 * TKR11", "        TKR19 = TKR8 * TKR10")
bad('c15-bounds', 'C15', 'BOUNDS', 't2thermo.py', "        if (0.01 <= t <= 350.) and (p <= 1.e8): ok = (p >= sat(t))\n        else: ok = False", "        if (0.01 <= t <= 350.) and (p <= 1.e8): ok = (p >= sat(t))\n        else: ok = True")
bad('c15-guard', 'C15', 'GUARD', 't2thermo.py', "            if t <= Tc1_C: ok = (p <= sat(t))", "            if t <= Tc1_C: ok = (p < sat(t))")
bad('c15-sib', 'C15', 'SIBCONST', 't2thermo.py', "        elif t <= 590.:\n            return 2 if p < b23p(t) else 3", "        elif t <= 600.:\n            return 2 if p < b23p(t) else 3")
bad('c15-clamp', 'C15', 'CLAMP', 't2thermo.py', "    return max(min(frac, 1.0), 0.0)", "    return min(frac, 1.0)")
# ---- C16
bad('c16-exc', 'C16', 'EXC', 'fixed_format_file.py', "                    return float(''.join([s[0], s[1:].replace('-', 'e-')]))\n                except ValueError:", "                    return float(''.join([s[0], s[1:].replace('-', 'e-')]))\n                except IndexError:")
bad('c16-exc2', 'C16', 'EXC', 'fixed_format_file.py', "            try:\n              s = s.replace(' ', '')\n              return int(s)\n            except: return None", "            s = s.replace(' ', '')\n            return int(s)")
bad('c16-whocall', 'C16', 'WHOCALL', 't2listing.py', "return [fortran_float(line[fmt['values'][i]: fmt['values'][i+1]])", "return [float(line[fmt['values'][i]: fmt['values'][i+1]])")
bad('c16-whocall2', 'C16', 'WHOCALL', 't2incons.py', "    def __init__(self, filename, mode, read_function = fortran_read_function):", "    def __init__(self, filename, mode, read_function = default_read_function):")
# ---- C17
bad('c17-slice', 'C17', 'SLICE', 'mulgrids.py', "        elif self.convention == 2: return blockname[2: 5]\n        elif self.convention == 3: return blockname[0: 3]", "        elif self.convention == 2: return blockname[3: 5]\n        elif self.convention == 3: return blockname[0: 3]")
bad('c17-len', 'C17', 'SLICE', 'mulgrids.py', "self.layername_length = [2, 3, 2, 2][self.convention]", "self.layername_length = [2, 2, 2, 2][self.convention]")
bad('c17-guard', 'C17', 'LENGUARD', 'mulgrids.py', "        if len(name) > self.layername_length:\n            raise NamingConventionError(\n                \"Layer name is too long for the grid naming convention.\")\n        return name", "        return name")
bad('c17-guard2', 'C17', 'LENGUARD', 'mulgrids.py', "        name = self.node_col_name_from_number(num, justfn, chars, spaces)\n        if len(name) > self.colname_length:\n            raise NamingConventionError(\n                \"Column name is too long", "        name = self.node_col_name_from_number(num, justfn, chars, spaces)\n        if len(name) > self.colname_length + 1:\n            raise NamingConventionError(\n                \"Column name is too long")
bad('c17-avoid', 'C17', 'AVOID', 'mulgrids.py', "            name = surfacelayername\n            while name == surfacelayername:\n                # make sure layer name is different from surface layer name\n                num += 1\n                name = self.layer_name_from_number(num, justfn, chars, spaces)", "            num += 1\n            name = self.layer_name_from_number(num, justfn, chars, spaces)")
bad('c17-fresh', 'C17', 'FRESH', 'mulgrids.py', "        used = name in d\n    return name, i", "        used = name.strip() in d\n    return name, i")
# ---- C19
bad('c19-total', 'C19', 'TOTAL', 'mulgrids.py', "        for dest in geo.block_name_list:\n            destcol, destlayer", "        for dest in geo.block_name_list[1:]:\n            destcol, destlayer")
bad('c19-offset', 'C19', 'TOTAL', 'mulgrids.py', "closest = self.layerlist[1 + np.argmin(laydist)]", "closest = self.layerlist[np.argmin(laydist)]")
bad('c19-case', 'C19', 'CASE', 't2incons.py', "            else: self[atmblk] = copy(default_atm_incons)\n        elif geo.atmosphere_type == 1:", "            else: pass\n        elif geo.atmosphere_type == 1:")
bad('c19-alias', 'C19', 'NOALIAS', 't2incons.py', "            if sourcegeo.atmosphere_type == 0: self[atmblk] = copy(sourceinc[0])", "            if sourcegeo.atmosphere_type == 0: self[atmblk] = sourceinc[0]")
bad('c19-alias2', 'C19', 'NOALIAS', 't2data.py', "                for blk in mappedblocks:\n                    gen = deepcopy(sourcegen)", "                for blk in mappedblocks:\n                    gen = sourcegen")
bad('c19-pred', 'C19', 'PRED', 'mulgrids.py', "if self.column[sourcecol].surface <= self.layer[sourcelayer].bottom:", "if self.column[sourcecol].surface < self.layer[sourcelayer].bottom:")
# ---- C20
bad('c20-post', 'C20', 'POST', 't2data.py', "        self.simulator = ''\n        self.delete_section('SIMUL')\n", "        self.simulator = ''\n")
bad('c20-post2', 'C20', 'POST', 't2data.py', "            if 'eos' in self.multi: del self.multi['eos']\n", "")
bad('c20-flow', 'C20', 'FLOW', 't2data.py', "        if delgens:\n            self.generatorlist = keepgens\n            self.generator = dict([((gen.block, gen.name), gen) for gen in self.generatorlist])\n", "")
bad('c20-eos', 'C20', 'EOSFLOW', 't2data.py', "                        aut2eosname = eosname\n", "                        autseosname = eosname\n")
bad('c20-once', 'C20', 'ONCE', 't2data.py', "            if 0. < blk.volume < atmos_volume:\n                jsondata['rock']", "            if 0. <= blk.volume < atmos_volume:\n                jsondata['rock']")
bad('c20-once2', 'C20', 'ONCE', 't2data.py', "cell_index = geo.block_name_index[gen.block] - geo.num_atmosphere_blocks", "cell_index = geo.block_name_index[gen.block]")
bad('c20-dispatch', 'C20', 'POST', 't2data.py', "                if oldtype == 'AUTOUGH2': self.convert_to_TOUGH2()\n                elif oldtype == 'TOUGH2': self.convert_to_AUTOUGH2()", "                if oldtype == 'TOUGH2': self.convert_to_TOUGH2()\n                elif oldtype == 'AUTOUGH2': self.convert_to_AUTOUGH2()")

# ---- rules added after the second round of seeded changes (mutants differ from the seeds)
bad('c04-optnum', 'C04', 'NONETEST', 'mulgrids.py', "            if col.surface is None: return lay.top\n", "            if not col.surface: return lay.top\n")
bad('c03-optnum', 'C03', 'NONETEST', 'mulgrids.py', "        if val is None: self.default_surface = True\n        else: self.default_surface = False", "        self.default_surface = not val")
bad('c01-optnum', 'C01', 'NONETEST', 't2data.py', "            if gen.hg is None or gen.hg >= 0:", "            if not gen.hg or gen.hg >= 0:")
bad('c13-nonetest-any', 'C13', 'NONETEST', 't2incons.py', "if (k1 is None or k2 is None or k3 is None): permeability = None", "if not (k1 and k2 and k3): permeability = None")
bad('c01-pure', 'C01', 'PURE', 't2data.py', "        genw = copy(gen.__dict__)\n", "        genw = gen.__dict__\n")
twin('c01-pure-twin', 'C01', 't2data.py', "        genw = copy(gen.__dict__)\n", "        genw = dict(gen.__dict__)\n")
bad('c19-argswap', 'C19', 'ARGSWAP', 't2data.py', "        self.transfer_generators_from(source, sourcegeo, geo,\n", "        self.transfer_generators_from(source, geo, sourcegeo,\n")
bad('c02-shared', 'C02', 'SHARED', 'fixed_format_file.py', ["        self.line_spec, self.spec_width={}, {}\n", "    def __init__(self, filename, mode, specification,"],
    ["        pass\n", "    line_spec, spec_width = {}, {}\n\n    def __init__(self, filename, mode, specification,"])
bad('c02-fit-le', 'C02', 'FIT', 'fixed_format_file.py', "            valstr = ('%%*.*%s' % typ) % (width, prec, val)\n            if len(valstr) == width: return valstr", "            valstr = ('%%.*%s' % typ) % (prec, val)\n            if len(valstr) <= width: return valstr")
bad('c13-flavour', 'C13', 'FLAVOUR', 't2incons.py', "        finished = False\n        timing = False\n        while not finished:", "        is_react = self.simulator == 'TOUGHREACT'\n        finished = False\n        timing = False\n        while not finished:")
bad('c08-nameuse', 'C08', 'NAMEUSE', 't2grids.py', "            if self.rocktype_frequency(rt.name) == 0: unused_rocktypes.append(rt.name)", "            if not [blk for blk in self.blocklist if blk.rocktype is rt]: unused_rocktypes.append(rt.name)")
twin('c08-nameuse-twin', 'C08', 't2grids.py', "            if self.rocktype_frequency(rt.name) == 0: unused_rocktypes.append(rt.name)", "            if not [blk for blk in self.blocklist if blk.rocktype.name == rt.name]: unused_rocktypes.append(rt.name)")
bad('c08-uniqguard', 'C08', 'UNIQGUARD', 't2grids.py', "                        if mblockname in self.block:", "                        if mblockname in blkidict:")
bad('c11-angidx', 'C11', 'ANGIDX', 'mulgrids.py', "        angles = [np.pi - (h[(i + 1) % self.num_nodes] - h[i]) for i in range(self.num_nodes)]", "        angles = [np.pi - (h[i] - h[i - 1]) for i in range(self.num_nodes)]")
twin('c11-angidx-twin', 'C11', 'mulgrids.py', "        side = [self.node[i].pos - self.node[i - 1].pos for i in range(self.num_nodes)]\n        h = [vector_heading(s) for s in side]\n        angles = [np.pi - (h[(i + 1) % self.num_nodes] - h[i]) for i in range(self.num_nodes)]",
     "        nn = self.num_nodes\n        side = [self.node[(i + 1) % nn].pos - self.node[i].pos for i in range(nn)]\n        h = [vector_heading(s) for s in side]\n        angles = [np.pi - (h[i] - h[i - 1]) for i in range(nn)]")
bad('c11-cover-late', 'C11', 'COVER', 'mulgrids.py', "                    if all([concol in bisect_edge_columns for concol in con.column]):", "                    if all([concol not in columns for concol in con.column]):")
bad('c12-cacheinv', 'C12', 'CACHEINV', 'mulgrids.py', "        return bounds_of_points([node.pos for node in self.node])\n    bounding_box = property(get_bounding_box)", "        if getattr(self, '_bb', None) is None:\n            self._bb = bounds_of_points([node.pos for node in self.node])\n        return self._bb\n    bounding_box = property(get_bounding_box)")
bad('c14-divsafe', 'C14', 'DIVSAFE', 'IAPWS97.py', "        d = 2.0 * g / (-f - sqrt(f * f - 4. * e * g))", "        d = (-f + sqrt(f * f - 4. * e * g)) / (2.0 * e)")
twin('c14-divsafe-twin', 'C14', 'IAPWS97.py', "        d = 2.0 * g / (-f - sqrt(f * f - 4. * e * g))", "        disc = f * f - 4. * e * g\n        d = 2.0 * g / (-f - sqrt(disc))")
bad('c09-part-unscaled', 'C09', 'PART', 't2grids.py', "            volume_fractions /= np.sum(volume_fractions)\n            vf0 = 1. - volume_fractions[0]", "            vfrac = volume_fractions / np.sum(volume_fractions)\n            vf0 = 1. - vfrac[0]")
bad('c19-total-atm', 'C19', 'TOTAL', 'mulgrids.py', "            if destlayer == geo.layerlist[0].name:\n                sourcelayer = self.layerlist[0].name", "            if destlayer == self.layerlist[0].name:\n                sourcelayer = self.layerlist[0].name")
bad('c10-pred', 'C10', 'PRED', 'mulgrids.py', "layer.bottom < col.surface])", "layer.bottom <= col.surface])")
bad('c20-pair', 'C20', 'PAIR', 't2data.py', "            self.generatorlist = keepgens\n            self.generator = dict([((gen.block, gen.name), gen) for gen in self.generatorlist])\n", "            self.generatorlist = keepgens\n")

bad('c01-echo', 'C01', 'ECHO', 't2data.py', "        if self.type == 'AUTOUGH2' and self.extra_precision:\n            # extra precision sections are echoed if they are also in the main file:\n            self.echo_extra_precision = any([section in self._sections for\n                                             section in self.extra_precision])\n", "")

bad('c15-solverarg', 'C15', 'SOLVERARG', 't2thermo.py', "        def f(t): return sat(t[0]) - p", "        def f(t): return sat(t) - p")
twin('c15-solverarg-twin', 'C15', 't2thermo.py', "        def f(t): return sat(t[0]) - p", "        def f(x):\n            x0 = x[0]\n            return sat(x0) - p")

bad('c17-avoid-caller', 'C17', 'AVOID', 'mulgrids.py', "        self.add_layers(thicknesses, top_elevation, justify, chars, spaces, atm_name)\n", "        self.add_layers(thicknesses, top_elevation, justify, chars, spaces)\n        self.rename_layer(self.layerlist[0].name, atm_name)\n")

# ---- rules added after the fourth round of seeded changes (mutants differ from the seeds where possible) and twins from the
# ---- second round of refactorings
bad('c01-verbatim', 'C01', 'FMAP', 't2data.py', "        block, name = fix_blockname(block), fix_blockname(name)\n        time, rate, enthalpy = [], [], []", "        block, name = fix_blockname(block), fix_blockname(name)\n        gentype = gentype.rstrip()\n        time, rate, enthalpy = [], [], []")
bad('c01-namefix-path', 'C01', 'NAMEFIX', 't2data.py', "            blockname = fix_blockname(blockname)\n            variables = infile.read_values('incon2')", "            if nseq is None: blockname = fix_blockname(blockname)\n            variables = infile.read_values('incon2')")
bad('c01-endkw-attr', 'C01', 'ENDKW', 't2data.py', "t2data_sections + ['ENDCY', 'ENDFI']])", "t2data_sections + [self.end_keyword]])")
twin('c01-endkw-twin', 'C01', 't2data.py', "t2data_sections + ['ENDCY', 'ENDFI']])", "t2data_sections + ['ENDFI'] + ['ENDCY']])")
bad('c03-setter-early', 'C03', 'HEADER', 'mulgrids.py', "        \"\"\"Set naming convention\"\"\"\n        self._convention = convention\n        self.set_secondary_variables()", "        \"\"\"Set naming convention\"\"\"\n        changed = convention != self._convention\n        self._convention = convention\n        if changed: self.set_secondary_variables()")
twin('c03-setter-twin', 'C03', 'mulgrids.py', "        \"\"\"Set naming convention\"\"\"\n        self._convention = convention\n        self.set_secondary_variables()\n        self.setup_block_name_index()", "        \"\"\"Set naming convention\"\"\"\n        self._convention = convention\n        self.set_secondary_variables()\n        if True: self.setup_block_name_index()")
bad('c03-orderint', 'C03', 'HEADER', 'mulgrids.py', "        elif self.block_order is None:\n            self._block_order_int = None\n", "        elif self.block_order is None:\n            pass\n")
bad('c04-indexorder', 'C04', 'INDEXORDER', 'mulgrids.py', "        for col in self.columnlist: self.set_column_num_layers(col)\n        self.setup_block_name_index()\n        self.setup_block_connection_name_index()", "        for col in self.columnlist: self.set_column_num_layers(col)\n        self.setup_block_connection_name_index()\n        self.setup_block_name_index()")
bad('c04-laytops', 'C04', 'LAYTOPS', 'mulgrids.py', "        self.layerlist[0].top = self.layerlist[0].bottom\n        for i, this in enumerate(self.layerlist[1:]):", "        for i, this in enumerate(self.layerlist[1:]):")
twin('c04-laytops-twin', 'C04', 'mulgrids.py', "        for i, this in enumerate(self.layerlist[1:]):\n            above = self.layerlist[i]\n            this.top = above.bottom", "        for above, this in zip(self.layerlist[:-1], self.layerlist[1:]):\n            this.top = above.bottom")
bad('c11-laytops', 'C11', 'PART', 'mulgrids.py', "            above = self.layerlist[i]\n            this.top = above.bottom", "            above = self.layerlist[i + 1]\n            this.top = above.bottom")
bad('c06-duprow', 'C06', 'DUPROW', 't2listing.py', "                rowdict[index] = (count,keyval)", "                if index not in rowdict: rowdict[index] = (count,keyval)")
bad('c10-laycount-owner', 'C10', 'LAYCOUNT', 'mulgrids.py', "        for col in self.columnlist: self.set_column_num_layers(col)\n        self.setup_block_name_index()\n        self.setup_block_connection_name_index()\n\n", "        for col in geo.columnlist: self.set_column_num_layers(col)\n        self.setup_block_name_index()\n        self.setup_block_connection_name_index()\n\n")
bad('c10-nbr-bulk', 'C10', 'NBRSYM', 'mulgrids.py', "                        col2.neighbour.add(c)\n                        c.neighbour.add(col2)\n", "                        pass\n                    col2.neighbour |= set(swapnbrs)\n")
twin('c10-nbr-bulk-twin', 'C10', 'mulgrids.py', "                        col2.neighbour.add(c)\n                        c.neighbour.add(col2)\n", "                        c.neighbour.add(col2)\n                    col2.neighbour.update(swapnbrs)\n")
bad('c11-index-helper', 'C11', 'DECOMP', 'mulgrids.py', "        return (i + d) % self.num_nodes", "        return (i + d) % (self.num_nodes - 1)")
twin('c11-index-helper-twin', 'C11', 'mulgrids.py', "        result = i - d\n        if result < 0: result += self.num_nodes\n        return result", "        return (i - d) % self.num_nodes")
bad('c12-wave', 'C12', 'DOM', 'mulgrids.py', "                if rectangles_intersect(nbr.bounding_box, self.bounds) and \\\n", "                if in_rectangle(pos, nbr.bounding_box) and \\\n")
twin('c12-wave-twin', 'C12', 'mulgrids.py', "                if rectangles_intersect(nbr.bounding_box, self.bounds) and \\\n                   not ((nbr in done) or (nbr in todo)):", "                if not ((nbr in done) or (nbr in todo)):")
bad('c13-namefix-path', 'C13', 'NAMEFIX', 't2incons.py', "                        blkname = fix_blockname(blkname)\n", "                        if check_blocknames: blkname = fix_blockname(blkname)\n")
bad('c15-startdom', 'C15', 'STARTDOM', 't2thermo.py', "        if (0.01 <= t <= 500.0): # arbitrary upper limit in TOUGH2 implementation", "        if (0.01 <= t <= 374.5): # arbitrary upper limit in TOUGH2 implementation")
twin('c15-startdom-twin', 'C15', 't2thermo.py', "        if (0.01 <= t <= 500.0): # arbitrary upper limit in TOUGH2 implementation", "        if (0.01 <= t <= 450.0): # arbitrary upper limit in TOUGH2 implementation")
bad('c17-uniqlast', 'C17', 'UNIQLAST', 'mulgrids.py', "        chars = uniqstring(chars)\n        num = 0\n        self.clear_layers()", "        chars = uniqstring(chars)\n        chars = chars.lower()\n        num = 0\n        self.clear_layers()")
bad('c17-namespace', 'C17', 'NAMESPACE', 'mulgrids.py', "        name, i = new_dict_key(self.node, istart, justfn, self.colname_length,", "        name, i = new_dict_key(self.column, istart, justfn, self.colname_length,")
bad('c19-mutdefault', 'C19', 'MUTDEFAULT', 't2incons.py', "        if (colmapping == {}) or (mapping == {}):\n            mapping, colmapping = sourcegeo.block_mapping(geo, True)", "        if (colmapping == {}) or (mapping == {}):\n            mapping.update(sourcegeo.block_mapping(geo))\n            colmapping.update(sourcegeo.column_mapping(geo))")
bad('c19-total-alias', 'C19', 'TOTAL', 'mulgrids.py', ["        layer_mapping = self.layer_mapping(geo)\n        for dest in geo.block_name_list:", "            if destlayer == geo.layerlist[0].name:\n"], ["        layer_mapping = self.layer_mapping(geo)\n        atmname = self.layerlist[0].name\n        for dest in geo.block_name_list:", "            if destlayer == atmname:\n"])
bad('c20-simulfirst', 'C20', 'SIMULFIRST', 't2data.py', "            if listindex == 0: return 0  # SIMUL section\n            else:\n", "            if True:\n")
twin('c20-simulfirst-twin', 'C20', 't2data.py', "            if listindex == 0: return 0  # SIMUL section\n", "            if section == 'SIMUL': return 0\n")
bad('c20-eos-order', 'C20', 'EOSFLOW', 't2data.py', "                for eosname in supported_eos.keys():", "                for eosname in sorted(supported_eos.keys(), key = len, reverse = True):")
twin('c20-eos-order-twin', 'C20', 't2data.py', "                for eosname in supported_eos.keys():", "                for eosname in sorted(supported_eos.keys(), key = len):")
twin('c09-twin-genexp', 'C09', 't2grids.py', "        subvol = sum([blk.volume for blk in subgrid.blocklist])", "        subvol = sum(blk.volume for blk in subgrid.blocklist)")
twin('c06-twin-ifexp', 'C06', 't2listing.py', "                                sgn = [1.,-1.][reverse]", "                                sgn = -1. if reverse else 1.")
twin('c16-twin-dict', 'C16', 'fixed_format_file.py', "    result = {'s': strfn, 'x': spacefn, 'd': intfn}\n    for typ in ['f','e','g']: result[typ] = floatfn\n    return result", "    return {'s': strfn, 'x': spacefn, 'd': intfn, 'f': floatfn, 'e': floatfn, 'g': floatfn}")
twin('c14-twin-table', 'C14', 'IAPWS97.py', "        if t <= 350.:\n            return 1 if p > sat(t) else 2\n        elif t <= 590.:\n            return 3 if p > b23p(t) else 2\n        else: return 2", "        for tmax, dense, pb in ((350., 1, sat), (590., 3, b23p)):\n            if t <= tmax:\n                return dense if p > pb(t) else 2\n        return 2")

bad('c11-consumer-sign', 'C11', 'DISPATCH', 'mulgrids.py', "n = col.node[(istart + vert) % nn]", "n = col.node[(istart - vert) % nn]")
bad('c11-consumer-sides', 'C11', 'DISPATCH', 'mulgrids.py', "                        refined_sides.append(i)", "                        refined_sides.insert(0, i)")
bad('c11-consumer-key', 'C11', 'DISPATCH', 'mulgrids.py', "for subcol in transition_column[nn][nrefined, irange]:", "for subcol in transition_column[nn][nrefined, istart]:")
twin('c11-consumer-twin', 'C11', 'mulgrids.py', "                        if isinstance(vert, int): n = col.node[(istart + vert) % nn]\n                        elif vert == 'c': n = centrenodes[col.name]", "                        if vert == 'c': n = centrenodes[col.name]\n                        elif isinstance(vert, int): n = col.node[(vert + istart) % nn]")

bad('c03-justtest', 'C03', 'JUSTTEST', 'mulgrids.py', "blkname[0:3] == blkname[0:3].strip().rjust(3)", "blkname[0:3] == blkname[0:3].rjust(3)")
twin('c03-justtest-twin', 'C03', 'mulgrids.py', "blkname[0:3] == blkname[0:3].strip().rjust(3)", "blkname[:3].strip().rjust(3) == blkname[:3]")

# ---- rules added after the sixth round of seeded changes
bad('c03-loopcarry', 'C03', 'LOOPCARRY', 'mulgrids.py',
    ["        line = padstring(geo.readline())\n        while line.strip():\n            name, bottom, centre = geo.parse_string(line, 'layer')",
     "            if centre is not None: centre *= self.unit_scale\n            else:\n                nlayers = len(self.layer)\n                if nlayers > 1:\n                    centre = 0.5 * (newlayer.bottom +\n                                    self.layerlist[nlayers - 2].bottom)\n                else: centre = newlayer.bottom\n            newlayer.centre = centre"],
    ["        line = padstring(geo.readline())\n        lcentre = None\n        while line.strip():\n            name, bottom, centre = geo.parse_string(line, 'layer')",
     "            if centre is not None: lcentre = centre * self.unit_scale\n            newlayer.centre = lcentre"])
twin('c03-loopcarry-twin', 'C03', 'mulgrids.py', "            if centre is not None: centre *= self.unit_scale\n            else:\n                nlayers = len(self.layer)\n                if nlayers > 1:\n                    centre = 0.5 * (newlayer.bottom +\n                                    self.layerlist[nlayers - 2].bottom)\n                else: centre = newlayer.bottom\n",
    "            if centre is None:\n                nlayers = len(self.layer)\n                if nlayers > 1:\n                    centre = 0.5 * (newlayer.bottom +\n                                    self.layerlist[nlayers - 2].bottom)\n                else: centre = newlayer.bottom\n            else: centre *= self.unit_scale\n")
bad('c03-setterorder', 'C03', 'SETTERORDER', 'mulgrids.py', "        self._block_order = block_order\n        self.set_block_order_int()", "        self.set_block_order_int()\n        self._block_order = block_order")
bad('c10-namein', 'C10', 'NAMEIN', 'mulgrids.py', "        if nod.name not in self.node:\n            self.nodelist.append(nod)", "        if nod.name not in self.nodelist:\n            self.nodelist.append(nod)")
twin('c10-namein-twin', 'C10', 'mulgrids.py', "        if nod.name not in self.node:\n            self.nodelist.append(nod)", "        if nod not in self.nodelist and nod.name not in self.node:\n            self.nodelist.append(nod)")
bad('c02-strread', 'C02', 'STRREAD', 'fixed_format_file.py', "default_read_str = value_error_none(lambda x: x.rstrip('\\n'))", "default_read_str = value_error_none(lambda x: x.strip())")
twin('c02-strread-twin', 'C02', 'fixed_format_file.py', "default_read_str = value_error_none(lambda x: x.rstrip('\\n'))", "default_read_str = value_error_none(lambda x: x.rstrip('\\r\\n'))")
bad('c06-timepair', 'C06', 'TIMEPAIR', 't2listing.py', "[short_times, all_times][len(h) == self.num_fulltimes]", "[short_times, all_times][len(hist) == self.num_fulltimes]")
bad('c17-justarg', 'C17', 'JUSTARG', 'mulgrids.py', "                    name, colnumber = self.new_column_name(colnumber, justfn, chars, spaces)\n                    nodes = []", "                    name, colnumber = self.new_column_name(colnumber, chars = chars, spaces = spaces)\n                    nodes = []")
bad('c12-sortframe', 'C12', 'PARAM', 'geometry.py', "    d = np.array([norm(c - line[0]) for c in crossings])", "    d = np.array([norm(c - l2) for c in crossings])")
bad('c19-mutdefault-alias', 'C19', 'MUTDEFAULT', 't2data.py', "        col_generator = top_generator + bottom_generator\n", "        col_generator = top_generator\n        col_generator.extend(bottom_generator)\n")
bad('c19-corrpred', 'C19', 'TOTAL', 'mulgrids.py', "                if self.column[sourcecol].surface <= self.layer[sourcelayer].bottom:", "                if geo.column[destcol].surface <= self.layer[sourcelayer].bottom:")
bad('c15-residual-bounds', 'C15', 'GUARD', 't2thermo.py', "        def f(t): return sat(t[0]) - p", "        def f(t): return sat(t[0], bounds = True) - p")
bad('c20-threshold', 'C20', 'ONCE', 't2data.py', "            if 0. < blk.volume < atmos_volume:\n                jsondata['rock']", "            if 0. < blk.volume < 1.e25:\n                jsondata['rock']")
bad('c04-dircos-norm', 'C04', 'SUMDIST', 't2grids.py', "            dircos = np.dot(d, tilt) / np.linalg.norm(d)", "            dircos = np.dot(d, tilt) / np.linalg.norm(tilt2)")
bad('c11-cover-const', 'C11', 'COVER', 'mulgrids.py', "                    if all([concol in bisect_edge_columns for concol in con.column]):", "                    if all([bisect_edge_columns for concol in con.column]):")


def _run_one(entry):
    i, pid, rule, kind, fname, old, new = entry
    src_path = os.path.join(os.environ.get('PYTOUGH_SA_SELFTEST_REPO', REPO), fname)
    with open(src_path, 'rb') as f:
        src = f.read().decode('utf-8', 'replace')
    olds, news = (old, new) if isinstance(old, (list, tuple)) else ([old], [new])
    if any(o not in src for o in olds):
        return (i, pid, rule, kind, 'skipped', 'source fragment not present any more')
    mutated = src
    for o, n_ in zip(olds, news):
        if o != n_: mutated = mutated.replace(o, n_, 1)
    d = tempfile.mkdtemp(prefix='pytough_sa_selftest_')
    try:
        for m in MODULES:
            p = os.path.join(os.environ.get('PYTOUGH_SA_SELFTEST_REPO', REPO), m + '.py')
            shutil.copy(p, os.path.join(d, m + '.py'))
        with open(os.path.join(d, fname), 'w') as f:
            f.write(mutated)
        try:
            import warnings
            with warnings.catch_warnings():
                warnings.simplefilter('ignore')
                compile(mutated, fname, 'exec')
        except SyntaxError as e:
            return (i, pid, rule, kind, 'error', 'mutant does not compile: %s' % e)
        from .__main__ import run_check
        buf = io.StringIO()
        with contextlib.redirect_stdout(buf):
            code = run_check(pid, 'quick', root=d, write=False)
        out = buf.getvalue()
        if kind == 'bad':
            hit = any(('violated: [%s]' % rule) in line for line in out.splitlines())
            if code == 1 and hit: return (i, pid, rule, kind, 'ok', 'reported by %s' % rule)
            anyv = [l.strip() for l in out.splitlines() if 'violated: [' in l]
            return (i, pid, rule, kind, 'MISSED', 'exit %d; other reports: %s' % (code, anyv[:2]))
        else:
            if code == 0: return (i, pid, rule, kind, 'ok', 'silent')
            bad_ = [l.strip() for l in out.splitlines() if 'violated: [' in l or 'ANALYSIS-ERROR' in l]
            return (i, pid, rule, kind, 'FALSE-ALARM', 'exit %d: %s' % (code, bad_[:2]))
    finally:
        shutil.rmtree(d, ignore_errors=True)


def run(entries, jobs=16):
    if not entries: return []
    import multiprocessing as mp
    with mp.Pool(min(jobs, len(entries))) as pool:
        return pool.map(_run_one, entries)


def summarise(results):
    ok = sum(1 for r in results if r[4] == 'ok')
    bad_ = [r for r in results if r[4] in ('MISSED', 'FALSE-ALARM', 'error')]
    skipped = [r for r in results if r[4] == 'skipped']
    return ok, bad_, skipped


def run_for_property(pid, root=None, quiet=False):
    """returns (status code, summary dict)"""
    entries = [e for e in M if e[1] == pid]
    res = run(entries)
    ok, bad_, skipped = summarise(res)
    if not quiet:
        print('  self-test %s: %d mutants/twins, %d as expected, %d wrong, %d skipped' % (pid, len(res), ok, len(bad_), len(skipped)))
        for r in bad_: print('  SELFTEST %s %s [%s] %s: %s' % (r[4], r[0], r[2], r[3], r[5]))
        for r in skipped: print('  selftest skipped %s: %s' % (r[0], r[5]))
    summary = {'entries': len(res), 'as_expected': ok, 'wrong': [list(r) for r in bad_], 'skipped': [r[0] for r in skipped],
               'detail': [{'id': r[0], 'rule': r[2], 'kind': r[3], 'result': r[4]} for r in res]}
    return (2 if bad_ else 0), summary


def main(args):
    jobs = 16
    only = None
    if '--jobs' in args: jobs = int(args[args.index('--jobs') + 1])
    if '--only' in args: only = args[args.index('--only') + 1]
    entries = [e for e in M if only is None or only in (e[0], e[1], e[2])]
    res = run(entries, jobs)
    ok, bad_, skipped = summarise(res)
    for r in res:
        print('%-12s %-18s %-4s %-9s %-5s %s' % (r[4], r[0], r[1], r[2] or '-', r[3], r[5][:150]))
    print('self-test: %d entries, %d as expected, %d wrong, %d skipped' % (len(res), ok, len(bad_), len(skipped)))
    return 2 if bad_ else 0
